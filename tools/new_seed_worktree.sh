#!/bin/bash
# usage: new_seed_worktree.sh <seedID>   -> scratch worktree /tmp/seed/<ID> of /repo HEAD with a warm target dir
ID="$1"; W=/tmp/seed/$ID
mkdir -p /tmp/seed
git -C /repo worktree add --detach "$W" HEAD >/dev/null 2>&1 || { echo "worktree add failed"; exit 2; }
cp -a /repo/target "$W/target" 2>/dev/null
rm -f "$W"/tests/stderr-snapshots/*.snap.new
echo "$W"
