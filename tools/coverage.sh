#!/bin/bash
# Diagnostic (not a check): which functions of /repo/src do the quick tiers never execute?
# Builds the harness with -C instrument-coverage on the nightly toolchain into /var/tmp/cov, runs every quick tier with
# profiles in /var/tmp/cov/prof, and prints per-file line coverage plus the list of never-executed functions.
set -u
COV=/var/tmp/cov; BIN=$COV/target/debug/truth-verif
LL=$HOME/.rustup/toolchains/nightly-x86_64-unknown-linux-gnu/lib/rustlib/x86_64-unknown-linux-gnu/bin
mkdir -p $COV/prof $COV/vroot
if [ "${1:-}" != "--report-only" ]; then
  (cd /verif/harness && CARGO_TARGET_DIR=$COV/target RUSTFLAGS="-C instrument-coverage --cfg truth_verif" cargo +nightly build --offline) || exit 2
  rm -f $COV/prof/*.profraw
  # a private VERIF_ROOT so that evidence/replay files of the real tree are not touched
  rm -rf $COV/vroot; mkdir -p $COV/vroot/target; cp /verif/known_findings.jsonl $COV/vroot/; cp /verif/target/libverif_seed.so $COV/vroot/target/ 2>/dev/null
  for i in ${COV_CHECKS:-01 02 03 04 05 06 07 08 09 10 11 12 13 14 15 16 17 18 19 20}; do
    VERIF_ROOT=$COV/vroot RUST_BACKTRACE=0 LLVM_PROFILE_FILE="$COV/prof/c$i-%p-%m.profraw" VERIF_WALL_S=600 $BIN run C$i quick | tail -1 | cut -c1-160
  done
fi
$LL/llvm-profdata merge -sparse $COV/prof/*.profraw -o $COV/all.profdata || exit 2
$LL/llvm-cov report $BIN -instr-profile=$COV/all.profdata --ignore-filename-regex='(\.cargo|rustc|/verif/|/var/tmp|lalrpop)' 2>/dev/null > $COV/report.txt
$LL/llvm-cov export $BIN -instr-profile=$COV/all.profdata -format=lcov --ignore-filename-regex='(\.cargo|rustc|/verif/|/var/tmp)' 2>/dev/null > $COV/lcov.info
python3 - <<'PY'
import re,collections
fn=collections.OrderedDict(); cur=None
for l in open('/var/tmp/cov/lcov.info'):
    l=l.strip()
    if l.startswith('SF:'): cur=l[3:]
    elif l.startswith('FNDA:'):
        n,name=l[5:].split(',',1); fn.setdefault((cur,name),0); fn[(cur,name)]+=int(n)
never=[k for k,v in fn.items() if v==0 and '/repo/src' in k[0]]
import subprocess
def dem(n):
    return n
out=collections.defaultdict(list)
for f,n in never: out[f.replace('/repo/src/','')].append(n)
with open('/var/tmp/cov/never.txt','w') as w:
    for f in sorted(out): w.write(f"{f}: {len(out[f])}\n"); [w.write(f"    {n}\n") for n in out[f]]
print("functions never executed:", len(never), "of", len([k for k in fn if '/repo/src' in k[0]]))
PY
grep -E "^/repo/src|^TOTAL|^Filename" $COV/report.txt | awk '{print $1, $(NF-3), $(NF-2), $(NF-1)}' | column -t | head -80
