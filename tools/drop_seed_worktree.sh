#!/bin/bash
# usage: drop_seed_worktree.sh <seedID>
ID="$1"; git -C /repo worktree remove --force /tmp/seed/$ID; rm -rf /tmp/seed/$ID /tmp/seed_$ID.*
