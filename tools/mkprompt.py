import json,sys,os,glob
ID=sys.argv[1]; PROP=ID[:3]; W=f"/tmp/seed/{ID}"
p=[json.loads(l) for l in open('/verif/properties.jsonl') if json.loads(l)['id']==PROP][0]
prior=[]
for d in sorted(glob.glob(f'/verif/seeded/{PROP}*/')):
    m=json.load(open(d+'meta.json')); txt=m['needs_to_manifest']
    # first ~400 chars after heading
    prior.append('* '+ ' '.join(txt.split())[:420])
extra=sys.argv[2:] 
for e in extra: prior.append('* '+e)
t=open('/verif/tools/seed_prompt_template.md').read()
t=t.replace('@W@',W).replace('@TITLE@',p['title']).replace('@STATEMENT@',p['statement']).replace('@ID@',ID).replace('@PRIOR@','\n'.join(prior) or '* (none)')
open(f'/tmp/seed/{ID}.prompt.md','w').write(t)
print(len(t))
