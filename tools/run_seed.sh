#!/bin/bash
# usage: run_seed.sh <seedID> <check ids...>
S=$1; shift
git -C "${VERIF_REPO:-/repo}" apply /verif/seeded/$S/patch.diff || { echo "patch failed"; exit 2; }
for c in "$@"; do (cd /verif && ./check $c quick 2>&1 | grep "signature:\|^\[\|MACHINERY" | head -4 | cut -c1-230); done
git -C "${VERIF_REPO:-/repo}" checkout -- .
