#!/bin/bash
# Confirm a seeded change produced by an independent sub-agent in its scratch worktree /tmp/seed/<ID>:
#   compiles; the 492 baseline tests still pass; the demonstration fails with the change and passes without it.
# On success the change is stored under /verif/seeded/<ID>/ (patch.diff, demo.sh, DEMO.md, meta.json).
ID="$1"; PROP="${ID:0:3}"; W=/tmp/seed/$ID; T=$W/target
cd "$W" || exit 2
export RUST_BACKTRACE=0 CARGO_NET_OFFLINE=true
git diff -- src > /tmp/seed_$ID.patch
[ -s /tmp/seed_$ID.patch ] || { echo "$ID: no source change"; exit 1; }
echo "== $ID: build with change"; CARGO_TARGET_DIR=$T cargo build --offline 2>&1 | grep -E "^error" -A5 | head -20
echo "== demo with change"; ( ./demo.sh > /tmp/seed_$ID.demo_with.log 2>&1 ); WITH=$?
echo "== suite with change"; CARGO_TARGET_DIR=$T cargo test --workspace --no-fail-fast --offline > /tmp/seed_$ID.suite.log 2>&1
python3 - "$ID" <<'PY'
import json,sys,re
ID=sys.argv[1]
b=json.load(open('/root/.vp/BASELINE.json')); stable=set(b['stable_pass'])
failed=[re.sub(r' - should panic','',l.split(' ... ')[0][5:]).strip() for l in open(f'/tmp/seed_{ID}.suite.log') if l.startswith('test ') and l.rstrip().endswith('FAILED')]
passed=sum(1 for l in open(f'/tmp/seed_{ID}.suite.log') if l.startswith('test ') and l.rstrip().endswith('ok'))
bad=[f for f in failed if any(s.endswith('::'+f) for s in stable)]
print(f"suite: {passed} passed, {len(failed)} failed; stable tests broken: {bad}")
open(f'/tmp/seed_{ID}.suite.verdict','w').write(json.dumps({"passed":passed,"failed":len(failed),"stable_broken":bad}))
PY
git apply -R /tmp/seed_$ID.patch || { echo 'cannot reverse patch'; exit 2; }
echo "== build without change"; CARGO_TARGET_DIR=$T cargo build --offline 2>&1 | grep -E "^error" -A5 | head
( ./demo.sh > /tmp/seed_$ID.demo_without.log 2>&1 ); WITHOUT=$?
git apply /tmp/seed_$ID.patch
echo "demo exit with change: $WITH ; without: $WITHOUT"
OK=$(python3 -c "import json;v=json.load(open('/tmp/seed_$ID.suite.verdict'));print(int(not v['stable_broken'] and v['passed']>=492))")
if [ "$WITH" -ne 0 ] && [ "$WITHOUT" -eq 0 ] && [ "$OK" = "1" ]; then
  D=/verif/seeded/$ID; mkdir -p $D
  cp /tmp/seed_$ID.patch $D/patch.diff; cp demo.sh DEMO.md $D/ 2>/dev/null; [ -f tests/demo_$ID.rs ] && cp tests/demo_$ID.rs $D/
  python3 - "$ID" "$WITH" "$WITHOUT" "$PROP" <<'PY'
import json,sys
ID,w,wo,PROP=sys.argv[1:5]
v=json.load(open(f'/tmp/seed_{ID}.suite.verdict'))
prop=[json.loads(l) for l in open('/verif/properties.jsonl') if json.loads(l)['id']==PROP][0]
demo=open(f'/tmp/seed/{ID}/DEMO.md').read()
meta={"id":ID,"property":PROP,"property_title":prop['title'],"origin":"independent sub-agent given only the property text and a scratch worktree",
 "needs_to_manifest":demo[:1500],
 "confirmed":{"compiles":True,"suite_passed":v['passed'],"suite_failed_baseline_always_fail":v['failed'],"stable_tests_broken":v['stable_broken'],"demo_exit_with_change":int(w),"demo_exit_without_change":int(wo),
   "what_was_run":"tools/verify_seed.sh: cargo build; ./demo.sh (with change); cargo test --workspace --no-fail-fast --offline compared with /root/.vp/BASELINE.json stable_pass; git apply -R; cargo build; ./demo.sh (without change)"},
 "checks_to_run":[PROP]}
json.dump(meta,open(f'/verif/seeded/{ID}/meta.json','w'),indent=1)
PY
  echo "$ID: CONFIRMED and stored in $D"
else
  echo "$ID: NOT CONFIRMED (with=$WITH without=$WITHOUT suite_ok=$OK)"
fi
