/* Seed seam for C19: every getrandom() answer is a splitmix64 stream of $VERIF_HASH_SEED.
 * std's RandomState draws its keys through this libc symbol, so equal seeds give equal hash-map
 * iteration orders and different seeds permute them.  Preloaded only by the C19 check. */
#define _GNU_SOURCE
#include <stdint.h>
#include <stdlib.h>
#include <sys/types.h>

static uint64_t state;
static int initialised;

static uint64_t next(void) {
    uint64_t z = (state += 0x9E3779B97F4A7C15ull);
    z = (z ^ (z >> 30)) * 0xBF58476D1CE4E5B9ull;
    z = (z ^ (z >> 27)) * 0x94D049BB133111EBull;
    return z ^ (z >> 31);
}

ssize_t getrandom(void *buf, size_t buflen, unsigned int flags) {
    (void)flags;
    if (!initialised) {
        const char *s = getenv("VERIF_HASH_SEED");
        state = s ? strtoull(s, 0, 10) * 0x2545F4914F6CDD1Dull + 1 : 1;
        initialised = 1;
    }
    unsigned char *p = buf;
    uint64_t cur = 0;
    for (size_t i = 0; i < buflen; i++) {
        if (i % 8 == 0) cur = next();
        p[i] = (unsigned char)(cur >> (8 * (i % 8)));
    }
    return (ssize_t)buflen;
}

int getentropy(void *buf, size_t buflen) {
    return getrandom(buf, buflen, 0) == (ssize_t)buflen ? 0 : -1;
}
