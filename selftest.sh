#!/bin/bash
# Detection self-test: apply each patch in mutants/ (or seeded/*/patch.diff) to /repo's working tree, run the
# owning check's quick tier, expect exit 1 with a VIOLATION line, and restore the tree.
# usage: ./selftest.sh [pattern]        results are appended to out/selftest.log
ROOT="$(cd "$(dirname "$0")" && pwd)"
PAT="${1:-}"
mkdir -p "$ROOT/out"
LOG="$ROOT/out/selftest.log"
trap 'git -C "${VERIF_REPO:-/repo}" checkout -- . 2>/dev/null' EXIT
if [ -n "$(git -C "${VERIF_REPO:-/repo}" status --porcelain --untracked-files=no)" ]; then echo "/repo has uncommitted changes; refusing"; exit 2; fi
for p in "$ROOT"/mutants/*.patch "$ROOT"/seeded/*/patch.diff; do
    [ -f "$p" ] || continue
    case "$p" in *"$PAT"*) ;; *) continue;; esac
    if [[ "$p" == */seeded/* ]]; then
        name="seeded/$(basename "$(dirname "$p")")"
        props=$(python3 -c "import json,sys; print(' '.join(json.load(open('$(dirname "$p")/meta.json')).get('checks_to_run', [json.load(open('$(dirname "$p")/meta.json'))['property']])))")
    else
        name="$(basename "$p" .patch)"
        props=$(sed -n 's/^# property: //p' "$p" | tr '/' ' ')
    fi
    if ! git -C "${VERIF_REPO:-/repo}" apply "$p" 2>/dev/null; then echo "$name: PATCH DOES NOT APPLY" | tee -a "$LOG"; continue; fi
    verdict="MISSED"
    for prop in $props; do
        out=$(cd "$ROOT" && timeout 900 ./check "$prop" quick 2>&1); code=$?
        nviol=$(echo "$out" | grep -c '^VIOLATION')
        if [ $code -eq 1 ] && [ "$nviol" -gt 0 ]; then verdict="DETECTED by $prop ($(echo "$out" | grep -m1 'signature:' | cut -c1-150))"; break; fi
        if [ $code -eq 2 ]; then verdict="MACHINERY-ERROR in $prop ($(echo "$out" | tail -1 | cut -c1-120))"; fi
    done
    git -C "${VERIF_REPO:-/repo}" checkout -- .
    echo "$(date +%H:%M:%S) $name: $verdict" | tee -a "$LOG"
done
