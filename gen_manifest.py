#!/usr/bin/env python3
"""Regenerates MANIFEST.json from the table below (keeps it valid at all times)."""
import json, subprocess
ALL = [f"C{i:02d}" for i in range(1, 21)]
MC = "model_checking"
checks = {
 "C02": dict(level=MC, ref="DESIGN.md §4 C02",
   text="Bounded-exhaustive exploration (E-DFS, deviations<=D) of statement bodies x intrinsic tables x scratch pools x valuations x difficulties; every emitted instruction stream is executed by an independent RawInstr machine (M1) and, re-raised, by AstVm, and compared with AstVm(source).",
   note="Trusts truth::vm::AstVm as source-level reference and the harness's M1 machine; valuations are a fixed boundary set.",
   technique="bounded exhaustive enumeration of programs/configurations against a reference machine (explicit-state, implementation-level)"),
 "C05": dict(level=MC, ref="DESIGN.md §4 C05",
   text="Same exhaustive body space as C02 run over every scratch-pool size; oracle: registers in emitted code that the generator did not write lie in the pool, behaviour is preserved for all mentioned/non-pool registers, compile outcome is monotone in pool size.",
   note="Register mentions are known from the generator (independent of truth's parser); AstVm + M1 trusted as in C02.",
   technique="bounded exhaustive enumeration of programs x scratch-pool sizes with register-set and differential (monotonicity) oracles"),
}
checks.update({
 "C06": dict(level=MC, ref="DESIGN.md §4 C06",
   text="Every nesting of the structured statements (if/else-if/else, while, do-while, times with/without clobber, loop, break, free blocks, relative time labels at block start/end/between) up to the stated deviation/depth bound is executed by AstVm before and after the real desugar_blocks pass, from 5 valuations and under both counting-jump flavours; logs, times and registers must agree.",
   note="AstVm trusted on both sides; non-decreasing time labels and non-negative loop counts only (AstVm artefacts otherwise, DESIGN §3.6).",
   technique="bounded exhaustive enumeration of structured programs; differential execution before/after the pass in the reference interpreter"),
 "C07": dict(level=MC, ref="DESIGN.md §4 C07",
   text="Every flat jump graph of <= k slots (8 jump kinds to every label position, time labels, interrupt labels, difficulty-tagged statements) and every bounded structured program is compiled, then decompiled twice by the real Raiser + postprocess_decompiled (blocks off/on); structural clauses (time-label sequence, timed gotos, label reference counts) are checked on the two texts and both are re-parsed and executed by AstVm from 5 valuations.",
   note="AstVm trusted; jumps into recovered blocks are run after desugar_blocks (C06 validates that pass).",
   technique="bounded exhaustive enumeration of jump graphs; differential execution of two decompilations plus structural invariants"),
 "C13": dict(level=MC, ref="DESIGN.md §4 C13",
   text="Compile: every sequence of <= n items over absolute/relative/const-expr/i32::MAX labels, markers and loop/if/times/free blocks is compiled and the time of every emitted marker, jump, jump time-argument and counter assignment is compared with the M3 label-arithmetic model. Decompile: every stored-time sequence over a boundary set (with jumps) is raised; M3 applied to the printed text must reproduce the stored times and recompiling must reproduce the instructions bit for bit.",
   note="M3 (harness model) and the harness's own instruction-table decoding are trusted.",
   technique="bounded exhaustive enumeration of label sequences and stored-time sequences against a label-arithmetic reference model"),
})
checks.update({
 "C11": dict(level=MC, ref="DESIGN.md §4 C11",
   text="Exhaustive product of every binary/unary operator, cast and constant ternary with boundary operand sets, pushed through the real front end + const_simplify + Lowerer; the emitted immediate is compared with the M6 reference evaluator; undefined constants must be diagnosed. Partially constant expressions (bounded E-DFS) are executed before/after const_simplify; named vs inline constants and all definition orders of a const chain must emit identical instructions.",
   note="M6 (i64 arithmetic + truncation, shifts mod 32, IEEE f32 as Rust implements it) trusted; && / || compared for truthiness only; AstVm for the partially-constant family.",
   technique="exhaustive enumeration of operator x operand-boundary products against a reference evaluator; bounded exhaustive differential execution"),
})
checks.update({
 "C09": dict(level=MC, ref="DESIGN.md §4 C09",
   text="E-DFS over an untyped statement/expression grammar (18 statement contexts x 9 nesting positions incl. nested free blocks, loop/if/else/times bodies) whose defaults are well-typed and whose every alternative of another type is one deviation, so all single-point mutations are covered; Ok/Err of the real type checker is compared with the M4 reference typer, and for accepted programs compute_ty of every subexpression is compared with the type of its AstVm value.",
   note="M4 (harness typer from the documented rules) trusted; AstVm::eval for value types.",
   technique="bounded exhaustive enumeration of programs and their single-point type mutations against a reference type checker"),
})
checks.update({
 "C12": dict(level=MC, ref="DESIGN.md §4 C12",
   text="Every instruction signature up to the stated length over the full letter/attribute alphabet (plus 16-20 parameter signatures, padding anywhere) is declared in a user mapfile; for each, every single boundary-value / register deviation of the argument list is compiled by the real ANM/MSG/timeline pipeline; the written blob, register mask and arg0 are compared with the M7 byte model, the binary is decompiled and the printed values and recompiled bytes compared; out-of-range values, bad strings and misplaced registers must be diagnosed; invalid signatures must be rejected; intrinsic bindings with padding at every position must place operands where the signature dictates.",
   note="M7 (harness encoder model) and the harness's own ANM/MSG/timeline readers trusted; values that fit only under the other signedness are compared modulo 2^(8w) (signedness is display-only).",
   technique="bounded exhaustive enumeration of signatures x argument lists against an independent encoder/decoder model, with decompile/recompile round trip"),
 "C15": dict(level=MC, ref="DESIGN.md §4 C15",
   text="Every Shift-JIS round-trippable character (7,517 incl. all JIS X 0208) at every block position, every length 0..300 around block/buffer boundaries, all pairs of special characters, furigana sequences and unencodable probes, under 17 user string encodings and the built-in text instructions of all 18 MSG games, END, STD/ANM/mission metadata; compiled and decompiled by the real pipeline; decompiled literal compared character for character and emitted bytes compared with an independent byte model; unencodable/oversize input must be an error.",
   note="encoding_rs (also a dependency of truth) trusted for Shift-JIS; harness string-literal scanner and byte model trusted.",
   technique="exhaustive enumeration of the character repertoire x string shapes x encodings with round-trip and byte-model oracles"),
 "C17": dict(level=MC, ref="DESIGN.md §4 C17",
   text="All 65,536 RGB565 and ARGB4444 values, all 256 GRAY8 values and ARGB8888 channel sweeps are embedded in hand-assembled ANM files, extracted to PNG by the real CLI and re-imported; texture dimensions x offsets grids, every ordering of up to 3 image sources (ANM files / directories / pragmas) with overlapping paths, duplicate-path layouts and verbatim copies from ANM sources are enumerated; the output THTX bytes are read by the harness's own reader and compared with the expectation.",
   note="Harness ANM writer/reader trusted; the real CLI runs as a subprocess on real files.",
   technique="exhaustive pixel-value enumeration and bounded exhaustive enumeration of source orderings / sizes / offsets through the real CLI"),
})
checks.update({
 "C10": dict(level=MC, ref="DESIGN.md §4 C10",
   text="Every scope tree up to the stated size over uses, locals (with initialisers), consts, blocks, ifs, loops and functions with parameters, with identifiers drawn from a 3-name pool that includes a register alias, is resolved by the real resolve_names; Ok/Err and the def-equivalence classes of all identifier occurrences are compared with the M5 scope model; for function-free programs the injectively renamed program must compile to identical instructions.",
   note="M5 (harness scope model) trusted; cases the statement leaves open (same-block local/const clash, parameter redeclared in the function's top block, circular consts) are only required not to crash.",
   technique="bounded exhaustive enumeration of scope trees against a reference scope model, plus differential compilation under renaming"),
})
checks.update({
 "C14": dict(level=MC, ref="DESIGN.md §4 C14",
   text="(a) exhaustive: all 256 mask bytes under every flag-definition set (8 naming schemes incl. ambiguous ones x default-on subsets) are raised to label text, each printed label is parsed by the M8 label model, and the text is recompiled to the same mask; (b) switch statements of length 2-8 with every hole pattern under 12 labels and 6 default-on sets are lowered and, per difficulty, exactly one emitted copy must apply with that difficulty's values and the label's aux bits; mismatched lengths must be rejected; (c) hand-built runs of 2-4 instructions over a mask set are raised with switch recognition on/off and recompiled to identical instructions.",
   note="M8 (harness model of the label grammar and of case selection) trusted; flag sets that give one name to two bits can only be satisfied by rejection.",
   technique="exhaustive enumeration of masks x flag configurations and bounded exhaustive enumeration of switch shapes against a reference model"),
})
checks.update({
 "C19": dict(level="exploration", ref="DESIGN.md §4 C19",
   text="The process's only nondeterministic input, the hash seed drawn from getrandom(), is owned through an LD_PRELOAD seam; every command of a corpus that emphasises competing diagnostics (plus ordinary compile/decompile of every tool) is run as a fresh real-CLI subprocess under every seed of the grid, and exit status, stdout, stderr and output file must be byte-identical; the same seed is run twice per input to show the seam owns the variation, and a side probe reports how many iteration orders of a 3-key map the seeds realise.",
   note="Assumes getrandom/getentropy is the only source of run-to-run variation; seeds are a proxy for hash-map iteration orders (exhaustive over the listed (input, seed) grid, not over all orders).",
   technique="exhaustive enumeration of an (input x environment-answer) grid with the nondeterministic input (hash seed) under harness control"),
})
checks.update({
 "C01": dict(level=MC, ref="DESIGN.md §4 C01",
   text="Every generated program (flat jump graphs, structured blocks, expression bodies, plain instruction/label/string sequences; bounded E-DFS) is compiled for 11 host formats (ANM v0/v2/v8, old ECL th06/07/08, STD 06/12, MSG 06/09/12) with a user mapfile of aliases; every distinct binary and every bundled game file is decompiled under every enumerated subset of the five --no-* flags x formatter widths x {aliases, signatures-only, no} user mapfile, recompiled with the original as image source, and must be byte-identical unless decompile printed a listed information-loss warning.",
   note="In-process drivers mirror cli_def; runs whose decompile prints a loss warning are exempt and counted; one recorded known finding (conditional jump on two literals).",
   technique="bounded exhaustive enumeration of programs x configurations with a byte-identity round-trip oracle on the real compiler/decompiler"),
})
checks.update({
 "C03": dict(level=MC, ref="DESIGN.md §4 C03",
   text="For 15-17 format classes a complete valid base file is rendered and every on-disk field (instruction time/opcode/sizes/masks/arg0, sub-dword arguments, blob and string lengths, header fields, counts realised by generating that many items, ids, fixed strings) deviates one at a time (pairs in thorough) over a boundary set derived from its stored width; on success truth must re-read the file and every explicitly set field, read back through the independent M2 walkers, must equal the request; on failure an error diagnostic is required.",
   note="M2 walkers trusted; a w-bit field is taken to hold [-2^(w-1), 2^w-1] modulo 2^w (signedness is display-only); fields with no slot in a format are reported as coverage, not violations.",
   technique="bounded exhaustive enumeration of field x boundary-value deviations with read-back through an independent binary walker"),
 "C04": dict(level="fault_enumeration", ref="DESIGN.md §4 C04",
   text="30 valid seed sources across all tools/games and every single-token edit (delete/duplicate/swap/replace by interesting tokens), single-byte edit and truncation of them, extreme literals, nesting of every recursive construct to depth 256 (worker subprocesses with the CLI's 8 MiB stack), mapfile texts (all short signature strings, attribute edge cases, intrinsic strings, flag strings, enum sections) and later-stage faults alone and in pairs are compiled by the real pipeline; oracle: terminates, no panic/abort/stack overflow/memory blow-up, failure iff an error-severity diagnostic was rendered.",
   note="Dev-profile semantics (overflow checks, debug assertions) define a panic; nesting beyond 256 is recorded as information only.",
   technique="exhaustive fault enumeration (edit-distance-1 ball around seeds plus generated families) with worker-subprocess isolation"),
 "C08": dict(level=MC, ref="DESIGN.md §4 C08",
   text="(P) every generated text over the statement/expression/meta grammar (all operator pairs in both groupings, nested prefix operators, switches with holes, literals of every radix/class, escapes, calls with 0-12 arguments, metas 1-4 deep; bounded E-DFS) is parsed, printed at every width of the tier, re-parsed and compared by a canonical AST walk, and re-printed for idempotence; (D) decompiler ASTs for arbitrary argument bit patterns (via @blob and user signatures) are printed at every width, must parse to the same AST and recompile to the same bytes.",
   note="Canonical AST comparison (harness) ignores spans/ids/display formats and folds unary minus on literals; two recorded known findings (NaN payloads, line break inside a label with a call).",
   technique="bounded exhaustive enumeration of ASTs x widths with a parse/print round-trip oracle"),
 "C16": dict(level="fault_enumeration", ref="DESIGN.md §4 C16",
   text="55 seed binaries (compiler outputs for every format/game class and all bundled files) x truncation at every offset x every offset with 7 byte values x 13 boundary values on every field M2 identifies (header fields, table slots, instruction headers, argument dwords) x whole-table fills (thorough: all 256 byte values on small seeds, pairs of field faults, all option sets) are read, decompiled under several option sets and (ANM) extracted in worker subprocesses under an address-space limit; oracle: terminates, no panic/abort/timeout/memory blow-up, failure only with an error diagnostic naming the file.",
   note="Worker isolation with replay-twice rule; CPU time rather than wall time decides 'slow'; known findings recorded for extraction errors that name the output image and for the uncapped output-image allocation.",
   technique="exhaustive fault enumeration over compiler outputs and bundled files with worker-subprocess isolation"),
 "C18": dict(level=MC, ref="DESIGN.md §4 C18",
   text="Programs with varying instruction sizes, difficulty-replicated instructions, locals with sentinel initialisers in nested scopes, labels and time labels in every slot of 23+ skeletons, multi-script layouts and const sets (bounded E-DFS) are compiled with debug info for ANM, ECL, MSG and STD; every instruction offset, end offset, label offset and time (M3), local register (located via its sentinel in the written file) and const value (M6) in the JSON is compared with the binary as parsed by M2; a prefix of cases is also run through the real CLI and the JSON compared.",
   note="M2/M3/M6 trusted; conventions pinned down in the evidence assumptions (offsets relative to the script's first instruction, end offset excludes the terminal).",
   technique="bounded exhaustive enumeration of programs with cross-checking of the debug-info document against an independent parse of the written binary"),
 "C20": dict(level=MC, ref="DESIGN.md §4 C20",
   text="File layouts for ANM (1-3 entries x 0-3 sprites with 9 id patterns, names reused across entries, 1-3 scripts, 13 kinds of use site), MSG (tables with holes/defaults/shared scripts/table_len, all script orders), old ECL (1-4 subs, 0-3 timelines with every index pattern, 11 kinds of use site) and STD (objects x instances in every order) are enumerated; every id, argument dword, table offset and index in the written file (M2) is compared with the M9 id model; conflicting or dangling names must be errors.",
   note="M9 (harness model from the property text) and M2 trusted; cases the documentation leaves open (which of several same-named sprites a reference means, negative ids, ...) are classified unspecified and only required not to crash.",
   technique="bounded exhaustive enumeration of file layouts against a reference id model read back through an independent binary walker"),
})
# families added in session 3 (appended to the claims above)
ADD = {
 "C01": "Session 3: one host per (tool, game) pair truth supports (reduced program set), EoSD two-part compares under difficulty labels, raw spellings of every built-in intrinsic with every register/literal operand choice, ANM files whose entries share a path; three recorded known findings. Wide instructions (8 and 9 operands, eight register/literal patterns incl. a mask of exactly 0xFF) with and without their signatures.",
 "C02": "Clock comparison is suspended only from the first jump taken after an off-label timed jump (AstVm artefact); a negated float comparison with a NaN operand is a recorded known finding.",
 "C03": "Session 3: D=2 field pairs in the quick tier (full boundary sets in thorough); a CLI family compares the bytes the real command line leaves on disk over fresh / occupied output paths with the in-memory bytes; '@' runtime-texture paths with and without image data.",
 "C04": "Session 3: byte-level edits and section-header enumeration of mapfiles, builtin-enum redefinitions, a TH10 ECL template, and every seed of a tool compiled for every game of that tool (+ token deletions).",
 "C05": "Session 3: per-game register facts for all 24 register-language games (general-purpose lists by type, exhaustion at |GP|+1 live locals, the scratch-forbidding opcode in 7 layouts with its documented scope).",
 "C06": "Session 3: user gotos out of any nesting to an end label and && conditions.",
 "C07": "Session 3: loop-shaped jump graphs (2-3 backward conditional jumps + 1-2 forward jumps, full product). Loop-shaped graphs over stored times that rise and then drop (absolute time labels in the decompiled text): both texts are lowered again and M1 runs them against the original stream.",
 "C09": "Session 3: declared parameter types through the real TH07/TH08 ECL pipelines (every parameter list <= 3 over int/float x named/unnamed, 6 typed uses, every call of arity n-1..n+1).",
 "C10": "Session 3: file-level names (sprites, scripts, consts, subs, MSG scripts) spelled like register aliases, instruction aliases, enum consts and builtin consts, each compared with its fresh renaming. A function body is an inner scope of its parameter list (body-level locals and consts shadow a parameter).",
 "C11": "Session 3: NaN among the float operands.",
 "C13": "Session 3: nested function definitions and const items between the labelled statements. The real-format family covers old-ECL timeline scripts and continues bytes -> decompile -> recompile -> stored times (M2).",
 "C14": "Session 3: nested labelled blocks (12 outer x 9 inner labels incl. three spellings of the full mask, 1-3 levels). Switches in assignments with compound cases (one assignment per explicit case), run by M1 on every difficulty under every label.",
 "C15": "Session 3: the {zero, non-zero}^3 grid of (mask, velocity, acceleration).",
 "C16": "Session 3: one compiled seed for every (tool, game) pair.",
 "C18": "Session 3: ANM scripts with explicit numbers different from their position (3 numbering variants). Sub parameter lists with unnamed parameters in front of named ones.",
 "C20": "Session 3: sprite-and-script names with different numbers must be rejected; TH06 call opcode re-declared by the user mapfile with the sub id in the 2nd or 3rd slot (call sugar and raw spelling).",
 "C19": "Session 3: the --output-debug-info file is compared per seed, every bundled file is decompiled under every seed, inputs for unknown / similar enum names and for conflicting call signatures in old ECL. Mapfiles that declare the same opcodes in both languages of old-format ECL.",
}
for k, v in ADD.items(): checks[k]["text"] += " " + v
pending = {}
def main():
    try:
        hook_commits = subprocess.run(["git","-C","/repo","log","--format=%H","--grep=^verif hooks"],capture_output=True,text=True).stdout.split()
    except Exception:
        hook_commits = []
    m = {
      "version": 1,
      "setup_cmd": "./setup.sh",
      "hooks": {
        "guard": "truth_verif",
        "enable": "RUSTFLAGS=--cfg truth_verif via /verif/harness/.cargo/config.toml ([build] rustflags); the harness crate depends on truth by path (/repo), so every ./check rebuilds from /repo's working tree",
        "baseline_off_cmd": "cd /repo && cargo test --workspace --no-fail-fast --offline",
        "source_commits": hook_commits,
        "add_only": True,
      },
      "engines": [{"name":"truth-verif","path":"harness/","serves_properties":sorted(checks),"kind_free_text":"hand-rolled deviation-bounded DFS / BFS explorers over generated programs, files, faults and configurations, driving the real truth code in-process with Rust reference models as oracles"}],
      "checks": [],
      "not_applicable": [],
      "notes": "exit 0 = held on everything explored, 1 = VIOLATION, 2 = machinery trouble. known_findings.jsonl lists recorded/fixed genuine defects.",
    }
    for pid in ALL:
        if pid in checks:
            c = checks[pid]
            m["checks"].append({
              "property_id": pid,
              "quick_cmd": f"./check {pid} quick",
              "thorough_cmd": f"./check {pid} thorough",
              "evidence_file": f"/verif/evidence/{pid}.json",
              "replay_cmd_template": f"./check {pid} --replay {{path}}",
              "engine": "truth-verif",
              "level_claimed": {"category": c["level"], "text": c["text"], "design_ref": c["ref"]},
              "level_note": c["note"],
              "technique": c["technique"],
            })
        else:
            m["not_applicable"].append({"property_id": pid, "reason": pending.get(pid, "check not built yet (construction in progress; see DESIGN.md Appendix B) - not a claim that the technique cannot apply")})
    json.dump(m, open("/verif/MANIFEST.json","w"), indent=1)
    print("wrote MANIFEST.json with", len(m["checks"]), "checks")
if __name__ == "__main__":
    main()
