#!/usr/bin/env python3
"""Regenerates MANIFEST.json from the table below (keeps it valid at all times)."""
import json, subprocess
ALL = [f"C{i:02d}" for i in range(1, 21)]
MC = "model_checking"
checks = {
 "C02": dict(level=MC, ref="DESIGN.md §4 C02",
   text="Bounded-exhaustive exploration (E-DFS, deviations<=D) of statement bodies x intrinsic tables x scratch pools x valuations x difficulties; every emitted instruction stream is executed by an independent RawInstr machine (M1) and, re-raised, by AstVm, and compared with AstVm(source).",
   note="Trusts truth::vm::AstVm as source-level reference and the harness's M1 machine; valuations are a fixed boundary set.",
   technique="bounded exhaustive enumeration of programs/configurations against a reference machine (explicit-state, implementation-level)"),
 "C05": dict(level=MC, ref="DESIGN.md §4 C05",
   text="Same exhaustive body space as C02 run over every scratch-pool size; oracle: registers in emitted code that the generator did not write lie in the pool, behaviour is preserved for all mentioned/non-pool registers, compile outcome is monotone in pool size.",
   note="Register mentions are known from the generator (independent of truth's parser); AstVm + M1 trusted as in C02.",
   technique="bounded exhaustive enumeration of programs x scratch-pool sizes with register-set and differential (monotonicity) oracles"),
}
pending = {}
def main():
    try:
        hook_commits = subprocess.run(["git","-C","/repo","log","--format=%H","--grep=^verif hooks"],capture_output=True,text=True).stdout.split()
    except Exception:
        hook_commits = []
    m = {
      "version": 1,
      "setup_cmd": "./setup.sh",
      "hooks": {
        "guard": "truth_verif",
        "enable": "RUSTFLAGS=--cfg truth_verif via /verif/harness/.cargo/config.toml ([build] rustflags); the harness crate depends on truth by path (/repo), so every ./check rebuilds from /repo's working tree",
        "baseline_off_cmd": "cd /repo && cargo test --workspace --no-fail-fast --offline",
        "source_commits": hook_commits,
        "add_only": True,
      },
      "engines": [{"name":"truth-verif","path":"harness/","serves_properties":sorted(checks),"kind_free_text":"hand-rolled deviation-bounded DFS / BFS explorers over generated programs, files, faults and configurations, driving the real truth code in-process with Rust reference models as oracles"}],
      "checks": [],
      "not_applicable": [],
      "notes": "exit 0 = held on everything explored, 1 = VIOLATION, 2 = machinery trouble. known_findings.jsonl lists recorded/fixed genuine defects.",
    }
    for pid in ALL:
        if pid in checks:
            c = checks[pid]
            m["checks"].append({
              "property_id": pid,
              "quick_cmd": f"./check {pid} quick",
              "thorough_cmd": f"./check {pid} thorough",
              "evidence_file": f"/verif/evidence/{pid}.json",
              "replay_cmd_template": f"./check {pid} --replay {{path}}",
              "engine": "truth-verif",
              "level_claimed": {"category": c["level"], "text": c["text"], "design_ref": c["ref"]},
              "level_note": c["note"],
              "technique": c["technique"],
            })
        else:
            m["not_applicable"].append({"property_id": pid, "reason": pending.get(pid, "check not built yet (construction in progress; see DESIGN.md Appendix B) - not a claim that the technique cannot apply")})
    json.dump(m, open("/verif/MANIFEST.json","w"), indent=1)
    print("wrote MANIFEST.json with", len(m["checks"]), "checks")
if __name__ == "__main__":
    main()
