//! C16 — any binary input ends in success or a diagnostic, never a crash (fault enumeration).
//!
//! Seeds (small compiler outputs per format x game class + the repository's bundled binaries) are
//! subjected to an explicitly enumerated fault space: truncation at every offset, every offset x
//! {00,01,7F,80,FF,b^01,b^80}, field-targeted values for every field the independent M2 walkers
//! identify (plus instruction header fields / argument dwords derived from the walkers' instruction
//! lists), string-field faults, and (thorough) pairs of field faults and all 256 values per offset on
//! the smallest seeds.  Every faulted input is read + decompiled by the real truth code under several
//! decompile option sets and (ANM) image-extracted.
//!
//! The real code runs in WORKER SUBPROCESSES (this same binary, `run C16 <tier>` with the environment
//! variable `VERIF_C16_WORKER=1`, address space limited with `ulimit -v`) so that allocation aborts,
//! stack overflows and hangs are observed as worker deaths / timeouts and attributed to the in-flight
//! case, re-run once in a fresh worker to confirm (replay-twice rule).

use std::collections::{BTreeMap, HashMap, VecDeque};
use std::hash::Hasher;
use std::io::{BufRead, BufReader, Cursor, Write};
use std::path::{Path, PathBuf};
use std::process::{Child, ChildStdin, Command, Stdio};
use std::sync::atomic::{AtomicUsize, Ordering};
use std::sync::{mpsc, Mutex};
use std::time::{Duration, Instant};

use serde_json::{json, Value};
use truth::io::BinReader;
use truth::Game;

use crate::common::{catch, n_threads, Panic, Report};
use crate::drive::{self, CompileOpts, DecompOpts, Kind, Tool};
use crate::m2::{self, Instr, InstrLayout};

const WORKER_ENV: &str = "VERIF_C16_WORKER";
const SCRATCH_ENV: &str = "VERIF_C16_SCRATCH";
const MARK: &str = "@C16 ";
/// address-space limit of a worker, KiB (8 GiB)
const ULIMIT_V_KIB: u64 = 8 << 20;
/// a worker that does not answer for this long is killed and the in-flight case recorded as a timeout
const ANSWER_TIMEOUT: Duration = Duration::from_secs(20);
/// a single run that takes longer than this on an input < 4 KiB is "slow" (after confirmation)
const SLOW_MS: u64 = 5000;
/// peak RSS of a worker above this after a case is a "memory" violation (after confirmation)
const RSS_LIMIT_MB: u64 = 1024;
const BATCH: usize = 32;
/// The property wants a failing run to name "the file".  Image extraction reports per-image problems
/// ("skipping '<out>/x.png': cannot transcode ...", "while writing '<out>/x.png': ...") naming the OUTPUT
/// image path, not the ANM file.  Strict reading (false): that is a violation `error-not-naming-file`.
const EXTRACT_OUTPUT_PATH_COUNTS_AS_NAMING: bool = false;

// run kinds (bits of a case's run mask)
const RUN_DEFAULT: u8 = 1;
const RUN_NO_BLOCKS: u8 = 2;
const RUN_NO_ARGS: u8 = 4;
const RUN_ALL_OFF: u8 = 8;
const RUN_EXTRACT: u8 = 16;
const RUNS: [(u8, &str, Option<u32>); 5] = [
    (RUN_DEFAULT, "default", Some(0)),
    (RUN_NO_BLOCKS, "no-blocks", Some(1)),
    (RUN_NO_ARGS, "no-arguments", Some(4)),
    (RUN_ALL_OFF, "all-off", Some(31)),
    (RUN_EXTRACT, "extract", None),
];
fn run_label(bit: u8) -> &'static str { RUNS.iter().find(|r| r.0 == bit).map(|r| r.1).unwrap_or("?") }
fn run_bit_of(label: &str) -> Option<u8> { RUNS.iter().find(|r| r.1 == label).map(|r| r.0) }

// =============================================================================================
// seeds

pub struct Seed {
    pub name: String,
    pub kind: Kind,
    pub game: Game,
    pub bytes: Vec<u8>,
    pub compiled: bool,
}

impl Seed {
    fn display(&self) -> String { if self.compiled { format!("{}.bin", self.name) } else { self.name.clone() } }
    fn fmt(&self) -> &'static str { fmt_name(self.kind) }
    fn all_runs(&self) -> u8 {
        let mut m = RUN_DEFAULT | RUN_NO_BLOCKS | RUN_NO_ARGS | RUN_ALL_OFF;
        if self.kind == Kind::Mission { m = RUN_DEFAULT; } // mission decompilation takes no options
        if self.kind == Kind::Anm { m |= RUN_EXTRACT; }
        m
    }
}

fn fmt_name(kind: Kind) -> &'static str {
    match kind { Kind::Anm => "anm", Kind::Std => "std", Kind::Msg => "msg", Kind::End => "end", Kind::Mission => "mission", Kind::Ecl => "ecl" }
}

fn g(s: &str) -> Game { s.parse::<Game>().expect("game") }

fn anm_src(game: Game, thtx: bool) -> String {
    let old = m2::anm_has_old_header(game);
    let entry0 = format!(r#"
entry {{
    path: "subdir/file.png",
    has_data: {},
    img_width: 8, img_height: 4, img_format: 3,
    memory_priority: 10,
    {}
    sprites: {{
        sprite0: {{id: 0, x: 0.0, y: 0.0, w: 8.0, h: 4.0}},
        sprite1: {{id: 7, x: 1.0, y: 2.0, w: 3.0, h: 2.0}},
    }},
}}
"#, if thtx { "\"dummy\"" } else { "false" },
        if old { "path_2: \"subdir/file_a.png\", colorkey: 0x11223344," } else { "offset_x: 3, offset_y: 1, low_res_scale: true," });
    let scripts0 = if game == Game::Th06 { r#"
script 5 script0 {
    ins_1(@blob="01000000");
    loop {
10:
        ins_2(1.0, 2.0);
    }
}
script script1 {
    ins_3(@blob="ff000000");
interrupt[3]:
    ins_0();
}
"# } else { r#"
script 5 script0 {
    FIRST
    $REG[10000] = 2;
    loop {
10:
        ins_0();
        if ($REG[10000] == 0) break;
        $REG[10000] = $REG[10000] - 1;
    }
}
script script1 {
    ins_0();
interrupt[3]:
-5:
    ins_1();
}
"# };
    let entry1 = r#"
entry {
    path: "b.png",
    has_data: false,
    img_width: 16, img_height: 16, img_format: 3,
    memory_priority: 0,
    sprites: { sprite8: {x: 0.0, y: 0.0, w: 16.0, h: 16.0} },
}
"#;
    let scripts1 = if game == Game::Th06 { "script script2 {\n    ins_15();\n}\n" } else { "script -3 script2 {\n20:\n    ins_1();\n}\n" };
    let scripts0 = scripts0.replace("FIRST", if game >= Game::Th13 { "ins_6(@blob=\"01000000\");" } else { "ins_3(@blob=\"01000000\");" });
    // (a TH06 file whose non-final entry has no THTX cannot be read back by truth: its last script has no end bound)
    if game == Game::Th06 && !thtx { return format!("{entry0}{scripts0}"); }
    format!("{entry0}{scripts0}{entry1}{scripts1}")
}

fn std_src(game: Game) -> String {
    let old = m2::std_is_06_format(game);
    let head = if old {
        r#"meta {
    unknown: 7,
    stage_name: "dm",
    bgm: [
        {path: "bgm/th08_08.mid", name: "dm"},
        {path: "bgm/th08_09.mid", name: "dn"},
        {path: " ", name: " "},
        {path: " ", name: "x"},
    ],"#
    } else { "meta {\n    unknown: 7,\n    anm_path: \"stage01.anm\"," };
    let quad2 = if matches!(game, Game::Th08 | Game::Th09) { "strip {anm_script: 5, start: [1.0, 2.0, 3.0], end: [4.0, 5.0, 6.0], width: 7.0}," }
        else { "rect {anm_script: 5, pos: [1.0, 2.0, 3.0], size: [4.0, 5.0]}," };
    let objects = format!(r#"
    objects: {{
        thing: {{
            layer: 4,
            pos: [10.0, 20.0, 30.0],
            size: [11.0, 21.0, 31.0],
            quads: [
                rect {{anm_script: 3, pos: [1.0, 2.0, 3.0], size: [4.0, 5.0]}},
                {quad2}
            ],
        }},
        empty: {{ layer: 0, pos: [0.0, 0.0, 0.0], size: [0.0, 0.0, 0.0], quads: [] }},
    }},
    instances: [
        empty {{pos: [1.0, 2.0, 3.0]}},
        thing {{unknown: 5, pos: [4.0, 5.0, 6.0]}},
    ],
}}
"#);
    let script = if game == Game::Th06 {
        "script main {\n    ins_0(1.0, 2.0, 3.0);\n10:\n    ins_3(@blob=\"01000000 02000000 03000000\");\n30:\n    ins_2(1.0, 2.0, 3.0);\n}\n"
    } else if old {
        "script main {\n    ins_0(1.0, 2.0, 3.0);\n    loop {\n10:\n        ins_2(@blob=\"01000000 00000000 00000000\");\n+20:\n    }\n}\n"
    } else {
        "script main {\n    ins_2(1.0, 2.0, 3.0);\n    loop {\n10:\n        ins_3(@blob=\"01000000 02000000 03000000 04000000 05000000\");\n+20:\n        ins_0();\n    }\n}\n"
    };
    format!("{head}{objects}{script}")
}

fn msg_src(game: Game) -> String {
    let fl = m2::msg_table_has_flags(game);
    let table = format!(r#"
meta {{
    table: {{
        0: {{script: "script0"{}}},
        1: {{script: "other"{}}},
        3: {{script: "script0"}},
        {}
    }}
}}
"#, if fl { ", flags: 256" } else { "" }, if fl { ", flags: 3" } else { "" }, if fl { "default: {script: \"other\"}," } else { "" });
    let body = match game {
        Game::Th06 => r#"
script script0 {
    ins_1(1, 2);
10:
    ins_3(0, 1, "abc");
    ins_4(60);
}
script other {
    ins_0();
    ins_8(1, 0, "defgh");
5:
    ins_13(true);
}
"#,
        Game::Th09 => r#"
script script0 {
    ins_1(1);
10:
    ins_3(0, 1, "abc");
    ins_4(60);
}
script other {
    ins_0();
    ins_16("defgh");
5:
    ins_15(1, 2, 3);
}
"#,
        _ => r#"
script script0 {
    ins_10(60);
10:
    ins_15("abc");
    ins_16("de|0,3,fg");
}
script other {
    ins_0();
    ins_17("defgh");
5:
    ins_27(1.5);
}
"#,
    };
    format!("{table}{body}")
}

const END_SRC: &str = r#"
meta {
    table: {
        0: {script: "main"},
    }
}
script main {
    ins_5(60);
10:
    ins_3("abc");
    ins_7(2, "e01.png");
    ins_9(0xff8040c0);
    ins_0();
}
"#;

const MISSION_095: &str = r#"
entry { stage: 1, scene: 2, face: 3, point: 4, text: ["abc", "", "line three"] }
entry { stage: 10, scene: 6, face: 0, point: 1234567, text: ["x", "y", "z"] }
"#;
const MISSION_125: &str = r#"
entry { stage: 1, scene: 2, player: 1, unknown_1: 7, unknown_2: 9, point_1: 3, point_2: 4,
        furigana: [[1, 2], [3, 4], [5, 6]], text: ["abc", "", "line three", "d", "e", "f"] }
entry { stage: 10, scene: 6, player: 0, unknown_1: 0, unknown_2: 0, point_1: 0, point_2: 1234567,
        furigana: [[0, 0], [0, 0], [0, 0]], text: ["x", "y", "z", "", "", ""] }
"#;

fn ecl_src(game: Game) -> String {
    let tl0 = match game {
        Game::Th06 => "script timeline0 {\n    ins_0(@arg0=1, @blob=\"00000000 0000803f 00000040 04000300 02000000\");\n10:\n    ins_10(@arg0=0, @blob=\"01000000 02000000\");\n}\n",
        Game::Th07 => "script timeline0 {\n    ins_0(@arg0=1, @blob=\"00000000 0000803f 00000040 04000000 03000000 02000000\");\n10:\n    ins_10(@arg0=0, @blob=\"01000000 02000000\");\n}\n",
        _ => "script timeline0 {\n    ins_0(@blob=\"01000000 0000803f 00000040 04000000 03000000 02000000\");\n10:\n    ins_10(@blob=\"01000000\");\n}\n",
    };
    let tl1 = match game {
        Game::Th07 => "script timeline1 {\n7:\n    ins_10(@arg0=4, @blob=\"01000000 02000000\");\n}\n",
        _ => "script timeline1 {\n7:\n    ins_10(@blob=\"01000000\");\n}\n",
    };
    let (reg, nop, call) = match game {
        Game::Th06 => ("$REG[-10001]", "ins_1(@blob=\"00000000\");", "ins_35(sub1, 3, 1.5);"),
        Game::Th07 => ("$REG[10000]", "ins_1();", "ins_41(sub1);"),
        _ => ("$REG[10000]", "ins_1();", "ins_52(sub1);"),
    };
    let subs = format!(r#"
void sub0() {{
    {reg} = 3;
top:
5:
    {nop}
    {reg} = {reg} - 1;
    if ({reg} != 0) goto top;
    {call}
}}
void sub1() {{
20:
    ins_0();
}}
"#);
    let mut s = String::from(tl0);
    if game != Game::Th06 { s += tl1; }
    s += &subs;
    s
}

const ECL10_SRC: &str = r#"
meta {
    ecli: [],
    anim: [],
}
void main() {
    ins_10();
}
"#;

/// (name, kind, game, source, required)
fn compiled_seed_sources() -> Vec<(String, Kind, Game, String, bool)> {
    let mut v = vec![];
    for gm in ["th06", "th07", "th12", "th17"] {
        v.push((format!("c-anm-{gm}"), Kind::Anm, g(gm), anm_src(g(gm), false), true));
        v.push((format!("c-anm-{gm}-thtx"), Kind::Anm, g(gm), anm_src(g(gm), true), true));
    }
    for gm in ["th06", "th08", "th12"] { v.push((format!("c-std-{gm}"), Kind::Std, g(gm), std_src(g(gm)), true)); }
    for gm in ["th06", "th09", "th12"] { v.push((format!("c-msg-{gm}"), Kind::Msg, g(gm), msg_src(g(gm)), true)); }
    v.push(("c-end-th10".into(), Kind::End, g("th10"), END_SRC.to_string(), false));
    v.push(("c-mission-th095".into(), Kind::Mission, g("th095"), MISSION_095.to_string(), true));
    v.push(("c-mission-th125".into(), Kind::Mission, g("th125"), MISSION_125.to_string(), true));
    for gm in ["th06", "th07", "th08", "th095"] { v.push((format!("c-ecl-{gm}"), Kind::Ecl, g(gm), ecl_src(g(gm)), true)); }
    // minimal old-format ECL files without any timeline (TH07+: the timeline table then holds only the end-of-file entry)
    for gm in ["th07", "th08", "th095"] { v.push((format!("c-ecl-{gm}-min"), Kind::Ecl, g(gm), "void sub0() {\n    ins_0();\n}\n".to_string(), false)); }
    v.push(("c-ecl-th10".into(), Kind::Ecl, g("th10"), ECL10_SRC.to_string(), false));
    // one compiled seed for every other (tool, game) pair, so that every game's reader parameters are faulted
    for gm in ["th08", "th09", "th095", "th10", "alcostg", "th11", "th125", "th128", "th13", "th14", "th143", "th15", "th16", "th165", "th18", "th185"] {
        v.push((format!("c-anm-{gm}"), Kind::Anm, g(gm), anm_src(g(gm), false), false));
    }
    for gm in ["th07", "th09", "th095", "th10", "alcostg", "th11", "th125", "th128", "th13", "th14", "th143", "th15", "th16", "th165", "th17", "th18", "th185"] {
        v.push((format!("c-std-{gm}"), Kind::Std, g(gm), std_src(g(gm)), false));
    }
    for gm in ["th07", "th08"] { v.push((format!("c-msg-{gm}"), Kind::Msg, g(gm), msg_src(g("th06")).replace("    ins_13(true);\n", ""), false)); }
    for gm in ["th10", "alcostg", "th11", "th128", "th13", "th14", "th143", "th15", "th16", "th165", "th17", "th18", "th185"] {
        let mut src = msg_src(g(gm));
        // TH10 / alcostg: the text instructions are 14..16; TH11 has no ins_27
        if matches!(gm, "th10" | "alcostg") { src = src.replace("ins_17(", "ins_14(").replace("    ins_27(1.5);\n", ""); }
        if gm == "th11" { src = src.replace("    ins_27(1.5);\n", ""); }
        v.push((format!("c-msg-{gm}"), Kind::Msg, g(gm), src, false));
    }
    for gm in ["th12", "th18"] { v.push((format!("c-end-{gm}"), Kind::End, g(gm), END_SRC.to_string(), false)); }
    v.push(("c-ecl-th09".into(), Kind::Ecl, g("th09"), ecl_src(g("th09")), false));
    v
}

/// Deterministic seed list (built identically by the parent and by every worker).
/// Returns (seeds, notes about optional seeds that could not be produced, hard errors).
fn build_seeds() -> (Vec<Seed>, Vec<String>, Vec<String>) {
    let mut seeds: Vec<Seed> = vec![];
    let (mut notes, mut errors) = (vec![], vec![]);
    for (name, kind, game, src, required) in compiled_seed_sources() {
        let out = drive::compile(Tool::new(kind, game), src.as_bytes(), &CompileOpts::default());
        match out.bytes {
            Some(bytes) => seeds.push(Seed { name, kind, game, bytes, compiled: true }),
            None => {
                let msg = format!("seed {name} did not compile: {}{}", out.diag.lines().take(8).collect::<Vec<_>>().join(" | "),
                    out.panic.map(|p| format!(" PANIC {}", p.text)).unwrap_or_default());
                if required { errors.push(msg) } else { notes.push(msg) }
            },
        }
    }
    let mut paths: Vec<PathBuf> = vec![];
    for dir in ["/repo/tests/integration/bits-2-bits", "/repo/tests/integration/resources"] {
        match std::fs::read_dir(dir) {
            Ok(rd) => paths.extend(rd.filter_map(|e| e.ok()).map(|e| e.path()).filter(|p| p.is_file())),
            Err(e) => errors.push(format!("cannot list {dir}: {e}")),
        }
    }
    paths.sort_by(|a, b| a.file_name().cmp(&b.file_name()));
    for p in paths {
        let name = p.file_name().unwrap().to_string_lossy().to_string();
        let kind = match p.extension().and_then(|e| e.to_str()) { Some("anm") => Kind::Anm, Some("std") => Kind::Std, Some("msg") => Kind::Msg, _ => continue };
        let game = match name.split('-').next().and_then(|s| s.parse::<Game>().ok()) { Some(gm) => gm, None => { errors.push(format!("no game prefix in {name}")); continue } };
        match std::fs::read(&p) {
            Ok(bytes) => {
                if seeds.iter().any(|s| s.kind == kind && s.game == game && s.bytes == bytes) { notes.push(format!("bundled {name}: identical to an earlier seed; skipped")); continue; }
                if seeds.iter().any(|s| s.name == name) { notes.push(format!("bundled {name}: duplicate name; skipped")); continue; }
                seeds.push(Seed { name, kind, game, bytes, compiled: false });
            },
            Err(e) => errors.push(format!("cannot read {}: {e}", p.display())),
        }
    }
    (seeds, notes, errors)
}

fn seeds_digest(seeds: &[Seed]) -> String {
    let mut h = Fnv::new();
    for s in seeds { h.write(s.name.as_bytes()); h.write(&(s.bytes.len() as u64).to_le_bytes()); h.write(&s.bytes); }
    format!("{}:{:016x}", seeds.len(), h.finish())
}

// =============================================================================================
// structure map (fields) of a seed, from the independent M2 walkers

#[derive(Debug, Clone, PartialEq, Eq, Hash)]
struct Field { name: &'static str, off: usize, width: usize }

fn instr_header_fields(layout: InstrLayout) -> &'static [(&'static str, usize, usize)] {
    match layout {
        InstrLayout::Anm06 | InstrLayout::Msg => &[("instr.time", 0, 2), ("instr.opcode", 2, 1), ("instr.size", 3, 1)],
        InstrLayout::Anm07 => &[("instr.opcode", 0, 2), ("instr.size", 2, 2), ("instr.time", 4, 2), ("instr.param_mask", 6, 2)],
        InstrLayout::Std06 | InstrLayout::Std10 => &[("instr.time", 0, 4), ("instr.opcode", 4, 2), ("instr.size", 6, 2)],
        InstrLayout::Ecl06 | InstrLayout::Ecl07 => &[("instr.time", 0, 4), ("instr.opcode", 4, 2), ("instr.size", 6, 2), ("instr.zero", 8, 1), ("instr.difficulty", 9, 1), ("instr.param_mask", 10, 2)],
        InstrLayout::Timeline06 => &[("instr.time", 0, 2), ("instr.arg0", 2, 2), ("instr.opcode", 4, 2), ("instr.size", 6, 2)],
        InstrLayout::Timeline08 => &[("instr.time", 0, 4), ("instr.opcode", 4, 2), ("instr.size", 6, 1), ("instr.difficulty", 7, 1)],
    }
}

fn push_region_dwords(out: &mut Vec<Field>, name: &'static str, start: usize, len: usize, file_len: usize) {
    let mut o = start;
    let end = (start + len).min(file_len);
    while o < end {
        let w = if end - o >= 4 { 4 } else if end - o >= 2 { 2 } else { 1 };
        out.push(Field { name, off: o, width: w });
        o += w;
    }
}

fn push_instr_fields(out: &mut Vec<Field>, instrs: &[Instr], layout: InstrLayout, terminal: Option<(usize, usize)>, file_len: usize) {
    let hs = layout.header_size();
    for ins in instrs {
        for &(name, rel, w) in instr_header_fields(layout) {
            if ins.offset + rel + w <= file_len { out.push(Field { name, off: ins.offset + rel, width: w }); }
        }
        push_region_dwords(out, "instr.arg", ins.offset + hs, ins.args.len(), file_len);
    }
    if let Some((off, size)) = terminal {
        for &(name, rel, w) in instr_header_fields(layout) {
            if rel + w <= size && off + rel + w <= file_len {
                let name: &'static str = match name { "instr.time" => "terminal.time", "instr.opcode" => "terminal.opcode", "instr.size" => "terminal.size", _ => "terminal.other" };
                out.push(Field { name, off: off + rel, width: w });
            }
        }
    }
}

/// All (name, offset, width) fields of a seed; Err if the walker rejects the seed.
fn seed_fields(seed: &Seed) -> Result<Vec<Field>, String> {
    let b = &seed.bytes[..];
    let n = b.len();
    let mut out: Vec<Field> = vec![];
    let push_fo = |out: &mut Vec<Field>, fo: &m2::FieldOffsets| for &(name, off, width) in fo { if off + width <= n && width > 0 { out.push(Field { name, off, width }); } };
    match seed.kind {
        Kind::Anm => {
            let layout = m2::anm_instr_layout(seed.game);
            for e in m2::walk_anm(b, seed.game)? {
                push_fo(&mut out, &e.field_offsets);
                for s in &e.scripts { push_instr_fields(&mut out, &s.instrs, layout, s.terminal, n); }
            }
        },
        Kind::Std => {
            let w = m2::walk_std(b, seed.game)?;
            push_fo(&mut out, &w.field_offsets);
            push_instr_fields(&mut out, &w.script, m2::std_instr_layout(seed.game), w.script_terminal, n);
        },
        Kind::Msg | Kind::End => {
            let w = m2::walk_msg(b, seed.game, seed.kind == Kind::End)?;
            push_fo(&mut out, &w.field_offsets);
            for (i, (_, instrs, _)) in w.scripts.iter().enumerate() {
                push_instr_fields(&mut out, instrs, InstrLayout::Msg, w.terminals.get(i).copied().flatten(), n);
            }
        },
        Kind::Mission => {
            let w = m2::walk_mission(b, seed.game)?;
            push_fo(&mut out, &w.field_offsets);
        },
        Kind::Ecl => {
            let w = m2::walk_ecl(b, seed.game)?;
            push_fo(&mut out, &w.field_offsets);
            for (i, s) in w.subs.iter().enumerate() {
                let term = w.sub_ends.get(i).and_then(|&e| e.checked_sub(w.sub_layout.header_size())).map(|o| (o, w.sub_layout.header_size()));
                push_instr_fields(&mut out, s, w.sub_layout, term, n);
            }
            for (i, s) in w.timelines.iter().enumerate() {
                let ts = if w.timeline_layout == InstrLayout::Timeline06 { 4 } else { 8 };
                let term = w.timeline_ends.get(i).and_then(|&e| e.checked_sub(ts)).map(|o| (o, ts));
                push_instr_fields(&mut out, s, w.timeline_layout, term, n);
            }
        },
    }
    // dedupe by (off, width), keeping the first name
    let mut seen = std::collections::HashSet::new();
    out.retain(|f| seen.insert((f.off, f.width)));
    Ok(out)
}

// =============================================================================================
// faults

#[derive(Debug, Clone, PartialEq, Eq)]
enum Op {
    /// keep only the first n bytes
    Trunc(usize),
    /// little-endian value of `width` (1..=8) bytes at `off`
    Set { off: usize, width: usize, val: u64 },
    /// fill `len` bytes at `off` with `byte`
    Fill { off: usize, len: usize, byte: u8 },
}

fn fault_to_string(ops: &[Op]) -> String {
    if ops.is_empty() { return "n".into(); }
    ops.iter().map(|op| match op {
        Op::Trunc(n) => format!("t{n}"),
        Op::Set { off, width, val } => format!("s{off}:{width}:{val:x}"),
        Op::Fill { off, len, byte } => format!("f{off}:{len}:{byte:x}"),
    }).collect::<Vec<_>>().join("+")
}

fn fault_from_string(s: &str) -> Result<Vec<Op>, String> {
    if s == "n" { return Ok(vec![]); }
    let mut ops = vec![];
    for part in s.split('+') {
        let bad = || format!("bad fault descriptor {part:?}");
        if part.len() < 2 || !part.is_char_boundary(1) { return Err(bad()); }
        let (tag, rest) = part.split_at(1);
        let nums: Vec<&str> = rest.split(':').collect();
        match (tag, nums.len()) {
            ("t", 1) => ops.push(Op::Trunc(nums[0].parse().map_err(|_| bad())?)),
            ("s", 3) => ops.push(Op::Set { off: nums[0].parse().map_err(|_| bad())?, width: nums[1].parse().map_err(|_| bad())?, val: u64::from_str_radix(nums[2], 16).map_err(|_| bad())? }),
            ("f", 3) => ops.push(Op::Fill { off: nums[0].parse().map_err(|_| bad())?, len: nums[1].parse().map_err(|_| bad())?, byte: u8::from_str_radix(nums[2], 16).map_err(|_| bad())? }),
            _ => return Err(bad()),
        }
    }
    Ok(ops)
}

fn apply_fault(seed: &[u8], ops: &[Op]) -> Vec<u8> {
    let mut b = seed.to_vec();
    for op in ops {
        match *op {
            Op::Trunc(n) => b.truncate(n),
            Op::Set { off, width, val } => for k in 0..width.min(8) { if let Some(x) = b.get_mut(off + k) { *x = (val >> (8 * k)) as u8; } },
            Op::Fill { off, len, byte } => for k in 0..len { if let Some(x) = b.get_mut(off + k) { *x = byte; } },
        }
    }
    b
}

fn read_le(b: &[u8], off: usize, width: usize) -> u64 {
    let mut v = 0u64;
    for k in 0..width.min(8) { v |= (*b.get(off + k).unwrap_or(&0) as u64) << (8 * k); }
    v
}

fn width_mask(width: usize) -> u64 { if width >= 8 { u64::MAX } else { (1u64 << (8 * width)) - 1 } }

/// the field-targeted values of the design, truncated to the field width
fn field_values(v: u64, width: usize, file_len: usize) -> Vec<u64> {
    let m = width_mask(width);
    let fl = file_len as u64;
    let raw = [0, 1, v.wrapping_sub(1), v.wrapping_add(1), 0x7FFF, 0x8000, 0xFFFF, 0x7FFF_FFFF, 0x8000_0000, 0xFFFF_FFFF, fl, fl.wrapping_sub(1), fl + 1];
    let mut out: Vec<u64> = vec![];
    for x in raw { let x = x & m; if x != v && !out.contains(&x) { out.push(x); } }
    out
}

/// the reduced value set used for pairs of field faults
fn pair_values(v: u64, width: usize, file_len: usize) -> Vec<u64> {
    let m = width_mask(width);
    let raw = [0, v.wrapping_add(1), m >> 1, m, file_len as u64];
    let mut out: Vec<u64> = vec![];
    for x in raw { let x = x & m; if x != v && !out.contains(&x) { out.push(x); } }
    out
}

struct Fnv(u64);
impl Fnv {
    fn new() -> Fnv { Fnv(0xcbf29ce484222325) }
    fn write(&mut self, b: &[u8]) { for &x in b { self.0 ^= x as u64; self.0 = self.0.wrapping_mul(0x100000001b3); } }
    fn finish(&self) -> u64 { self.0 }
}

fn hash128(b: &[u8]) -> (u64, u64) {
    let mut f = Fnv::new();
    f.write(b);
    f.write(&(b.len() as u64).to_le_bytes());
    let mut s = std::collections::hash_map::DefaultHasher::new();
    s.write(b);
    (f.finish(), s.finish())
}

// =============================================================================================
// case = (seed, fault, runs); generation

#[derive(Debug, Clone)]
struct Case {
    id: u64,
    seed: usize,
    ops: Vec<Op>,
    /// interned fault class
    class: u32,
    runs: u8,
    /// this byte string was not scheduled before (a new state)
    fresh: bool,
}

struct Interner { names: Vec<String>, map: HashMap<String, u32> }
impl Interner {
    fn new() -> Self { Interner { names: vec![], map: HashMap::new() } }
    fn id(&mut self, s: &str) -> u32 {
        if let Some(&i) = self.map.get(s) { return i; }
        let i = self.names.len() as u32;
        self.names.push(s.to_string());
        self.map.insert(s.to_string(), i);
        i
    }
    fn name(&self, i: u32) -> &str { &self.names[i as usize] }
}

/// per-seed generation state: which byte strings were already scheduled, and with which runs
struct SeedState {
    fields: Vec<Field>,
    /// field covering each byte offset (index into fields) for naming byte faults
    cover: Vec<Option<u32>>,
    done: HashMap<(u64, u64), u8>,
    walker_error: Option<String>,
}

struct Gen<'a> {
    seeds: &'a [Seed],
    states: Vec<SeedState>,
    classes: Interner,
    next_id: u64,
    /// number of distinct faulted byte strings scheduled
    distinct: u64,
    /// generated faults that were byte-identical to an already scheduled input (or the seed)
    duplicates: u64,
}

impl<'a> Gen<'a> {
    fn new(seeds: &'a [Seed]) -> Self {
        let states = seeds.iter().map(|s| {
            let (fields, walker_error) = match catch(|| seed_fields(s)) {
                Ok(Ok(f)) => (f, None),
                Ok(Err(e)) => (vec![], Some(e)),
                Err(p) => (vec![], Some(format!("walker panicked: {}", p.text))),
            };
            let mut cover = vec![None; s.bytes.len()];
            for (i, f) in fields.iter().enumerate() { for k in f.off..(f.off + f.width).min(cover.len()) { if cover[k].is_none() { cover[k] = Some(i as u32); } } }
            SeedState { fields, cover, done: HashMap::new(), walker_error }
        }).collect();
        Gen { seeds, states, classes: Interner::new(), next_id: 0, distinct: 0, duplicates: 0 }
    }

    /// schedule a fault with the wanted runs; returns a case for the runs not yet scheduled on this byte string
    fn add(&mut self, out: &mut Vec<Case>, seed: usize, ops: Vec<Op>, class: &str, runs: u8) {
        let runs = runs & self.seeds[seed].all_runs();
        if runs == 0 { return; }
        let bytes = apply_fault(&self.seeds[seed].bytes, &ops);
        let h = hash128(&bytes);
        let st = &mut self.states[seed];
        let prev = st.done.get(&h).copied();
        let todo = runs & !prev.unwrap_or(0);
        if prev.is_none() { self.distinct += 1; }
        if todo == 0 { self.duplicates += 1; return; }
        st.done.insert(h, prev.unwrap_or(0) | todo);
        let class = self.classes.id(class);
        out.push(Case { id: self.next_id, seed, ops, class, runs: todo, fresh: prev.is_none() });
        self.next_id += 1;
    }

    fn byte_class(&self, seed: usize, off: usize) -> String {
        match self.states[seed].cover.get(off).copied().flatten() {
            Some(i) => format!("byte:{}", self.states[seed].fields[i as usize].name),
            None => "byte:unmapped".to_string(),
        }
    }

    fn baseline(&mut self, seed: usize) -> Vec<Case> {
        let mut out = vec![];
        let all = self.seeds[seed].all_runs();
        self.add(&mut out, seed, vec![], "none", all);
        out
    }

    /// the quick-tier fault set of one seed (`full_opts`: thorough tier runs every option set on every fault)
    fn primary(&mut self, seed: usize, full_opts: bool) -> Vec<Case> {
        let mut out = vec![];
        let n = self.seeds[seed].bytes.len();
        let all = self.seeds[seed].all_runs();
        let light = if full_opts { all } else { all & (RUN_DEFAULT | RUN_EXTRACT) };
        let large = n > 4096;
        // truncations
        let trunc_offsets: Vec<usize> = if !large { (0..n).collect() } else {
            let stride = (n + 1023) / 1024;
            let mut v: Vec<usize> = (0..n).filter(|&o| o < 256 || o + 32 >= n || o % stride == 0).collect();
            let fo: Vec<usize> = self.states[seed].fields.iter().flat_map(|f| [f.off, f.off + f.width]).filter(|&o| o < n).collect();
            v.extend(fo);
            v.sort(); v.dedup();
            v
        };
        for o in trunc_offsets { self.add(&mut out, seed, vec![Op::Trunc(o)], "truncate", all); }
        // field-targeted values
        let fields = self.states[seed].fields.clone();
        for f in &fields {
            let cls = format!("field:{}", f.name);
            if f.width <= 4 {
                let v = read_le(&self.seeds[seed].bytes, f.off, f.width);
                for x in field_values(v, f.width, n) { self.add(&mut out, seed, vec![Op::Set { off: f.off, width: f.width, val: x }], &cls, all); }
            } else {
                // byte-string fields (names, paths, text): emptied, unterminated, high bytes
                let cls = format!("string:{}", f.name);
                let first_nul = (0..f.width).find(|&k| self.seeds[seed].bytes[f.off + k] == 0).unwrap_or(f.width);
                for byte in [0x00u8, 0x41, 0x80, 0xFF] { self.add(&mut out, seed, vec![Op::Fill { off: f.off, len: f.width, byte }], &cls, all); }
                self.add(&mut out, seed, vec![Op::Set { off: f.off, width: 1, val: 0 }], &cls, all);
                if first_nul < f.width {
                    self.add(&mut out, seed, vec![Op::Fill { off: f.off + first_nul, len: f.width - first_nul, byte: 0x41 }], &cls, all);
                    self.add(&mut out, seed, vec![Op::Fill { off: f.off + first_nul, len: f.width - first_nul, byte: 0xFF }], &cls, all);
                }
                self.add(&mut out, seed, vec![Op::Set { off: f.off + f.width - 1, width: 1, val: 0x41 }], &cls, all);
            }
        }
        // whole tables: every maximal run of adjacent same-named fields (offset tables, id tables, argument lists) zeroed / all ones
        {
            let mut sorted: Vec<&Field> = fields.iter().collect();
            sorted.sort_by_key(|f| f.off);
            let mut i = 0;
            while i < sorted.len() {
                let mut j = i;
                while j + 1 < sorted.len() && sorted[j + 1].name == sorted[i].name && sorted[j + 1].off == sorted[j].off + sorted[j].width { j += 1; }
                if j > i {
                    let (off, len) = (sorted[i].off, sorted[j].off + sorted[j].width - sorted[i].off);
                    let cls = format!("table:{}", sorted[i].name);
                    for byte in [0x00u8, 0xFF] { self.add(&mut out, seed, vec![Op::Fill { off, len, byte }], &cls, all); }
                }
                i = j + 1;
            }
        }
        // every offset x {00, 01, 7F, 80, FF, b^01, b^80}
        if !large {
            for o in 0..n {
                let b = self.seeds[seed].bytes[o];
                let cls = self.byte_class(seed, o);
                for x in [0x00, 0x01, 0x7F, 0x80, 0xFF, b ^ 0x01, b ^ 0x80] {
                    if x != b { self.add(&mut out, seed, vec![Op::Set { off: o, width: 1, val: x as u64 }], &cls, light); }
                }
            }
        }
        out
    }

    /// thorough: every offset x all 256 byte values
    fn all_values(&mut self, seed: usize) -> Vec<Case> {
        let mut out = vec![];
        let all = self.seeds[seed].all_runs();
        for o in 0..self.seeds[seed].bytes.len() {
            let cls = self.byte_class(seed, o);
            for x in 0..=255u8 { self.add(&mut out, seed, vec![Op::Set { off: o, width: 1, val: x as u64 }], &cls, all); }
        }
        out
    }

    /// thorough: pairs of field faults (distinct fields, reduced value set)
    fn pairs(&mut self, seed: usize, max_cases: usize) -> (Vec<Case>, bool) {
        let mut out = vec![];
        let n = self.seeds[seed].bytes.len();
        let runs = self.seeds[seed].all_runs() & (RUN_DEFAULT | RUN_EXTRACT);
        let mut fields: Vec<Field> = self.states[seed].fields.iter().filter(|f| f.width <= 4).cloned().collect();
        let est = |k: usize| k * k.saturating_sub(1) / 2 * 25;
        if est(fields.len()) > max_cases {
            // too many: keep the structural fields (counts, sizes, offsets, ids, instruction headers and arguments), drop pure geometry
            const GEOMETRY: [&str; 8] = ["quad.float", "object.pos", "object.size", "instance.pos", "sprite.x", "sprite.y", "sprite.w", "sprite.h"];
            fields.retain(|f| !GEOMETRY.contains(&f.name));
        }
        let vals: Vec<Vec<u64>> = fields.iter().map(|f| pair_values(read_le(&self.seeds[seed].bytes, f.off, f.width), f.width, n)).collect();
        let mut capped = false;
        'outer: for i in 0..fields.len() {
            for j in (i + 1)..fields.len() {
                let cls = format!("pair:{}+{}", fields[i].name, fields[j].name);
                for &a in &vals[i] { for &b in &vals[j] {
                    if out.len() >= max_cases { capped = true; break 'outer; }
                    self.add(&mut out, seed, vec![Op::Set { off: fields[i].off, width: fields[i].width, val: a }, Op::Set { off: fields[j].off, width: fields[j].width, val: b }], &cls, runs);
                } }
            }
        }
        (out, capped)
    }
}

// =============================================================================================
// executing one run of the real code (worker side)

struct RunOut { bit: u8, class: String, viol: Option<String>, ms: u64, diag: String }

fn squash_digits(s: &str) -> String {
    // 0x<hex> -> 0xN, digit runs -> N
    let b: Vec<char> = s.chars().collect();
    let mut out = String::new();
    let mut i = 0;
    while i < b.len() {
        if b[i] == '0' && i + 1 < b.len() && (b[i + 1] == 'x' || b[i + 1] == 'X') && i + 2 < b.len() && b[i + 2].is_ascii_hexdigit() {
            out.push_str("0xN");
            i += 2;
            while i < b.len() && b[i].is_ascii_hexdigit() { i += 1; }
        } else if b[i].is_ascii_digit() {
            out.push('N');
            while i < b.len() && b[i].is_ascii_digit() { i += 1; }
        } else { out.push(b[i]); i += 1; }
    }
    out
}

/// replace the text between the first `open` and the LAST `close` by `<q>` (quoted paths may contain anything)
fn squash_quoted(s: &str, open: &str, close: &str) -> String {
    if let Some(a) = s.find(open) {
        let rest = &s[a + open.len()..];
        if let Some(b) = rest.rfind(close) {
            return format!("{}{}<q>{}{}", &s[..a], open, close, &rest[b + close.len()..]);
        }
        if open == "'" && s[..a].ends_with(' ') { return format!("{}{}<q>'", &s[..a], open); } // the quoted text spans several lines
    }
    s.to_string()
}

fn norm_line(line: &str, display: &str) -> String {
    let s = line.replace(display, "<file>");
    // quoted output paths / names come from (mutated) file contents: not part of the class
    let mut s = squash_quoted(&s, "'", "': ");
    if s.starts_with("error: while ") { if let Some(k) = s.find("'<q>': ") { s.truncate(k + 5); } } // OS error text varies
    let s = squash_quoted(&s, "`", "`");
    let s = squash_digits(&s);
    s.chars().take(100).collect()
}

/// The source text of the panicking line (digits squashed), to tell apart generic messages such as
/// "assertion `left == right` failed" raised at different places of one file without using line numbers.
fn panic_src_line(text: &str) -> Option<String> {
    let mut parts = text.splitn(3, ':');
    let file = parts.next()?;
    let line: usize = parts.next()?.trim().parse().ok()?;
    if !file.contains("/src/") || file.starts_with("/rustc/") { return None; }
    thread_local! { static FILES: std::cell::RefCell<HashMap<String, Option<Vec<String>>>> = std::cell::RefCell::new(HashMap::new()); }
    FILES.with(|f| {
        let mut f = f.borrow_mut();
        let lines = f.entry(file.to_string()).or_insert_with(|| std::fs::read_to_string(file).ok().map(|s| s.lines().map(String::from).collect()));
        let l = lines.as_ref()?.get(line.checked_sub(1)?)?;
        let l = squash_digits(l.split("//").next().unwrap_or("").trim());
        if l.is_empty() { None } else { Some(l.chars().take(70).collect()) }
    })
}

fn classify(fmt: &str, display: &str, ok: bool, diag: &str, panic: Option<Panic>) -> (String, Option<String>) {
    if let Some(p) = panic {
        let src = panic_src_line(&p.text).map(|l| format!(" @ {l}")).unwrap_or_default();
        return ("panic".into(), Some(format!("C16:{fmt}:{}{src}", p.signature())));
    }
    if ok {
        let warn = diag.lines().any(|l| l.starts_with("warning"));
        return (if warn { "ok+warning".into() } else { "ok".into() }, None);
    }
    match diag.lines().find(|l| l.starts_with("error") || l.starts_with("bug")) {
        None => {
            // the diagnostic emitted right before the Err is the last one rendered
            let first = diag.lines().rev().find(|l| l.starts_with("warning") || l.starts_with("note") || l.starts_with("help"))
                .or_else(|| diag.lines().find(|l| !l.trim().is_empty())).unwrap_or("<no diagnostic at all>");
            ("err-without-error-diagnostic".into(), Some(format!("C16:{fmt}:error-without-error-diagnostic:{}", norm_line(first, display))))
        },
        Some(l) => {
            let cls = format!("err:{}", norm_line(l, display));
            let named = diag.contains(display) || (EXTRACT_OUTPUT_PATH_COUNTS_AS_NAMING && l.contains(" '") && (l.starts_with("error: skipping '") || l.starts_with("error: while ")));
            let viol = if named { None } else { Some(format!("C16:{fmt}:error-not-naming-file:{}", norm_line(l, display))) };
            (cls, viol)
        },
    }
}

/// Mirror of `cli_def::anm_extract::run` on in-memory input: read with images, extract into `dir`.
fn extract_in_process(game: Game, bytes: &[u8], display: &str, dir: &Path) -> (bool, String, Option<Panic>) {
    let mut scope = truth::Builder::new().capture_diagnostics(true).build();
    let mut truth = scope.truth();
    let r = catch(|| -> Result<(), ()> {
        macro_rules! t { ($e:expr) => { match $e { Ok(v) => v, Err(e) => { let e: truth::ErrorReported = e; e.ignore(); return Err(()); } } } }
        let emitter = truth.ctx().emitter;
        let tv = t!(truth.validate_defs());
        let mut r = BinReader::from_reader(emitter, display, Cursor::new(bytes.to_vec()));
        let anm = t!(truth::AnmFile::read_from_stream(&mut r, game, true));
        let fs = tv.fs();
        t!(anm.extract_images(dir, &fs));
        Ok(())
    });
    let diag = catch(|| truth.get_captured_diagnostics().unwrap_or_default()).unwrap_or_else(|p| format!("<diagnostic rendering panicked: {}>", p.text));
    match r { Ok(Ok(())) => (true, diag, None), Ok(Err(())) => (false, diag, None), Err(p) => (false, diag, Some(p)) }
}

fn exec_run(seed: &Seed, bytes: &[u8], bit: u8, scratch: &Path) -> RunOut {
    let display = seed.display();
    let t0 = Instant::now();
    let cpu0 = thread_cpu_ms();
    let (ok, diag, panic) = match RUNS.iter().find(|r| r.0 == bit).and_then(|r| r.2) {
        Some(optbits) => {
            let o = drive::decompile(Tool::new(seed.kind, seed.game), bytes, &DecompOpts { options: drive::options_from_bits(optbits), display_name: &display, ..Default::default() });
            (o.text.is_some(), o.diag, o.panic)
        },
        None => {
            let dir = scratch.join("x");
            let _ = std::fs::create_dir_all(&dir);
            let r = extract_in_process(seed.game, bytes, &display, &dir);
            let _ = std::fs::remove_dir_all(&dir);
            r
        },
    };
    let wall_ms = t0.elapsed().as_millis() as u64;
    // the time budget is judged on CPU time of this thread (robust against a loaded machine); wall time if unavailable
    let ms = match (cpu0, thread_cpu_ms()) { (Some(a), Some(b)) if wall_ms >= 1000 => b.saturating_sub(a).min(wall_ms), _ => wall_ms };
    let site = panic.as_ref().map(|p| p.text.lines().take(3).collect::<Vec<_>>().join(" / "));
    let (class, viol) = classify(seed.fmt(), &display, ok, &diag, panic);
    let diag = match site { Some(t) => format!("PANIC {t}\n{diag}"), None => diag };
    RunOut { bit, class, viol, ms, diag }
}

/// CPU time consumed by the calling thread so far, ms (Linux scheduler statistics; one pread on a kept-open handle)
fn thread_cpu_ms() -> Option<u64> {
    use std::os::unix::fs::FileExt;
    thread_local! { static F: Option<std::fs::File> = std::fs::File::open("/proc/thread-self/schedstat").ok(); }
    F.with(|f| {
        let f = f.as_ref()?;
        let mut buf = [0u8; 64];
        let n = f.read_at(&mut buf, 0).ok()?;
        let s = std::str::from_utf8(&buf[..n]).ok()?;
        let ns: u64 = s.split_whitespace().next()?.parse().ok()?;
        Some(ns / 1_000_000)
    })
}

fn vm_hwm_mb() -> Option<u64> {
    let s = std::fs::read_to_string("/proc/self/status").ok()?;
    let l = s.lines().find(|l| l.starts_with("VmHWM:"))?;
    let kb: u64 = l.split_whitespace().nth(1)?.parse().ok()?;
    Some(kb / 1024)
}
fn reset_hwm() { let _ = std::fs::write("/proc/self/clear_refs", "5"); }

fn worker_main() -> ! {
    let (seeds, _notes, errors) = build_seeds();
    let scratch: PathBuf = std::env::var(SCRATCH_ENV).map(PathBuf::from).unwrap_or_else(|_| drive::scratch_dir());
    let _ = std::fs::create_dir_all(&scratch);
    let stdout = std::io::stdout();
    {
        let mut o = stdout.lock();
        let _ = writeln!(o, "{MARK}{}", json!({"hello": seeds_digest(&seeds), "errors": errors}));
        let _ = o.flush();
    }
    let stdin = std::io::stdin();
    let mut line = String::new();
    loop {
        line.clear();
        match stdin.lock().read_line(&mut line) { Ok(0) | Err(_) => break, Ok(_) => {} }
        let parts: Vec<&str> = line.split_whitespace().collect();
        if parts.is_empty() { continue; }
        let reply = (|| -> Result<Value, String> {
            if parts.len() != 4 { return Err(format!("bad case line {line:?}")); }
            let id: u64 = parts[0].parse().map_err(|_| "bad id".to_string())?;
            let si: usize = parts[1].parse().map_err(|_| "bad seed index".to_string())?;
            let seed = seeds.get(si).ok_or("seed index out of range")?;
            let ops = fault_from_string(parts[2])?;
            let runs: u8 = parts[3].parse().map_err(|_| "bad run mask".to_string())?;
            let bytes = apply_fault(&seed.bytes, &ops);
            let t0 = Instant::now();
            let mut rs = vec![];
            for &(bit, _, _) in RUNS.iter() {
                if runs & bit == 0 { continue; }
                let r = exec_run(seed, &bytes, bit, &scratch);
                let diag = if r.viol.is_some() { Value::String(r.diag.lines().take(6).collect::<Vec<_>>().join("\n")) } else { Value::Null };
                rs.push(json!([r.bit, r.class, r.viol, r.ms, diag]));
            }
            // peak RSS: a blow-up of RSS_LIMIT_MB necessarily takes longer than a few ms
            let mut hwm = Value::Null;
            if t0.elapsed() > Duration::from_millis(3) {
                if let Some(mb) = vm_hwm_mb() { if mb > RSS_LIMIT_MB { hwm = json!(mb); reset_hwm(); } }
            }
            Ok(json!({"i": id, "r": rs, "m": hwm}))
        })();
        let v = match reply { Ok(v) => v, Err(e) => json!({"i": parts[0].parse::<u64>().unwrap_or(u64::MAX), "e": e}) };
        let mut o = stdout.lock();
        let _ = writeln!(o, "{MARK}{v}");
        let _ = o.flush();
    }
    let _ = std::fs::remove_dir_all(&scratch);
    std::process::exit(0)
}

// =============================================================================================
// parent side: workers and the pool

struct Worker {
    child: Child,
    stdin: Option<ChildStdin>,
    rx: mpsc::Receiver<Option<String>>,
    stderr_path: PathBuf,
    scratch: PathBuf,
}

static WORKER_SEQ: AtomicUsize = AtomicUsize::new(0);

fn spawn_worker(tier: &str, digest: &str) -> Result<Worker, String> {
    let n = WORKER_SEQ.fetch_add(1, Ordering::Relaxed);
    let base = drive::scratch_dir().join("c16");
    let _ = std::fs::create_dir_all(&base);
    let scratch = base.join(format!("w{n}"));
    let stderr_path = base.join(format!("w{n}.stderr"));
    let stderr_file = std::fs::File::create(&stderr_path).map_err(|e| format!("create {}: {e}", stderr_path.display()))?;
    let exe = drive::exe_snapshot();
    let mut cmd = Command::new("sh");
    cmd.arg("-c").arg(format!("ulimit -v {ULIMIT_V_KIB} || exit 97; exec \"$0\" \"$@\""))
        .arg(&exe).arg("run").arg("C16").arg(tier)
        .env(WORKER_ENV, "1").env(SCRATCH_ENV, &scratch).env("RUST_BACKTRACE", "0").env_remove("TRUTH_MAP_PATH")
        .stdin(Stdio::piped()).stdout(Stdio::piped()).stderr(Stdio::from(stderr_file));
    let mut child = cmd.spawn().map_err(|e| format!("spawn worker: {e}"))?;
    let stdin = child.stdin.take();
    let stdout = child.stdout.take().ok_or("no worker stdout")?;
    let (tx, rx) = mpsc::channel::<Option<String>>();
    std::thread::spawn(move || {
        let mut r = BufReader::new(stdout);
        let mut buf: Vec<u8> = vec![];
        loop {
            buf.clear();
            match r.read_until(b'\n', &mut buf) {
                Ok(0) | Err(_) => { let _ = tx.send(None); break; },
                Ok(_) => {
                    if buf.starts_with(MARK.as_bytes()) {
                        let s = String::from_utf8_lossy(&buf[MARK.len()..]).trim_end().to_string();
                        if tx.send(Some(s)).is_err() { break; }
                    }
                    // anything else is output of the real code (e.g. "exported '...'"): ignored
                },
            }
        }
    });
    let mut w = Worker { child, stdin, rx, stderr_path, scratch };
    // handshake (start-up compiles the seeds; generous under load)
    match w.rx.recv_timeout(Duration::from_secs(120)) {
        Ok(Some(s)) => {
            let v: Value = serde_json::from_str(&s).map_err(|e| format!("worker hello unparsable: {e}: {s}"))?;
            if v["hello"].as_str() != Some(digest) { w.kill(); return Err(format!("worker seed digest {} differs from parent's {digest} (errors: {})", v["hello"], v["errors"])); }
            Ok(w)
        },
        Ok(None) => { let info = w.death_info(); Err(format!("worker died during start-up: {info}")) },
        Err(_) => { w.kill(); Err("worker start-up timed out".into()) },
    }
}

impl Worker {
    fn send(&mut self, text: &str) -> bool {
        match self.stdin.as_mut() {
            Some(s) => s.write_all(text.as_bytes()).and_then(|_| s.flush()).is_ok(),
            None => false,
        }
    }
    fn kill(&mut self) {
        self.stdin = None;
        let _ = self.child.kill();
        let _ = self.child.wait();
        let _ = std::fs::remove_dir_all(&self.scratch);
    }
    /// wait for the (dead) child and describe how it died
    fn death_info(&mut self) -> String {
        self.stdin = None;
        let status = self.child.wait();
        let _ = std::fs::remove_dir_all(&self.scratch);
        let st = match status {
            Ok(s) => {
                use std::os::unix::process::ExitStatusExt;
                match (s.code(), s.signal()) { (Some(c), _) => format!("exit code {c}"), (None, Some(sig)) => format!("signal {sig}"), _ => "unknown status".into() }
            },
            Err(e) => format!("wait failed: {e}"),
        };
        let tail = std::fs::read(&self.stderr_path).map(|b| { let s = String::from_utf8_lossy(&b).to_string(); let t: Vec<&str> = s.lines().rev().take(3).collect(); t.into_iter().rev().collect::<Vec<_>>().join(" | ") }).unwrap_or_default();
        format!("{st}; stderr: {}", squash_ws(&tail))
    }
    fn finish(mut self) {
        self.stdin = None; // EOF: the worker exits by itself
        let t0 = Instant::now();
        loop {
            match self.child.try_wait() { Ok(Some(_)) => break, Ok(None) if t0.elapsed() < Duration::from_secs(5) => std::thread::sleep(Duration::from_millis(5)), _ => { let _ = self.child.kill(); let _ = self.child.wait(); break; } }
        }
        let _ = std::fs::remove_dir_all(&self.scratch);
        let _ = std::fs::remove_file(&self.stderr_path);
    }
}

fn squash_ws(s: &str) -> String { s.split_whitespace().collect::<Vec<_>>().join(" ") }

#[derive(Debug, Clone)]
struct RunRes { bit: u8, class: String, viol: Option<String>, ms: u64, diag: Option<String> }

#[derive(Debug, Clone)]
enum CaseResult {
    Done { runs: Vec<RunRes>, hwm_mb: Option<u64>, slow_confirmed: bool },
    /// the worker died (`abort`) or stopped answering (`timeout`) on this case, twice
    Died { kind: &'static str, info: String },
    /// protocol-level problem
    Broken(String),
}

fn parse_reply(s: &str) -> Result<(u64, CaseResult), String> {
    let v: Value = serde_json::from_str(s).map_err(|e| format!("unparsable worker reply: {e}: {s}"))?;
    let id = v["i"].as_u64().ok_or_else(|| format!("reply without id: {s}"))?;
    if let Some(e) = v["e"].as_str() { return Ok((id, CaseResult::Broken(e.to_string()))); }
    let mut runs = vec![];
    for r in v["r"].as_array().ok_or("reply without runs")? {
        runs.push(RunRes {
            bit: r[0].as_u64().unwrap_or(0) as u8,
            class: r[1].as_str().unwrap_or("?").to_string(),
            viol: r[2].as_str().map(String::from),
            ms: r[3].as_u64().unwrap_or(0),
            diag: r[4].as_str().map(String::from),
        });
    }
    Ok((id, CaseResult::Done { runs, hwm_mb: v["m"].as_u64(), slow_confirmed: false }))
}

fn case_line(c: &Case) -> String { format!("{} {} {} {}\n", c.id, c.seed, fault_to_string(&c.ops), c.runs) }

enum Iso { Result(CaseResult), Died(String), Timeout, Machinery(String) }

/// run exactly one case in a fresh worker
fn run_isolated(tier: &str, digest: &str, line: &str) -> Iso {
    let mut w = match spawn_worker(tier, digest) { Ok(w) => w, Err(e) => return Iso::Machinery(e) };
    if !w.send(line) { let info = w.death_info(); return Iso::Died(info); }
    match w.rx.recv_timeout(ANSWER_TIMEOUT + Duration::from_secs(10)) {
        Ok(Some(s)) => { w.finish(); match parse_reply(&s) { Ok((_, r)) => Iso::Result(r), Err(e) => Iso::Machinery(e) } },
        Ok(None) => Iso::Died(w.death_info()),
        Err(_) => { w.kill(); Iso::Timeout },
    }
}

struct Pool {
    tier: String,
    digest: String,
    slots: Vec<Mutex<Option<Worker>>>,
    machinery: Mutex<Vec<String>>,
    /// death signatures (format, kind, class) confirmed so far -> count of confirmations
    confirmed: Mutex<HashMap<String, u32>>,
    respawns: AtomicUsize,
    unconfirmed_timeouts: AtomicUsize,
}

impl Pool {
    fn new(tier: &str, digest: &str, n: usize) -> Pool {
        Pool { tier: tier.into(), digest: digest.into(), slots: (0..n).map(|_| Mutex::new(None)).collect(), machinery: Mutex::new(vec![]),
               confirmed: Mutex::new(HashMap::new()), respawns: AtomicUsize::new(0), unconfirmed_timeouts: AtomicUsize::new(0) }
    }

    fn note_machinery(&self, s: String) { let mut g = self.machinery.lock().unwrap(); if g.len() < 50 { g.push(s); } }

    /// The in-flight case of a dead/hung worker: confirm in a fresh worker.
    fn handle_death(&self, c: &Case, kind: &'static str, info: String, death_key: &str) -> CaseResult {
        let key = format!("{kind}:{death_key}");
        if self.confirmed.lock().unwrap().get(&key).copied().unwrap_or(0) >= 2 {
            return CaseResult::Died { kind, info: format!("{info} (not re-confirmed: this signature was confirmed twice before)") };
        }
        match run_isolated(&self.tier, &self.digest, &case_line(c)) {
            Iso::Died(info2) => { *self.confirmed.lock().unwrap().entry(format!("abort:{death_key}")).or_insert(0) += 1; CaseResult::Died { kind: "abort", info: format!("{info2} (first: {kind}: {info})") } },
            Iso::Timeout => { *self.confirmed.lock().unwrap().entry(format!("timeout:{death_key}")).or_insert(0) += 1; CaseResult::Died { kind: "timeout", info: format!("no answer within {}s, twice (first: {kind}: {info})", ANSWER_TIMEOUT.as_secs()) } },
            Iso::Result(CaseResult::Done { runs, hwm_mb, .. }) if kind == "timeout" && runs.iter().any(|r| r.ms > SLOW_MS) => {
                // no answer within the timeout the first time, and over the time budget again: confirmed slow
                CaseResult::Done { runs, hwm_mb, slow_confirmed: true }
            },
            Iso::Result(CaseResult::Done { runs, hwm_mb, .. }) if kind == "timeout" && runs.iter().any(|r| r.ms >= 1000) => {
                // a heavy but finite case (>= 1 s of CPU on the retry) that a loaded machine stretched beyond the answer
                // timeout the first time: within the time budget, so not a violation; noted, not a machinery error
                self.unconfirmed_timeouts.fetch_add(1, Ordering::Relaxed);
                CaseResult::Done { runs, hwm_mb, slow_confirmed: false }
            },
            Iso::Result(r) => {
                // The fresh worker judged the case, so the verdict is available; the first attempt was lost to the
                // environment (machine load, a neighbour's allocation).  Count it; it is neither a violation nor a
                // reason to distrust the run.  (a *timeout* here is typically a large lazily-zeroed allocation
                // that a loaded machine stretched beyond the answer timeout)
                self.unconfirmed_timeouts.fetch_add(1, Ordering::Relaxed);
                let _ = (&info, c);
                r
            },
            Iso::Machinery(e) => { self.note_machinery(format!("confirmation run failed: {e}")); CaseResult::Broken(e) },
        }
    }

    /// Run all cases; results in case order (None = not run because the deadline passed).
    /// `death_key(case)` names the (format, fault class) of a case for abort/timeout memoization.
    fn run(&self, cases: &[Case], deadline: Instant, death_key: &(dyn Fn(&Case) -> String + Sync)) -> Vec<Option<CaseResult>> {
        let next = AtomicUsize::new(0);
        let results: Mutex<Vec<Option<CaseResult>>> = Mutex::new((0..cases.len()).map(|_| None).collect());
        std::thread::scope(|s| {
            for slot in 0..self.slots.len().min((cases.len() + BATCH - 1) / BATCH).max(1) {
                let (next, results) = (&next, &results);
                s.spawn(move || {
                    let mut guard = self.slots[slot].lock().unwrap();
                    let mut spawn_failures = 0;
                    loop {
                        if Instant::now() > deadline { break; }
                        let start = next.fetch_add(BATCH, Ordering::Relaxed);
                        if start >= cases.len() { break; }
                        let end = (start + BATCH).min(cases.len());
                        let mut pending: VecDeque<usize> = (start..end).collect();
                        let mut local: Vec<(usize, CaseResult)> = vec![];
                        while !pending.is_empty() {
                            if guard.is_none() {
                                match spawn_worker(&self.tier, &self.digest) {
                                    Ok(w) => { *guard = Some(w); self.respawns.fetch_add(1, Ordering::Relaxed); },
                                    Err(e) => {
                                        spawn_failures += 1;
                                        self.note_machinery(format!("cannot start worker: {e}"));
                                        if spawn_failures >= 3 { for i in pending.drain(..) { local.push((i, CaseResult::Broken("no worker".into()))); } break; }
                                        continue;
                                    },
                                }
                            }
                            let w = guard.as_mut().unwrap();
                            let text: String = pending.iter().map(|&i| case_line(&cases[i])).collect();
                            let sent = w.send(&text);
                            // read answers in order (even if the send failed midway, the worker may have answered some)
                            let mut dead: Option<(&'static str, String)> = None;
                            while let Some(&i) = pending.front() {
                                match w.rx.recv_timeout(ANSWER_TIMEOUT) {
                                    Ok(Some(sline)) => match parse_reply(&sline) {
                                        Ok((id, r)) if id == cases[i].id => { pending.pop_front(); local.push((i, r)); },
                                        Ok((id, _)) => { self.note_machinery(format!("worker answered case {id}, expected {}", cases[i].id)); },
                                        Err(e) => { self.note_machinery(e.clone()); pending.pop_front(); local.push((i, CaseResult::Broken(e))); },
                                    },
                                    Ok(None) => { dead = Some(("abort", w.death_info())); break; },
                                    Err(_) => { w.kill(); dead = Some(("timeout", format!("no answer within {}s", ANSWER_TIMEOUT.as_secs()))); break; },
                                }
                            }
                            if let Some((kind, info)) = dead {
                                *guard = None;
                                if let Some(i) = pending.pop_front() {
                                    let r = self.handle_death(&cases[i], kind, info, &death_key(&cases[i]));
                                    local.push((i, r));
                                }
                            } else if !sent && !pending.is_empty() {
                                // cannot happen (a failed send means a dead worker => EOF above), but never loop forever
                                if let Some(mut w) = guard.take() { w.kill(); }
                            }
                        }
                        let mut g = results.lock().unwrap();
                        for (i, r) in local { g[i] = Some(r); }
                    }
                });
            }
        });
        results.into_inner().unwrap()
    }

    fn shutdown(&self) {
        for s in &self.slots { if let Some(w) = s.lock().unwrap().take() { w.finish(); } }
    }
}

// =============================================================================================
// aggregation

struct Viol { count: u64, first_id: u64, detail: Value }

struct Agg {
    states: u64,
    evaluations: u64,
    transitions: u64,
    nontrivial: u64,
    outcomes: BTreeMap<String, u64>,
    viols: BTreeMap<String, Viol>,
    /// per seed: class of each run of the unfaulted seed
    seed_class: Vec<BTreeMap<u8, String>>,
    slow_unconfirmed: u64,
    broken: u64,
    max_ms: u64,
    /// signature -> panic site (file:line: message) -> (count, first case id, seed, fault, run)
    panic_sites: BTreeMap<String, BTreeMap<String, (u64, u64, String, String, String)>>,
    /// slowest runs seen: (ms, seed, fault, run)
    slowest: Vec<(u64, String, String, String)>,
    /// "<format>:<abort|timeout|slow|memory>" -> count
    resource_kinds: BTreeMap<String, u64>,
}

fn hex(b: &[u8]) -> String { b.iter().map(|x| format!("{x:02x}")).collect() }

fn witness(seeds: &[Seed], c: &Case, class: &str, run: &str, kind: &str, extra: Value) -> Value {
    let s = &seeds[c.seed];
    let bytes = apply_fault(&s.bytes, &c.ops);
    let mut v = json!({
        "format": s.fmt(), "game": s.game.as_str(), "seed": s.name, "seed_len": s.bytes.len(), "compiled_seed": s.compiled,
        "fault": fault_to_string(&c.ops), "fault_class": class, "run": run, "kind": kind, "input_len": bytes.len(), "info": extra,
    });
    if bytes.len() <= 768 { v["input_hex"] = json!(hex(&bytes)); }
    v
}

impl Agg {
    fn new(nseeds: usize) -> Agg {
        Agg { states: 0, evaluations: 0, transitions: 0, nontrivial: 0, outcomes: BTreeMap::new(), viols: BTreeMap::new(), seed_class: vec![BTreeMap::new(); nseeds],
              slow_unconfirmed: 0, broken: 0, max_ms: 0, panic_sites: BTreeMap::new(), slowest: vec![], resource_kinds: BTreeMap::new() }
    }
    fn violation(&mut self, sig: String, id: u64, detail: impl FnOnce() -> Value) {
        match self.viols.get_mut(&sig) {
            Some(v) => { v.count += 1; if id < v.first_id { v.first_id = id; v.detail = detail(); } },
            None => { self.viols.insert(sig, Viol { count: 1, first_id: id, detail: detail() }); },
        }
    }
}

// =============================================================================================
// the check

fn tier_is_thorough(tier: &str) -> bool { tier == "thorough" }

pub fn run(tier: &str) -> Report {
    if std::env::var(WORKER_ENV).is_ok() { worker_main(); }
    let mut rep = Report::new("C16", tier, "fault_enumeration");
    rep.rule = "the outcome class (ok / ok+warning / first error line with digits squashed / panic / abort) of the default decompilation of the faulted input differs from that of the unfaulted seed, i.e. the fault was noticed".into();
    let thorough = tier_is_thorough(tier);
    // leave a margin for aggregation / confirmation runs
    let deadline = if thorough { rep.deadline().min(rep.start + Duration::from_secs(700)) } else { rep.deadline() - Duration::from_secs(10) };

    let (seeds, notes, errors) = build_seeds();
    for e in errors { rep.machinery_errors.push(format!("seed construction: {e}")); }
    for n in &notes { rep.discard(&format!("seed-note: {}", n.chars().take(160).collect::<String>())); }
    if seeds.is_empty() { rep.machinery_errors.push("no seeds".into()); return rep; }
    let digest = seeds_digest(&seeds);
    let dump = std::env::var("VERIF_C16_DUMP").is_ok();

    let mut gen = Gen::new(&seeds);
    for (i, s) in seeds.iter().enumerate() {
        if let Some(e) = &gen.states[i].walker_error { rep.discard(&format!("no structure map for seed {} (walker: {}): byte faults and truncations only", s.name, e.chars().take(100).collect::<String>())); }
        if dump {
            eprintln!("seed {i} {} {:?}/{} len={} fields={}", s.name, s.kind, s.game.as_str(), s.bytes.len(), gen.states[i].fields.len());
            let _ = std::fs::create_dir_all("/tmp/c16seeds");
            let _ = std::fs::write(format!("/tmp/c16seeds/{}", s.display()), &s.bytes);
        }
    }

    let pool = Pool::new(tier, &digest, n_threads());
    let mut agg = Agg::new(seeds.len());
    let mut cut: Option<String> = None;
    let mut phases_done: Vec<String> = vec![];

    // ---- run a list of cases and fold the results
    let run_cases = |gen: &Gen, agg: &mut Agg, rep: &mut Report, cases: &[Case], what: &str| -> bool {
        if cases.is_empty() { return true; }
        let dk = |c: &Case| format!("{}:{}", seeds[c.seed].fmt(), gen.classes.name(c.class));
        let results = pool.run(cases, deadline, &dk);
        let mut complete = true;
        for (c, r) in cases.iter().zip(results) {
            let Some(r) = r else { complete = false; continue };
            let seed = &seeds[c.seed];
            let fmt = seed.fmt();
            let class = gen.classes.name(c.class).to_string();
            agg.transitions += 1;
            if c.fresh { agg.states += 1; }
            let mut default_class: Option<String> = None;
            match r {
                CaseResult::Done { runs, hwm_mb, slow_confirmed } => {
                    for rr in &runs {
                        agg.evaluations += 1;
                        agg.max_ms = agg.max_ms.max(rr.ms);
                        if rr.ms >= 200 && (agg.slowest.len() < 8 || rr.ms > agg.slowest.last().map_or(0, |x| x.0)) {
                            agg.slowest.push((rr.ms, seed.name.clone(), fault_to_string(&c.ops), run_label(rr.bit).to_string()));
                            agg.slowest.sort_by(|a, b| b.0.cmp(&a.0));
                            agg.slowest.truncate(8);
                        }
                        *agg.outcomes.entry(format!("{fmt}|{}|{}", if rr.bit == RUN_EXTRACT { "extract" } else { "decompile" }, rr.class)).or_insert(0) += 1;
                        if c.ops.is_empty() { agg.seed_class[c.seed].insert(rr.bit, rr.class.clone()); }
                        if rr.bit == RUN_DEFAULT { default_class = Some(rr.class.clone()); }
                        if let Some(sig) = &rr.viol {
                            let kind = if rr.class == "panic" { "panic" } else { "diagnostic" };
                            if kind == "panic" {
                                let site = rr.diag.as_deref().and_then(|d| d.lines().next()).unwrap_or("").trim_start_matches("PANIC ").split(" / ").next().unwrap_or("").to_string();
                                let e = agg.panic_sites.entry(sig.clone()).or_default().entry(site).or_insert((0, u64::MAX, String::new(), String::new(), String::new()));
                                e.0 += 1;
                                if c.id < e.1 { *e = (e.0, c.id, seed.name.clone(), fault_to_string(&c.ops), run_label(rr.bit).to_string()); }
                            }
                            agg.violation(sig.clone(), c.id, || witness(&seeds, c, &class, run_label(rr.bit), kind, json!({"diag": rr.diag})));
                        }
                        if rr.ms > SLOW_MS && seed.bytes.len() < 4096 {
                            // confirm in a fresh worker
                            let one = Case { runs: rr.bit, ..c.clone() };
                            let known = agg.viols.get(&format!("C16:{fmt}:time-or-memory:{class}")).map_or(false, |v| v.count >= 2);
                            let again = if slow_confirmed || known { Some(rr.ms) } else { match run_isolated(tier, &digest, &case_line(&one)) { Iso::Result(CaseResult::Done { runs, .. }) => runs.first().map(|x| x.ms), Iso::Timeout => Some(u64::MAX), _ => None } };
                            if again.map_or(false, |ms| ms > SLOW_MS) {
                                *agg.resource_kinds.entry(format!("{fmt}:slow")).or_insert(0) += 1;
                                agg.violation(format!("C16:{fmt}:time-or-memory:{class}"), c.id, || witness(&seeds, c, &class, run_label(rr.bit), "slow", json!({"cpu_ms": [rr.ms, again], "budget_ms": SLOW_MS})));
                            } else { agg.slow_unconfirmed += 1; }
                        }
                    }
                    if let Some(mb) = hwm_mb {
                        let known = agg.viols.get(&format!("C16:{fmt}:time-or-memory:{class}")).map_or(false, |v| v.count >= 2);
                        let again = if known { Some(mb) } else { match run_isolated(tier, &digest, &case_line(c)) { Iso::Result(CaseResult::Done { hwm_mb, .. }) => hwm_mb, _ => None } };
                        if again.is_some() {
                            *agg.resource_kinds.entry(format!("{fmt}:memory")).or_insert(0) += 1;
                            agg.violation(format!("C16:{fmt}:time-or-memory:{class}"), c.id, || witness(&seeds, c, &class, "all", "memory", json!({"peak_rss_mb": [mb, again], "limit_mb": RSS_LIMIT_MB})));
                        }
                    }
                },
                CaseResult::Died { kind, info } => {
                    agg.evaluations += 1;
                    *agg.outcomes.entry(format!("{fmt}|worker|{kind}")).or_insert(0) += 1;
                    default_class = Some(kind.to_string());
                    let runs: Vec<&str> = RUNS.iter().filter(|r| c.runs & r.0 != 0).map(|r| r.1).collect();
                    *agg.resource_kinds.entry(format!("{fmt}:{kind}")).or_insert(0) += 1;
                    // a worker death is `abort`; no answer within the timeout is folded with slow / peak-RSS cases (which of the
                    // three is observed for one root cause depends on machine speed)
                    let sig_kind = if kind == "timeout" { "time-or-memory" } else { kind };
                    agg.violation(format!("C16:{fmt}:{sig_kind}:{class}"), c.id, || witness(&seeds, c, &class, &runs.join(","), kind, json!({"death": info})));
                },
                CaseResult::Broken(e) => { agg.broken += 1; if agg.broken <= 5 { rep.machinery_errors.push(format!("case {} ({}): {e}", c.id, fault_to_string(&c.ops))); } },
            }
            if !c.ops.is_empty() {
                if let (Some(d), Some(base)) = (default_class, agg.seed_class[c.seed].get(&RUN_DEFAULT)) { if &d != base { agg.nontrivial += 1; } }
            }
        }
        let _ = what;
        complete
    };

    // ---- phase 0: the unfaulted seeds (their outcome classes are the baseline of the non-trivial rule)
    let mut base_cases = vec![];
    for i in 0..seeds.len() { base_cases.extend(gen.baseline(i)); }
    if !run_cases(&gen, &mut agg, &mut rep, &base_cases, "baseline") { cut = Some("wall cap during the baseline phase".into()); }
    for (i, s) in seeds.iter().enumerate() {
        let cls = agg.seed_class[i].get(&RUN_DEFAULT).cloned().unwrap_or_else(|| "<not run>".into());
        if dump { eprintln!("seed {} baseline: {:?}", s.name, agg.seed_class[i]); }
        if !cls.starts_with("ok") { rep.discard(&format!("seed {} itself does not decompile cleanly: {}", s.name, cls.chars().take(120).collect::<String>())); }
    }
    if cut.is_none() { phases_done.push(format!("baseline({} seeds)", seeds.len())); }

    // ---- phase A: truncations, field faults, string faults, 7-value byte faults of every seed
    let order: Vec<usize> = { let mut v: Vec<usize> = (0..seeds.len()).collect(); v.sort_by_key(|&i| (seeds[i].bytes.len(), i)); v };
    if cut.is_none() {
        // all seeds in one case list (no barrier between seeds); ordered smallest seed first
        let mut cases = vec![];
        for &i in &order { cases.extend(gen.primary(i, false)); }
        if dump { eprintln!("phase A: {} cases", cases.len()); }
        if run_cases(&gen, &mut agg, &mut rep, &cases, "primary") { phases_done.push("A: every seed x {truncation@every offset, 13 field values per field, string faults, whole-table fills, every offset x 7 byte values}; all option sets on truncations/field/table faults".into()); }
        else { cut = Some("wall cap during phase A (primary faults)".into()); }
    }

    if thorough && cut.is_none() {
        // ---- phase B: every option set on the byte faults too
        let mut cases = vec![];
        for &i in &order { cases.extend(gen.primary(i, true)); }
        if run_cases(&gen, &mut agg, &mut rep, &cases, "primary-all-options") { phases_done.push("B: all option sets on every fault of phase A".into()); }
        else { cut = Some("wall cap during phase B (all option sets on byte faults)".into()); }
    }
    if thorough && cut.is_none() {
        // ---- phase C: every offset x all 256 byte values on the 3 smallest seeds per format
        let mut cases = vec![];
        let mut per_fmt: BTreeMap<&str, usize> = BTreeMap::new();
        let mut chosen = vec![];
        for &i in &order { let k = per_fmt.entry(seeds[i].fmt()).or_insert(0); if *k < 3 { *k += 1; chosen.push(seeds[i].name.clone()); cases.extend(gen.all_values(i)); } }
        if run_cases(&gen, &mut agg, &mut rep, &cases, "all-256") { phases_done.push(format!("C: every offset x 256 byte values on {}", chosen.join(","))); }
        else { cut = Some("wall cap during phase C (256 values per offset)".into()); }
    }
    if thorough && cut.is_none() {
        // ---- phase D: pairs of field faults on the small seeds, seed by seed, smallest first
        let small: Vec<usize> = order.iter().copied().filter(|&i| seeds[i].bytes.len() <= 1700 && !gen.states[i].fields.is_empty()).collect();
        let mut done = 0;
        let mut capped_seeds = vec![];
        for &i in &small {
            if Instant::now() > deadline { cut = Some(format!("wall cap during phase D (field-fault pairs): {done}/{} seeds", small.len())); break; }
            let (cases, capped) = gen.pairs(i, 400_000);
            if capped { capped_seeds.push(seeds[i].name.clone()); }
            if !run_cases(&gen, &mut agg, &mut rep, &cases, "pairs") { cut = Some(format!("wall cap during phase D (field-fault pairs): {done}/{} seeds", small.len())); break; }
            gen.states[i].done = HashMap::new(); // this seed is finished: release its dedupe table
            done += 1;
        }
        if cut.is_none() { phases_done.push(format!("D: pairs of field faults (5 values each) on {} seeds <= 1700 bytes{}", small.len(), if capped_seeds.is_empty() { String::new() } else { format!("; capped at 400k pairs for {}", capped_seeds.join(",")) })); }
    }
    pool.shutdown();

    // ---- fold into the report
    for e in pool.machinery.lock().unwrap().iter() { rep.machinery_errors.push(e.clone()); }
    rep.evaluations = agg.evaluations;
    rep.transitions = agg.transitions;
    rep.states = agg.states; // distinct faulted byte strings actually executed (generated: gen.distinct)
    rep.extra.insert("distinct_inputs_generated".into(), json!(gen.distinct));
    rep.nontrivial = agg.nontrivial;
    rep.traces_validated = 0;
    for (k, n) in &agg.outcomes { rep.outcome_n(k, *n); }
    rep.discarded.insert("generated faults byte-identical to an already scheduled input (deduplicated)".into(), gen.duplicates);
    let mut counts = serde_json::Map::new();
    for (sig, v) in &agg.viols {
        counts.insert(sig.clone(), json!(v.count));
        rep.fail(sig.clone(), v.detail.clone());
    }
    rep.extra.insert("failure_counts".into(), Value::Object(counts));
    rep.extra.insert("panic_sites".into(), json!(agg.panic_sites.iter().map(|(sig, sites)| (sig.clone(), json!(sites.iter().map(|(site, v)| json!({"site": site, "count": v.0, "seed": v.2, "fault": v.3, "run": v.4})).collect::<Vec<_>>()))).collect::<serde_json::Map<_, _>>()));
    rep.extra.insert("resource_kinds".into(), json!(agg.resource_kinds));
    rep.extra.insert("slowest_runs".into(), json!(agg.slowest.iter().map(|x| json!({"ms": x.0, "seed": x.1, "fault": x.2, "run": x.3})).collect::<Vec<_>>()));
    rep.extra.insert("seeds".into(), json!(seeds.iter().enumerate().map(|(i, s)| json!({"name": s.name, "format": s.fmt(), "game": s.game.as_str(), "len": s.bytes.len(), "fields": gen.states[i].fields.len(), "baseline": agg.seed_class[i].get(&RUN_DEFAULT)})).collect::<Vec<_>>()));
    rep.extra.insert("workers".into(), json!({"n": pool.slots.len(), "spawned": pool.respawns.load(Ordering::Relaxed), "address_space_limit_kib": ULIMIT_V_KIB, "answer_timeout_s": ANSWER_TIMEOUT.as_secs(), "slow_unconfirmed": agg.slow_unconfirmed, "timeouts_not_reproduced_heavy_case_under_load": pool.unconfirmed_timeouts.load(Ordering::Relaxed), "max_run_ms": agg.max_ms}));
    // samples: a few fault descriptors
    for (k, c) in base_cases.iter().take(2).enumerate() { let _ = k; rep.sample(json!({"seed": seeds[c.seed].name, "fault": "n (unfaulted seed)", "runs": c.runs})); }
    {
        let mut g2 = Gen::new(&seeds[..1]);
        let cs = g2.primary(0, false);
        let n = cs.len();
        for idx in [0, n / 5, 2 * n / 5, 3 * n / 5, 4 * n / 5, n.saturating_sub(1)] {
            if let Some(c) = cs.get(idx) { rep.sample(json!({"seed": seeds[0].name, "fault": fault_to_string(&c.ops), "class": g2.classes.name(c.class), "runs": RUNS.iter().filter(|r| c.runs & r.0 != 0).map(|r| r.1).collect::<Vec<_>>() })); }
        }
    }
    rep.cap_hit = cut;
    rep.exhaustive = rep.cap_hit.is_none();
    rep.bound_completed = phases_done.join(" | ");
    rep.assumptions = vec![
        "the fault space is the enumerated one (single faults, and pairs of field faults in the thorough tier), not all byte strings".into(),
        "in-process drivers mirror cli_def::*::run (core mapfile of the game, no user mapfiles); dev-profile semantics (overflow checks, debug assertions) define 'panic'".into(),
        format!("memory is judged by worker death under an {} GiB address-space limit and by peak RSS > {} MiB; time by {} s of CPU time per run (inputs < 4 KiB) and {} s without an answer; time/RSS cases are confirmed in a fresh worker and share the signature class time-or-memory", ULIMIT_V_KIB >> 20, RSS_LIMIT_MB, SLOW_MS / 1000, ANSWER_TIMEOUT.as_secs()),
        "stack-based TH10+ ECL has no independent walker: byte faults and truncations only".into(),
    ];
    rep.explanation = "Every enumerated fault of every seed was applied and the real reader + decompiler (4 option sets) + ANM image extraction were run on it in isolated worker processes; a violation is a panic, a worker death (abort) or timeout / over-budget run / RSS blow-up (time-or-memory) reproduced in a fresh worker, an Err without an error-severity diagnostic, or an error diagnostic that does not name the input file. One failure is reported per signature with the first (smallest-seed) witness; per-signature counts are in failure_counts.".into();
    rep
}

// =============================================================================================
// replay

pub fn replay(detail: &Value) -> i32 {
    let (seeds, _notes, _errors) = build_seeds();
    let digest = seeds_digest(&seeds);
    let name = detail["seed"].as_str().unwrap_or("");
    let Some(si) = seeds.iter().position(|s| s.name == name) else { println!("replay: unknown seed {name:?}"); return 2 };
    let fault = detail["fault"].as_str().unwrap_or("n");
    let ops = match fault_from_string(fault) { Ok(o) => o, Err(e) => { println!("replay: {e}"); return 2 } };
    let mut runs: u8 = 0;
    for l in detail["run"].as_str().unwrap_or("default").split(',') { if l == "all" { runs |= seeds[si].all_runs(); } else if let Some(b) = run_bit_of(l) { runs |= b; } }
    if runs == 0 { runs = RUN_DEFAULT; }
    let c = Case { id: 0, seed: si, ops, class: 0, runs, fresh: true };
    let bytes = apply_fault(&seeds[si].bytes, &c.ops);
    println!("replay C16: seed {} ({} {}, {} bytes), fault {}, runs {:?}, input {} bytes", name, seeds[si].fmt(), seeds[si].game.as_str(), seeds[si].bytes.len(), fault, detail["run"], bytes.len());
    if bytes.len() <= 768 { println!("  input hex: {}", hex(&bytes)); }
    let kind = detail["kind"].as_str().unwrap_or("");
    match run_isolated("quick", &digest, &case_line(&c)) {
        Iso::Died(info) => { println!("  worker DIED: {info}"); drive::cleanup_scratch(); 1 },
        Iso::Timeout => { println!("  worker did not answer within {} s (killed)", ANSWER_TIMEOUT.as_secs() + 10); drive::cleanup_scratch(); 1 },
        Iso::Machinery(e) => { println!("  machinery error: {e}"); drive::cleanup_scratch(); 2 },
        Iso::Result(CaseResult::Done { runs, hwm_mb, .. }) => {
            let mut bad = false;
            for r in &runs {
                println!("  run {:<12} -> class {:?} ({} ms){}", run_label(r.bit), r.class, r.ms, r.viol.as_ref().map(|v| format!("  VIOLATION {v}")).unwrap_or_default());
                if let Some(d) = &r.diag { for l in d.lines() { println!("      | {l}"); } }
                if r.viol.is_some() { bad = true; }
                if r.ms > SLOW_MS && seeds[si].bytes.len() < 4096 { println!("      SLOW"); bad = true; }
            }
            if let Some(mb) = hwm_mb { println!("  peak RSS {mb} MiB > {RSS_LIMIT_MB} MiB"); bad = true; }
            if !bad && (kind == "abort" || kind == "timeout") { println!("  the worker survived this time"); }
            drive::cleanup_scratch();
            if bad { 1 } else { 0 }
        },
        Iso::Result(CaseResult::Died { kind, info }) => { println!("  {kind}: {info}"); drive::cleanup_scratch(); 1 },
        Iso::Result(CaseResult::Broken(e)) => { println!("  machinery error: {e}"); drive::cleanup_scratch(); 2 },
    }
}
