//! C13: every instruction gets exactly the time its labels say (compile direction), and the
//! decompiler emits labels that reproduce exactly the stored times (decompile direction).
//! Reference model M3: t := 0; `N:` => t := N; `+N:` => t := t (+) N (32-bit wrap); otherwise inherit.

use std::collections::BTreeSet;
use serde_json::json;
use truth::llir::RawInstr;

use crate::common::*;
use crate::tl::{self, *};

// ---------------------------------------------------------------------------------------------
// compile direction

#[derive(Debug, Clone)]
enum Item {
    Abs(i32),
    Rel(&'static str, i32),    // (source text of N, value)
    Marker(u32),
    Loop(Vec<Item>),
    If(Vec<Item>),
    Times(Vec<Item>),
    Free(Vec<Item>),
    /// a function definition nested in the body (never called): its own time labels must not leak into the enclosing body
    Func(u32, Vec<Item>),
    /// a `const` item between statements
    ConstItem(u32),
    /// a block whose condition is a compile-time constant (`if (0)`, `if (1)`, `while (0)`): whatever the compiler does with the
    /// dead or unconditional code, the time labels inside still count for everything after it
    ConstCond(&'static str, Vec<Item>),
}

fn gen_items(ch: &mut Chooser, n_items: usize, depth: u32, marker: &mut u32) -> Vec<Item> {
    let mut v = vec![];
    for _ in 0..n_items {
        let mut kinds = vec!["marker", "rel", "abs"];
        if depth > 0 { kinds.extend(["loop", "if", "times", "free", "func", "constcond"]); }
        kinds.push("const");
        let k = kinds[ch.pick(kinds.len())];
        v.push(match k {
            "marker" => { *marker += 1; Item::Marker(*marker) },
            "rel" => { let (t, n) = [("1", 1), ("0", 0), ("5", 5), ("(2*3)", 6), ("2147483647", 2147483647), ("(1+2)", 3)][ch.pick(6)]; Item::Rel(t, n) },
            "abs" => Item::Abs([5, 0, -1, -5, 10, 2147483647][ch.pick(6)]),
            "const" => { *marker += 1; Item::ConstItem(*marker) },
            _ => {
                let n = 1 + ch.pick(3);
                let inner = gen_items(ch, n, depth - 1, marker);
                match k { "loop" => Item::Loop(inner), "if" => Item::If(inner), "times" => Item::Times(inner), "func" => { *marker += 1; Item::Func(*marker, inner) },
                    "constcond" => Item::ConstCond(["if (0)", "if (1)", "while (0)", "unless (1)", "if (2 - 2)"][ch.pick(5)], inner), _ => Item::Free(inner) }
            },
        });
    }
    v
}

fn render(items: &[Item], out: &mut String) {
    for it in items {
        match it {
            Item::Abs(n) => out.push_str(&format!("{n}: ")),
            Item::Rel(t, _) => out.push_str(&format!("+{t}: ")),
            Item::Marker(k) => out.push_str(&format!("mS({k}); ")),
            Item::Loop(b) => { out.push_str("loop { "); render(b, out); out.push_str("} "); },
            Item::If(b) => { out.push_str("if (A == 0) { "); render(b, out); out.push_str("} "); },
            Item::Times(b) => { out.push_str("times(2) { "); render(b, out); out.push_str("} "); },
            Item::Free(b) => { out.push_str("{ "); render(b, out); out.push_str("} "); },
            Item::Func(k, b) => { out.push_str(&format!("inline void h{k}() {{ ")); render(b, out); out.push_str("} "); },
            Item::ConstItem(k) => out.push_str(&format!("const int KK{k} = {k}; ")),
            Item::ConstCond(c, b) => { out.push_str(&format!("{c} {{ ")); render(b, out); out.push_str("} "); },
        }
    }
}

/// Expected emitted instruction sequence as (kind, time, optional jump-time-arg)
#[derive(Debug, Clone, PartialEq)]
enum Exp { Marker(u32, i32), CondJmpToEnd { time: i32, target_time: i32 }, BackJmp { time: i32, target_time: i32 }, Assign(i32), CountJmp { time: i32, target_time: i32 } }

fn m3(items: &[Item], t: &mut i32, out: &mut Vec<Exp>) {
    for it in items {
        match it {
            Item::Abs(n) => *t = *n,
            Item::Rel(_, n) => *t = ((*t as i64 + *n as i64) as i32), // 32-bit wrap via truncation
            Item::Marker(k) => out.push(Exp::Marker(*k, *t)),
            Item::Free(b) => m3(b, t, out),
            Item::Func(..) | Item::ConstItem(_) => {},
            // (markers inside are emitted or not, jumps may or may not be generated: only the markers OUTSIDE are compared, see
            //  `has_const_cond`; the labels inside advance the clock like any others)
            Item::ConstCond(_, b) => { let mut dead = vec![]; m3(b, t, &mut dead); for e in dead { if let Exp::Marker(k, tm) = e { out.push(Exp::Marker(if k >= 1_000_000 { k } else { k + 1_000_000 }, tm)); } } },
            Item::Loop(b) => { let t0 = *t; m3(b, t, out); out.push(Exp::BackJmp { time: *t, target_time: t0 }); },
            Item::If(b) => {
                let t0 = *t;
                let idx = out.len();
                out.push(Exp::CondJmpToEnd { time: t0, target_time: 0 });
                m3(b, t, out);
                out[idx] = Exp::CondJmpToEnd { time: t0, target_time: *t };
            },
            Item::Times(b) => { let t0 = *t; out.push(Exp::Assign(t0)); m3(b, t, out); out.push(Exp::CountJmp { time: *t, target_time: t0 }); },
        }
    }
}

fn check_compile(table: &Table, mapfile: &str, body: &str, expected: &[Exp]) -> (String, Vec<Failure>) {
    let detail = |extra: serde_json::Value| json!({"family": "compile", "body": body, "info": extra});
    let hooks = make_language(&Pool { ints: 4, floats: 4 }, false);
    let r = catch(|| with_truth(mapfile, |truth| {
        let mut block = front_end(truth, body, true).map_err(|(s, d)| format!("rejected:{s}:{d}"))?;
        tl::const_simplify(truth, &mut block).map_err(|d| format!("rejected:const_simplify:{d}"))?;
        let des = desugar(truth, &block).map_err(|d| format!("rejected:desugar:{d}"))?;
        let (instrs, _) = tl::lower(truth, &hooks, &des.0, false).map_err(|d| format!("rejected:lower:{d}"))?;
        Ok::<_, String>(instrs)
    }));
    let instrs = match r {
        Err(p) => return ("panic".into(), vec![Failure { signature: format!("C13:{}", p.signature()), detail: detail(json!({"panic": p.text})) }]),
        Ok(Err(e)) => {
            let class = e.split(':').take(2).collect::<Vec<_>>().join(":");
            // all generated programs are legal: a rejection is a finding
            return (class.clone(), vec![Failure { signature: format!("C13:{}:{}", class, e.lines().next().unwrap_or("").chars().filter(|c| !c.is_ascii_digit()).take(80).collect::<String>()), detail: detail(json!({"diag": e})) }]);
        },
        Ok(Ok(i)) => i,
    };
    // decode emitted stream with the harness's own table knowledge
    let mut got = vec![];
    let marker_op = table.opcode_of_name("mS");
    for ins in &instrs {
        let e = table.get(ins.opcode);
        let kind = e.and_then(|e| e.kind);
        let args = e.map(|e| decode_args(&e.sig, ins)).unwrap_or(Err("unknown opcode".into()));
        let args = match args { Ok(a) => a, Err(e) => return ("undecodable".into(), vec![Failure { signature: format!("C13:undecodable:{body}"), detail: detail(json!({"error": e})) }]) };
        let targ = args.iter().find(|(c, _)| *c == 't').map(|(_, a)| if let Arg::Imm(v) = a { v.as_int() } else { i32::MIN });
        if ins.opcode == marker_op {
            let k = if let Arg::Imm(v) = &args[0].1 { v.as_int() as u32 } else { 0 };
            got.push(Exp::Marker(k, ins.time));
        } else {
            match kind {
                Some(K::Jmp) => got.push(Exp::BackJmp { time: ins.time, target_time: targ.unwrap_or(i32::MIN) }),
                Some(K::CondJmp(..)) => got.push(Exp::CondJmpToEnd { time: ins.time, target_time: targ.unwrap_or(i32::MIN) }),
                Some(K::CountJmpNe) | Some(K::CountJmpGt) => got.push(Exp::CountJmp { time: ins.time, target_time: targ.unwrap_or(i32::MIN) }),
                Some(K::Assign("=", false)) => got.push(Exp::Assign(ins.time)),
                other => return ("unexpected-instr".into(), vec![Failure { signature: format!("C13:unexpected-instr:{body}"), detail: detail(json!({"kind": format!("{:?}", other), "instrs": fmt_instrs(&instrs)})) }]),
            }
        }
    }
    // bodies with constant-condition blocks: the compiler may drop dead code and need not emit the block's jumps, so only the
    // markers outside those blocks are compared (those inside are tagged +1 000 000 by the model)
    let has_const_cond = expected.iter().any(|e| matches!(e, Exp::Marker(k, _) if *k >= 1_000_000)) || body.contains("if (0)") || body.contains("if (1)") || body.contains("while (0)") || body.contains("unless (1)") || body.contains("if (2 - 2)");
    let (got, expected): (Vec<Exp>, Vec<Exp>) = if has_const_cond {
        let inner: BTreeSet<u32> = expected.iter().filter_map(|e| if let Exp::Marker(k, _) = e { if *k >= 1_000_000 { Some(*k - 1_000_000) } else { None } } else { None }).collect();
        (got.into_iter().filter(|e| matches!(e, Exp::Marker(k, _) if !inner.contains(k))).collect(), expected.iter().filter(|e| matches!(e, Exp::Marker(k, _) if *k < 1_000_000)).cloned().collect())
    } else { (got, expected.to_vec()) };
    if got != expected {
        return ("mismatch".into(), vec![Failure { signature: format!("C13:compile-times:{body}"), detail: detail(json!({"expected": format!("{:?}", expected), "got": format!("{:?}", got), "instrs": fmt_instrs(&instrs)})) }]);
    }
    ("ok".into(), vec![])
}

// ---------------------------------------------------------------------------------------------
// decompile direction

const STORED_TIMES: [i32; 8] = [0, 5, -1, 1, -2, 32767, -32768, 10];

/// Build a stream of marker instructions with the given times, plus jumps: (position, target index, time-arg mode)
fn build_stream(table: &Table, times: &[i32], jumps: &[(usize, usize, u8)]) -> Vec<RawInstr> {
    let marker_op = table.opcode_of_name("mS");
    let jmp_op = table.entries.iter().find(|e| e.kind == Some(K::Jmp)).unwrap().opcode;
    // instrs: each position i is either marker or jump; all have blob size: marker 4, jump 8
    let n = times.len();
    let is_jump: Vec<Option<(usize, u8)>> = (0..n).map(|i| jumps.iter().find(|j| j.0 == i).map(|j| (j.1, j.2))).collect();
    let sizes: Vec<u64> = (0..n).map(|i| if is_jump[i].is_some() { 12 } else { 8 }).collect();
    let mut offs = vec![0u64]; for s in &sizes { offs.push(offs.last().unwrap() + s); }
    (0..n).map(|i| {
        match is_jump[i] {
            None => RawInstr { time: times[i], opcode: marker_op, args_blob: (i as i32 + 1).to_le_bytes().to_vec(), ..RawInstr::DEFAULTS },
            Some((target, mode)) => {
                let target_time = if target < n { times[target] } else { *times.last().unwrap() };
                let t = match mode { 0 => target_time, 1 => if target > 0 { times[target - 1] } else { 0 }, _ => 77 };
                let mut blob = (offs[target] as i32).to_le_bytes().to_vec();
                blob.extend(t.to_le_bytes());
                RawInstr { time: times[i], opcode: jmp_op, args_blob: blob, ..RawInstr::DEFAULTS }
            },
        }
    }).collect()
}

/// M3 applied to decompiled text: returns the time of each statement line that is an instruction.
fn m3_on_text(text: &str) -> Result<Vec<i32>, String> {
    let mut t: i32 = 0;
    let mut out = vec![];
    for line in text.lines() {
        let s = line.split("//").next().unwrap_or("").trim();
        if s.is_empty() || s == "{" || s == "}" { continue; }
        if let Some(lab) = s.strip_suffix(':') {
            if let Some(rel) = lab.strip_prefix('+') {
                let n: i64 = rel.parse().map_err(|_| format!("cannot parse relative label {s}"))?;
                t = (t as i64 + n) as i32;
                continue;
            }
            if let Ok(n) = lab.parse::<i64>() { t = n as i32; continue; }
            continue; // ordinary label
        }
        if s.ends_with('{') || s.starts_with('}') { return Err(format!("unexpected block syntax in flat decompile: {s}")); }
        out.push(t);
    }
    Ok(out)
}

fn check_decompile(table: &Table, mapfile: &str, times: &[i32], jumps: &[(usize, usize, u8)]) -> (String, Vec<Failure>) {
    let instrs = build_stream(table, times, jumps);
    let detail = |extra: serde_json::Value| json!({"family": "decompile", "times": times, "jumps": jumps.iter().map(|j| vec![j.0 as i64, j.1 as i64, j.2 as i64]).collect::<Vec<_>>(), "info": extra});
    let hooks = make_language(&Pool { ints: 4, floats: 4 }, false);
    let sigbase = format!("times={:?} jumps={:?}", times, jumps);
    let r = catch(|| with_truth(mapfile, |truth| {
        let options = truth::llir::DecompileOptions { blocks: false, ..Default::default() };
        let block = tl::raise(truth, &hooks, &instrs, &options).map_err(|d| format!("raise failed: {d}"))?;
        let diag = truth.get_captured_diagnostics().unwrap_or_default();
        Ok::<_, String>((truth::fmt::stringify(&block), diag))
    }));
    let (text, diag) = match r {
        Err(p) => return ("panic".into(), vec![Failure { signature: format!("C13:{}", p.signature()), detail: detail(json!({"panic": p.text})) }]),
        Ok(Err(e)) => return ("raise-failed".into(), vec![Failure { signature: format!("C13:raise-failed:{sigbase}"), detail: detail(json!({"error": e})) }]),
        Ok(Ok(x)) => x,
    };
    if !diag.is_empty() { return ("decompile-warned".into(), vec![]); }
    // (1) M3 on the printed text reproduces the stored times
    match m3_on_text(&text) {
        Err(e) => return ("text-unparsed".into(), vec![Failure { signature: format!("C13:text:{sigbase}"), detail: detail(json!({"error": e, "text": text})) }]),
        Ok(ts) => {
            if ts != times { return ("mismatch".into(), vec![Failure { signature: format!("C13:decompile-times:{sigbase}"), detail: detail(json!({"model_times_from_text": ts, "text": text})) }]); }
        }
    }
    // (2) recompiling gives the same times and jump args bit for bit
    let r = catch(|| with_truth(mapfile, |truth| {
        let block = front_end(truth, &text, true).map_err(|(s, d)| format!("reparse rejected at {s}: {d}"))?;
        let des = desugar(truth, &block).map_err(|d| format!("desugar: {d}"))?;
        let (instrs2, _) = tl::lower(truth, &hooks, &des.0, false).map_err(|d| format!("lower: {d}"))?;
        Ok::<_, String>(instrs2)
    }));
    match r {
        Err(p) => ("panic".into(), vec![Failure { signature: format!("C13:{}", p.signature()), detail: detail(json!({"panic": p.text, "text": text})) }]),
        Ok(Err(e)) => ("recompile-failed".into(), vec![Failure { signature: format!("C13:recompile-failed:{sigbase}"), detail: detail(json!({"error": e, "text": text})) }]),
        Ok(Ok(instrs2)) => {
            if instrs2 != instrs {
                ("recompile-differs".into(), vec![Failure { signature: format!("C13:recompile-differs:{sigbase}"), detail: detail(json!({"text": text, "original": fmt_instrs(&instrs), "recompiled": fmt_instrs(&instrs2)})) }])
            } else { ("ok".into(), vec![]) }
        }
    }
}


// ---------------------------------------------------------------------------------------------
// decompile direction, family (r): instruction runs that the decompiler may fold into ONE statement (per-difficulty
// copies of one instruction -> a difficulty switch), with every assignment of stored times to the run.  A folded
// statement has one time, so folding instructions whose times differ loses a time.  Oracle: recompiling the printed
// text reproduces every RawInstr (time included) bit for bit.

const RUN_TILINGS: [&[u8]; 9] = [
    &[0xF1, 0xFE], &[0xF3, 0xFC], &[0xF7, 0xF8],
    &[0xF1, 0xF2, 0xFC], &[0xF1, 0xF6, 0xF8], &[0xF3, 0xF4, 0xF8],
    &[0xF1, 0xF2, 0xF4, 0xF8],
    &[0xF1, 0xF2, 0xF4],          // incomplete tiling
    &[0xFF, 0xF1, 0xFE],          // unlabelled instruction first
];
const RUN_TIMES: [i32; 3] = [10, 15, 0];

fn check_decompile_run(table: &Table, masks: &[u8], times: &[i32], same_vals: bool, tail_time: i32) -> (String, Vec<Failure>) {
    let mapfile = format!("{}!difficulty_flags\n0 E-\n1 N-\n2 H-\n3 L-\n4 4+\n5 5+\n6 6+\n7 7+\n", table.mapfile_text(REGS));
    let ms = table.opcode_of_name("mS");
    let mut instrs: Vec<RawInstr> = masks.iter().zip(times).enumerate().map(|(i, (&m, &t))| RawInstr { time: t, opcode: ms, difficulty: m, args_blob: (if same_vals { 7 } else { 7 + i as i32 }).to_le_bytes().to_vec(), ..RawInstr::DEFAULTS }).collect();
    instrs.push(RawInstr { time: tail_time, opcode: table.opcode_of_name("m0"), ..RawInstr::DEFAULTS });
    let detail = |extra: serde_json::Value| json!({"family": "decompile-run", "masks": masks, "times": times, "same_vals": same_vals, "tail_time": tail_time, "info": extra});
    let sigbase = format!("masks={:02x?} times={:?} tail={} same_vals={}", masks, times, tail_time, same_vals);
    let hooks = make_language(&Pool { ints: 4, floats: 4 }, false);
    let r = catch(|| with_truth(&mapfile, |truth| {
        let options = truth::llir::DecompileOptions { blocks: false, ..Default::default() };
        let block = tl::raise(truth, &hooks, &instrs, &options).map_err(|d| format!("raise failed: {d}"))?;
        let diag = truth.get_captured_diagnostics().unwrap_or_default();
        Ok::<_, String>((truth::fmt::stringify(&block), diag))
    }));
    let (text, diag) = match r {
        Err(p) => return ("panic".into(), vec![Failure { signature: format!("C13:{}", p.signature()), detail: detail(json!({"panic": p.text})) }]),
        Ok(Err(e)) => return ("raise-failed".into(), vec![Failure { signature: format!("C13:run-raise-failed:{sigbase}"), detail: detail(json!({"error": e})) }]),
        Ok(Ok(x)) => x,
    };
    if !diag.is_empty() { return ("decompile-warned".into(), vec![]); }
    let folded = text.matches("mS(").count() + text.matches(&format!("ins_{ms}(")).count() < masks.len();
    let r = catch(|| with_truth(&mapfile, |truth| {
        let block = front_end(truth, &text, true).map_err(|(s, d)| format!("reparse rejected at {s}: {d}"))?;
        tl::validate_difficulty(truth, &hooks, &block)?;
        let des = desugar(truth, &block).map_err(|d| format!("desugar: {d}"))?;
        let (instrs2, _) = tl::lower(truth, &hooks, &des.0, false).map_err(|d| format!("lower: {d}"))?;
        Ok::<_, String>(instrs2)
    }));
    match r {
        Err(p) => ("panic".into(), vec![Failure { signature: format!("C13:{}", p.signature()), detail: detail(json!({"panic": p.text, "text": text})) }]),
        Ok(Err(e)) => ("recompile-failed".into(), vec![Failure { signature: format!("C13:run-recompile-failed:{sigbase}"), detail: detail(json!({"error": e, "text": text})) }]),
        Ok(Ok(instrs2)) => {
            if instrs2 != instrs {
                let only_times = instrs2.len() == instrs.len() && instrs2.iter().zip(&instrs).all(|(a, b)| a.opcode == b.opcode && a.args_blob == b.args_blob && a.difficulty == b.difficulty);
                ("recompile-differs".into(), vec![Failure { signature: format!("C13:{}:{sigbase}", if only_times { "folded-run-loses-a-time" } else { "run-recompile-differs" }), detail: detail(json!({"text": text, "original": fmt_instrs(&instrs), "recompiled": fmt_instrs(&instrs2)})) }])
            } else { (if folded { "run-folded-ok".into() } else { "run-kept-ok".into() }, vec![]) }
        }
    }
}


// family (r2): a two-part conditional jump (dedicated cmp + jmp instructions) is printed as ONE `if (...) goto` statement.
// Take the compiled pair and give the two halves every combination of stored times and difficulty masks, and
// optionally make another jump land between them.  Oracle: as for (r).
fn check_decompile_pair(t_cmp: i32, t_jmp: i32, d_cmp: u8, d_jmp: u8, retarget: u8) -> (String, Vec<Failure>) {
    let table = Table::new(&TableCfg { two_part_cmp: true, ..TableCfg::FULL });
    let mapfile = format!("{}!difficulty_flags\n0 E-\n1 N-\n2 H-\n3 L-\n4 4+\n5 5+\n6 6+\n7 7+\n", table.mapfile_text(REGS));
    let hooks = make_language(&Pool { ints: 4, floats: 4 }, false);
    let src = if retarget == 0 { "{ mS(1); if (A < 5) goto L1; mS(2); L1: m0(); }" } else { "{ mS(1); if (A < 5) goto L1; mS(2); L1: goto L1; }" };
    let detail = |extra: serde_json::Value| json!({"family": "decompile-pair", "t_cmp": t_cmp, "t_jmp": t_jmp, "d_cmp": d_cmp, "d_jmp": d_jmp, "retarget": retarget, "info": extra});
    let sigbase = format!("t=({t_cmp},{t_jmp}) d=({d_cmp:02x},{d_jmp:02x}) retarget={retarget}");
    let base = catch(|| with_truth(&mapfile, |truth| {
        let block = front_end(truth, src, true).map_err(|(s, d)| format!("{s}: {d}"))?;
        let des = desugar(truth, &block)?;
        let (i, _) = tl::lower(truth, &hooks, &des.0, false)?;
        Ok::<_, String>(i)
    }));
    let mut instrs = match base { Ok(Ok(i)) if i.len() == 5 => i, other => return ("machinery".into(), vec![Failure { signature: "C13:pair-base-program-did-not-compile-to-5-instructions".into(), detail: detail(json!({"got": format!("{:?}", other.map(|r| r.map(|i| fmt_instrs(&i))))})) }]) };
    instrs[1].time = t_cmp; instrs[2].time = t_jmp; instrs[1].difficulty = d_cmp; instrs[2].difficulty = d_jmp;
    // keep times non-decreasing afterwards so that only the pair is unusual
    let t_after = t_cmp.max(t_jmp); instrs[3].time = t_after; instrs[4].time = t_after;
    if retarget > 0 {
        let mut offs = vec![0i32]; for i in &instrs { offs.push(offs.last().unwrap() + 4 + i.args_blob.len() as i32); }
        let target = if retarget == 1 { 2 } else { 1 };
        instrs[4].args_blob[0..4].copy_from_slice(&offs[target].to_le_bytes());
    }
    let r = catch(|| with_truth(&mapfile, |truth| {
        let options = truth::llir::DecompileOptions { blocks: false, ..Default::default() };
        let block = tl::raise(truth, &hooks, &instrs, &options).map_err(|d| format!("raise failed: {d}"))?;
        let diag = truth.get_captured_diagnostics().unwrap_or_default();
        Ok::<_, String>((truth::fmt::stringify(&block), diag))
    }));
    let (text, diag) = match r {
        Err(p) => return ("panic".into(), vec![Failure { signature: format!("C13:{}", p.signature()), detail: detail(json!({"panic": p.text})) }]),
        Ok(Err(e)) => return ("raise-failed".into(), vec![Failure { signature: format!("C13:pair-raise-failed:{sigbase}"), detail: detail(json!({"error": e})) }]),
        Ok(Ok(x)) => x,
    };
    if !diag.is_empty() { return ("decompile-warned".into(), vec![]); }
    let folded = text.contains("if (");
    let r = catch(|| with_truth(&mapfile, |truth| {
        let block = front_end(truth, &text, true).map_err(|(s, d)| format!("reparse rejected at {s}: {d}"))?;
        tl::validate_difficulty(truth, &hooks, &block)?;
        let des = desugar(truth, &block).map_err(|d| format!("desugar: {d}"))?;
        let (instrs2, _) = tl::lower(truth, &hooks, &des.0, false).map_err(|d| format!("lower: {d}"))?;
        Ok::<_, String>(instrs2)
    }));
    match r {
        Err(p) => ("panic".into(), vec![Failure { signature: format!("C13:{}", p.signature()), detail: detail(json!({"panic": p.text, "text": text})) }]),
        Ok(Err(e)) => ("recompile-failed".into(), vec![Failure { signature: format!("C13:pair-recompile-failed:{sigbase}"), detail: detail(json!({"error": e, "text": text})) }]),
        Ok(Ok(instrs2)) => {
            if instrs2 != instrs { ("recompile-differs".into(), vec![Failure { signature: format!("C13:pair-recompile-differs:{sigbase}"), detail: detail(json!({"text": text, "original": fmt_instrs(&instrs), "recompiled": fmt_instrs(&instrs2)})) }]) }
            else { (if folded { "pair-folded-ok".into() } else { "pair-kept-ok".into() }, vec![]) }
        }
    }
}

fn gen_compile_case(ch: &mut Chooser, n: usize, depth: u32) -> (String, Vec<Exp>, bool) {
    let mut marker = 0;
    let items = gen_items(ch, n, depth, &mut marker);
    let mut body = String::from("{ ");
    render(&items, &mut body);
    // final marker so that trailing labels are observed
    body.push_str("mS(999); }");
    let mut exp = vec![]; let mut t = 0;
    m3(&items, &mut t, &mut exp);
    exp.push(Exp::Marker(999, t));
    let kinds: BTreeSet<u8> = items.iter().map(|i| match i { Item::Abs(_) => 0, Item::Rel(..) => 1, Item::Marker(_) => 2, _ => 3 }).collect();
    let nt = kinds.contains(&0) as u8 + kinds.contains(&1) as u8 + kinds.contains(&3) as u8 >= 2;
    (body, exp, nt)
}

#[derive(Clone)]
enum Work { Compile { body: String, expected: Vec<Exp>, nontrivial: bool, n: usize, depth: u32, choices: Vec<u32> }, Decompile { times: Vec<i32>, jumps: Vec<(usize, usize, u8)> }, Run { masks: Vec<u8>, times: Vec<i32>, same: bool, tail: i32 }, Pair { t: (i32, i32), d: (u8, u8), retarget: u8 } }

// ---------------------------------------------------------------------------------------------
// real formats: the time field of an instruction is 16 bits wide in some formats (TH06 ANM, MSG, EoSD timelines) and
// 32 bits in others.  Label sequences whose M3 time crosses those boundaries are compiled for every host; a successful
// compile must store exactly M3's time on every marker (read back with the M2 walkers), anything else must be an error.

fn real_time_sequences() -> Vec<(String, Vec<i64>)> {
    // (body of markers and labels, expected time of each marker)
    let mut v: Vec<(String, Vec<i64>)> = vec![];
    let abs: [i64; 14] = [0, 1, 32767, 32768, 40000, 65535, 65536, 70000, 2147483647, -1, -32768, -32769, -65536, -2147483648];
    for &a in &abs {
        v.push((format!("{a}: m0();"), vec![a]));
        v.push((format!("m0(); {a}: m0(); +1: m0();"), vec![0, a, (a + 1) as i32 as i64]));
    }
    for (a, b) in [(20000i64, 20000i64), (32767, 1), (32767, 0), (30000, 2767), (30000, 2768), (65535, 1), (-32768, -1), (-30000, -2768), (-30000, -2769), (2147483647, 1)] {
        v.push((format!("+{a}: m0(); +{b}: m0();", a = if a < 0 { format!("({a})") } else { a.to_string() }, b = if b < 0 { format!("({b})") } else { b.to_string() }), vec![a as i32 as i64, (a + b) as i32 as i64]));
        v.push((format!("{a}: m0(); +{b}: m0(); 5: m0();", b = if b < 0 { format!("({b})") } else { b.to_string() }), vec![a, (a + b) as i32 as i64, 5]));
    }
    v
}

fn check_real_times(rep: &mut Report) {
    use crate::drive::{self, CompileOpts, Kind};
    let seqs = real_time_sequences();
    let hosts: Vec<crate::c01::Host> = crate::c01::hosts().into_iter().chain(crate::c01::all_game_hosts()).collect();
    // old-format ECL hosts take every sequence twice: in a sub, and in a timeline script (its own instruction format and reader)
    let items: Vec<(usize, usize, bool)> = (0..hosts.len()).flat_map(|h| { let ecl = hosts[h].tool.kind == Kind::Ecl; (0..seqs.len()).flat_map(move |s| [(h, s, false), (h, s, true)].into_iter().filter(move |x| ecl || !x.2)) }).collect();
    let results = par_map(&items, Some(rep.deadline()), |_, &(h, s, in_timeline)| {
        let host = &hosts[h];
        let (body, want) = &seqs[s];
        let src = if in_timeline { format!("void sub0() {{ mS(1); }}\nvoid sub1() {{ mS(2); }}\nscript timeline0 {{ {body} }}\n") } else { host.wrap(&format!("{{ {body} }}")) };
        let mut um = host.user_mapfile();
        if in_timeline { um += &format!("!timeline_ins_names\n{} m0\n!timeline_ins_signatures\n{} \n", host.op_base, host.op_base); }
        let out = drive::compile(host.tool, src.as_bytes(), &CompileOpts { mapfiles: vec![&um], ..Default::default() });
        let det = |what: String| json!({"family": "real-times", "host": host.name, "body": body, "source": src, "expected_marker_times": want, "what": what});
        if let Some(p) = &out.panic { return ("panic".to_string(), Some(Failure { signature: format!("C13:real:{}", p.signature()), detail: det(p.text.clone()) })); }
        let Some(bytes) = out.bytes else {
            return if drive::has_error(&out.diag) { ("rejected-with-error".into(), None) } else { ("rejected-silently".into(), Some(Failure { signature: format!("C13:real:rejected-without-error:{}", host.name), detail: det(out.diag.clone()) })) };
        };
        let m0 = host.op_base;   // opcode of marker m0
        let instrs: Result<Vec<crate::m2::Instr>, String> = match host.tool.kind {
            Kind::Anm => crate::m2::walk_anm(&bytes, host.tool.game).map(|e| e.get(0).and_then(|e| e.scripts.get(0).map(|s| s.instrs.clone())).unwrap_or_default()),
            Kind::Ecl => crate::m2::walk_ecl(&bytes, host.tool.game).map(|w| if in_timeline { w.timelines.get(0).cloned().unwrap_or_default() } else { w.subs.get(0).cloned().unwrap_or_default() }),
            Kind::Std => crate::m2::walk_std(&bytes, host.tool.game).map(|w| w.script.clone()),
            _ => crate::m2::walk_msg(&bytes, host.tool.game, false).map(|w| w.scripts.get(0).map(|s| s.1.clone()).unwrap_or_default()),
        };
        let instrs = match instrs { Ok(i) => i, Err(e) => return ("unreadable".into(), Some(Failure { signature: format!("C13:real:output-unreadable-by-M2:{}", host.name), detail: det(e) })) };
        let got: Vec<i64> = instrs.iter().filter(|i| i.opcode == m0).map(|i| i.time as i64).collect();
        if &got == want {
            // decompile direction on the real reader: the time labels printed for these stored times must give the same
            // stored times again (recompiled bytes walked by M2)
            let d = drive::decompile(host.tool, &bytes, &drive::DecompOpts { options: drive::options_from_bits(0), width: 99, mapfiles: vec![&um], display_name: "seed.bin" });
            if let Some(p) = &d.panic { return ("panic".to_string(), Some(Failure { signature: format!("C13:real:decompile-{}", p.signature()), detail: det(p.text.clone()) })); }
            let Some(text) = d.text else { return ("DECOMPILE-FAILED".into(), Some(Failure { signature: format!("C13:real:decompile-failed:{}", host.name), detail: det(d.diag.clone()) })) };
            let image_sources: Vec<&[u8]> = if host.tool.kind == Kind::Anm { vec![&bytes[..]] } else { vec![] };
            let c2 = drive::compile(host.tool, text.as_bytes(), &CompileOpts { mapfiles: vec![&um], image_sources, ..Default::default() });
            let det2 = |what: String| json!({"family": "real-times", "host": host.name, "body": body, "source": src, "expected_marker_times": want, "decompiled": text, "what": what});
            let Some(b2) = c2.bytes else { return ("DECOMPILED-TEXT-REJECTED".into(), Some(Failure { signature: format!("C13:real:decompiled-text-rejected:{}", host.name), detail: det2(c2.diag.clone()) })) };
            let instrs2: Result<Vec<crate::m2::Instr>, String> = match host.tool.kind {
                Kind::Anm => crate::m2::walk_anm(&b2, host.tool.game).map(|e| e.get(0).and_then(|e| e.scripts.get(0).map(|s| s.instrs.clone())).unwrap_or_default()),
                Kind::Ecl => crate::m2::walk_ecl(&b2, host.tool.game).map(|w| if in_timeline { w.timelines.get(0).cloned().unwrap_or_default() } else { w.subs.get(0).cloned().unwrap_or_default() }),
                Kind::Std => crate::m2::walk_std(&b2, host.tool.game).map(|w| w.script.clone()),
                _ => crate::m2::walk_msg(&b2, host.tool.game, false).map(|w| w.scripts.get(0).map(|s| s.1.clone()).unwrap_or_default()),
            };
            let got2: Vec<i64> = instrs2.unwrap_or_default().iter().filter(|i| i.opcode == m0).map(|i| i.time as i64).collect();
            if &got2 == want { (if in_timeline { "stored-exactly+labels-reproduce(timeline)" } else { "stored-exactly+labels-reproduce" }.into(), None) }
            else { ("DECOMPILED-LABELS-GIVE-OTHER-TIMES".into(), Some(Failure { signature: format!("C13:real:decompiled-labels-give-other-times:{}", host.name), detail: det2(format!("times after decompile + recompile {:?}", got2)) })) }
        }
        else { ("STORED-OTHER-TIME".into(), Some(Failure { signature: format!("C13:real:stored-time-differs:{}", host.name), detail: det(format!("stored marker times {:?}", got)) })) }
    });
    let mut n = 0u64;
    for (k, r) in results.into_iter().enumerate() {
        let Some((class, f)) = r else { rep.cap_hit = Some("wall cap in the real-format time family".into()); continue; };
        n += 1; rep.evaluations += 1; rep.states += 1; rep.transitions += 1; rep.traces_validated += 1; rep.nontrivial += 1;
        rep.outcome(&format!("real:{class}"));
        if let Some(f) = f { rep.failures.push(f); }
        if k % 701 == 0 { rep.sample(json!({"family": "real-times", "host": hosts[items[k].0].name, "body": seqs[items[k].1].0})); }
    }
    rep.extra.insert("real_time_cases".into(), json!(n));
}

pub fn run(tier: &str) -> Report {
    let mut rep = Report::new("C13", tier, "model_checking");
    let thorough = tier == "thorough";
    let table = Table::new(&TableCfg::FULL);
    let mapfile = table.mapfile_text(REGS);
    let mut work: Vec<Work> = vec![];
    // compile direction: E-DFS over item sequences
    let (max_items, depth, bound) = if thorough { (6, 2, 6) } else { (5, 2, 4) };
    let mut seen = BTreeSet::new();
    for n in 1..=max_items {
        let stats = explore_dfs(bound, if thorough { 3_000_000 } else { 800_000 }, &|ch| gen_compile_case(ch, n, depth),
            &mut |choices, (body, expected, nontrivial)| { if seen.insert(body.clone()) { work.push(Work::Compile { body, expected, nontrivial, n, depth, choices: choices.to_vec() }); } });
        rep.transitions += stats.runs;
        if stats.capped { rep.cap_hit = Some(format!("generator cap at n={n}")); }
    }
    let n_compile = work.len();
    // decompile direction: all time sequences of length <= L over STORED_TIMES, with 0..2 jumps
    let max_len = if thorough { 5 } else { 4 };
    for len in 1..=max_len {
        let total = STORED_TIMES.len().pow(len as u32);
        for code in 0..total {
            let mut c = code; let mut times = vec![];
            for _ in 0..len { times.push(STORED_TIMES[c % STORED_TIMES.len()]); c /= STORED_TIMES.len(); }
            work.push(Work::Decompile { times: times.clone(), jumps: vec![] });
            // one jump at each position to each target with each time-arg mode (only for len <= 3 in quick)
            if len <= (if thorough { 4 } else { 3 }) {
                for pos in 0..len { for target in 0..=len { for mode in 0..3u8 {
                    work.push(Work::Decompile { times: times.clone(), jumps: vec![(pos, target, mode)] });
                }}}
            }
        }
    }
    // family (r): foldable runs x every assignment of stored times
    let n_before_runs = work.len();
    for masks in RUN_TILINGS {
        let k = masks.len();
        for code in 0..RUN_TIMES.len().pow(k as u32) {
            let mut c = code; let mut times = vec![];
            for _ in 0..k { times.push(RUN_TIMES[c % RUN_TIMES.len()]); c /= RUN_TIMES.len(); }
            for same in [false, true] { for tail in [times[k - 1], 22] {
                work.push(Work::Run { masks: masks.to_vec(), times: times.clone(), same, tail });
            }}
        }
    }
    for tc in [0, 10] { for tj in [0, 10, 15] { for dc in [0xFFu8, 0xF1, 0xF2] { for dj in [0xFFu8, 0xF1, 0xF2] { for retarget in 0..3u8 {
        work.push(Work::Pair { t: (tc, tj), d: (dc, dj), retarget });
    }}}}}
    let n_runs = work.len() - n_before_runs;
    rep.states = work.len() as u64;
    rep.transitions += (work.len() - n_compile) as u64;
    let deadline = rep.deadline();
    let results = par_map(&work, Some(deadline), |_, w| match w {
        Work::Compile { body, expected, n, depth, choices, .. } => {
            let (c, mut f) = check_compile(&table, &mapfile, body, expected);
            for x in &mut f { x.detail["n"] = json!(n); x.detail["depth"] = json!(depth); x.detail["choices"] = json!(choices); }
            (c, f)
        },
        Work::Decompile { times, jumps } => check_decompile(&table, &mapfile, times, jumps),
        Work::Run { masks, times, same, tail } => check_decompile_run(&table, masks, times, *same, *tail),
        Work::Pair { t, d, retarget } => check_decompile_pair(t.0, t.1, d.0, d.1, *retarget),
    });
    for (i, r) in results.into_iter().enumerate() {
        let Some((class, failures)) = r else { rep.cap_hit = Some("wall cap".into()); continue; };
        rep.evaluations += 1; rep.traces_validated += 1;
        match &work[i] {
            Work::Compile { nontrivial, body, .. } => { rep.outcome(&format!("compile:{class}")); if *nontrivial { rep.nontrivial += 1; } if i % 5003 == 0 { rep.sample(json!({"compile": body})); } },
            Work::Pair { t, d, .. } => { rep.outcome(&format!("decompile:{class}")); if t.0 != t.1 || d.0 != d.1 { rep.nontrivial += 1; } },
            Work::Run { masks, times, .. } => {
                rep.outcome(&format!("decompile:{class}"));
                if times.windows(2).any(|w| w[0] != w[1]) { rep.nontrivial += 1; }
                if i % 501 == 0 { rep.sample(json!({"run_masks": masks, "stored_times": times})); }
            },
            Work::Decompile { times, jumps } => {
                rep.outcome(&format!("decompile:{class}"));
                let distinct: BTreeSet<i32> = times.iter().copied().collect();
                if distinct.len() >= 2 || !jumps.is_empty() { rep.nontrivial += 1; }
                if i % 7001 == 0 { rep.sample(json!({"stored_times": times, "jumps": jumps.iter().map(|j| vec![j.0, j.1, j.2 as usize]).collect::<Vec<_>>()})); }
            },
        }
        rep.failures.extend(failures);
    }
    check_real_times(&mut rep);
    rep.exhaustive = true;
    rep.bound_completed = format!("compile: <= {max_items} items, nesting <= {depth}, deviations <= {bound} ({n_compile} programs); decompile: every stored-time sequence of length <= {max_len} over {:?} with 0 or 1 jump (any position, any target, 3 time-arg modes); {n_runs} foldable difficulty runs ({} mask tilings x every assignment of times from {:?} x same/different values x tail time, plus two-part cmp+jmp pairs x times x masks x a jump landing between them)", STORED_TIMES, RUN_TILINGS.len(), RUN_TIMES);
    rep.rule = "compile: E-DFS over sequences of {abs label, rel label (incl. const-expr and i32::MAX deltas), marker, loop/if/times/free block}; decompile: full product of stored times; non-trivial = >= 2 label kinds / block present, or >= 2 distinct stored times or a jump".into();
    rep.assumptions = vec!["M3 label arithmetic (harness model) with 32-bit wrap".into(), "instruction meaning decoded by the harness's own table".into()];
    rep.explanation = "compile: RawInstr.time of every marker, loop back-jump (and its time argument), if-jump, times assignment and counting jump compared with M3; decompile: M3 applied to the printed text must reproduce every stored time, and recompiling must reproduce the RawInstrs bit for bit".into();
    rep
}

pub fn replay(detail: &serde_json::Value) -> i32 {
    let table = Table::new(&TableCfg::FULL);
    let mapfile = table.mapfile_text(REGS);
    let (class, failures) = if detail["family"] == "decompile-pair" {
        let g = |k: &str| detail[k].as_i64().unwrap_or(0);
        check_decompile_pair(g("t_cmp") as i32, g("t_jmp") as i32, g("d_cmp") as u8, g("d_jmp") as u8, g("retarget") as u8)
    } else if detail["family"] == "decompile-run" {
        let masks: Vec<u8> = detail["masks"].as_array().unwrap().iter().map(|v| v.as_u64().unwrap() as u8).collect();
        let times: Vec<i32> = detail["times"].as_array().unwrap().iter().map(|v| v.as_i64().unwrap() as i32).collect();
        check_decompile_run(&table, &masks, &times, detail["same_vals"].as_bool().unwrap_or(false), detail["tail_time"].as_i64().unwrap_or(0) as i32)
    } else if detail["family"] == "decompile" {
        let times: Vec<i32> = detail["times"].as_array().unwrap().iter().map(|v| v.as_i64().unwrap() as i32).collect();
        let jumps: Vec<(usize, usize, u8)> = detail["jumps"].as_array().unwrap().iter().map(|j| (j[0].as_u64().unwrap() as usize, j[1].as_u64().unwrap() as usize, j[2].as_u64().unwrap() as u8)).collect();
        check_decompile(&table, &mapfile, &times, &jumps)
    } else {
        let choices: Vec<u32> = detail["choices"].as_array().map(|a| a.iter().map(|v| v.as_u64().unwrap() as u32).collect()).unwrap_or_default();
        let n = detail["n"].as_u64().unwrap_or(1) as usize; let depth = detail["depth"].as_u64().unwrap_or(2) as u32;
        let mut ch = Chooser::new(&choices);
        let (body, expected, _) = gen_compile_case(&mut ch, n, depth);
        check_compile(&table, &mapfile, &body, &expected)
    };
    println!("class: {class}");
    for f in &failures { println!("FAIL {}\n{}", f.signature, serde_json::to_string_pretty(&f.detail).unwrap()); }
    if failures.is_empty() { 0 } else { 1 }
}
