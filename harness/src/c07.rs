//! C07: recovering loops / if-else / break while decompiling preserves behaviour.
//! Instruction streams come from compiling exhaustively enumerated flat jump graphs (G-flat) and
//! structured programs (G-block); each stream is decompiled twice (blocks off / on) by the real
//! Raiser + postprocess_decompiled and both ASTs are executed by AstVm.

use std::collections::{BTreeMap, BTreeSet};
use serde_json::json;
use truth::{ast, llir};

use crate::common::*;
use crate::tl::{self, *};

/// Generate a flat program of `k` slots.  Labels are placed exactly where some jump targets them.
pub fn gen_flat(ch: &mut Chooser, k: usize, max_jumps: usize) -> (String, usize) {
    #[derive(Clone)]
    enum Slot { Marker, Time(&'static str), Jump(usize /*kind*/, usize /*target*/), Interrupt, DiffMarker }
    let mut slots = vec![];
    let mut njumps = 0;
    for _ in 0..k {
        let mut kinds = vec!["marker", "jump", "time", "interrupt", "diffmarker"];
        if njumps >= max_jumps { kinds.retain(|x| *x != "jump"); }
        let kind = kinds[ch.pick(kinds.len())];
        slots.push(match kind {
            "marker" => Slot::Marker,
            "time" => Slot::Time(["+1:", "+5:", "+0:"][ch.pick(3)]),
            "interrupt" => Slot::Interrupt,
            "diffmarker" => Slot::DiffMarker,
            "jump" => {
                njumps += 1;
                // kinds: 0 if(--C) 1 if (A==0) 2 goto 3 unless (B) 4 goto@t 5 if(--C)@t 6 if (A < B) 7 difficulty-tagged goto
                let jk = ch.pick(8);
                let target = ch.pick(k + 1);
                Slot::Jump(jk, target)
            },
            _ => unreachable!(),
        });
    }
    let targets: BTreeSet<usize> = slots.iter().filter_map(|s| if let Slot::Jump(_, t) = s { Some(*t) } else { None }).collect();
    let mut out = vec![];
    let mut m = 0;
    for (i, s) in slots.iter().enumerate() {
        if targets.contains(&i) { out.push(format!("L{i}:")); }
        match s {
            Slot::Marker => { m += 1; out.push(format!("mS({m});")); },
            Slot::Time(t) => out.push(t.to_string()),
            Slot::Interrupt => out.push("interrupt[1]:".to_string()),
            Slot::DiffMarker => { m += 2; out.push(format!("{{\"0\"}}: mS({}); {{\"*\"}}: mS({m});", m - 1)); },
            Slot::Jump(jk, t) => out.push(match jk {
                0 => format!("if (--C) goto L{t};"),
                1 => format!("if (A == 0) goto L{t};"),
                2 => format!("goto L{t};"),
                3 => format!("unless (B) goto L{t};"),
                4 => format!("goto L{t} @ 3;"),
                5 => format!("if (--C) goto L{t} @ 0;"),
                6 => format!("if (A < B) goto L{t};"),
                _ => { m += 1; format!("{{\"1\"}}: goto L{t}; {{\"*\"}}: mS({m});") },
            }),
        }
    }
    if targets.contains(&k) { out.push(format!("L{k}:")); }
    // a body that increments A keeps `A == 0`/`A < B` loops finite on most valuations
    (format!("{{ A += 1; {} }}", out.join(" ")), njumps)
}

/// Forward-only jump graphs: exactly the shape if / else-if / else chains compile to.  `k` slots, `nj` of them jumps
/// (every choice of positions), each jump of 4 kinds to every *later* label position; the other slots are markers.
pub fn gen_forward(ch: &mut Chooser, k: usize, nj: usize) -> String {
    // choose jump positions as a combination (free choices: full product)
    let mut is_jump = vec![false; k];
    let mut remaining = nj;
    for i in 0..k {
        let left = k - i;
        if remaining == 0 { break; }
        if remaining == left { is_jump[i] = true; remaining -= 1; continue; }
        if ch.pick_free(2) == 1 { is_jump[i] = true; remaining -= 1; }
    }
    let mut out: Vec<String> = vec![];
    let mut targets = BTreeSet::new();
    let mut m = 0;
    let mut jumps = vec![];
    for i in 0..k {
        if is_jump[i] {
            let kind = ch.pick_free(4);
            let t = i + 1 + ch.pick_free(k - i);   // i+1 ..= k
            targets.insert(t);
            jumps.push((i, kind, t));
        }
    }
    for i in 0..k {
        if targets.contains(&i) { out.push(format!("L{i}:")); }
        if let Some(&(_, kind, t)) = jumps.iter().find(|j| j.0 == i) {
            out.push(match kind { 0 => format!("if (A != 0) goto L{t};"), 1 => format!("goto L{t};"), 2 => format!("if (A != 1) goto L{t};"), _ => format!("if (B == 0) goto L{t};") });
        } else { m += 1; out.push(format!("mS({m});")); }
    }
    if targets.contains(&k) { out.push(format!("L{k}:")); }
    format!("{{ {} }}", out.join(" "))
}

/// Loop-shaped jump graphs: `nb` backward conditional jumps (the shape loops compile to) and `nf` forward jumps (breaks,
/// skips, exits out of several loops) at every choice of positions, every backward target at or before the jump, every
/// forward target after it; the remaining slots are `A += 1; mS(n);`.  Full product (free choices).
pub fn gen_loops(ch: &mut Chooser, k: usize, nb: usize, nf: usize) -> String { gen_loops_ex(ch, k, nb, nf, false) }

/// `timed`: the same graphs with stored times that go up and then DOWN: `+10:` in front of slot 1, an absolute `2:` in
/// front of every slot in turn (the decompiler prints an absolute label exactly where the stored time decreases), on
/// either side of the jump label that sits there, and `+5:` one slot later, so that a jump which arrives with the
/// wrong time (that of the loop end instead of the label's) runs the following instructions at other real times.
pub fn gen_loops_ex(ch: &mut Chooser, k: usize, nb: usize, nf: usize, timed: bool) -> String {
    // role per slot: 0 = marker, 1 = backward jump, 2 = forward jump
    let mut role = vec![0u8; k];
    let (mut rb, mut rf) = (nb, nf);
    for i in 0..k {
        let left = k - i;
        if rb + rf == 0 { break; }
        let mut opts: Vec<u8> = vec![];
        if rb + rf < left { opts.push(0); }
        if rb > 0 { opts.push(1); }
        if rf > 0 { opts.push(2); }
        let r = opts[ch.pick_free(opts.len())];
        role[i] = r;
        if r == 1 { rb -= 1; } else if r == 2 { rf -= 1; }
    }
    let mut jumps: Vec<(usize, String, usize)> = vec![];
    let mut nback = 0;
    for i in 0..k {
        match role[i] {
            1 => {
                let t = ch.pick_free(i + 1);   // 0 ..= i
                let cond = match ch.pick_free(3) { 0 => format!("if (--{}) goto", ["C", "D", "C"][nback % 3]), 1 => "if (A < 3) goto".to_string(), _ => "if (B != 0) goto".to_string() };
                nback += 1;
                jumps.push((i, cond, t));
            },
            2 => {
                let t = i + 1 + ch.pick_free(k - i);   // i+1 ..= k
                let cond = ["goto", "if (B == 0) goto", "if (A != 1) goto"][ch.pick_free(3)].to_string();
                jumps.push((i, cond, t));
            },
            _ => {},
        }
    }
    let targets: BTreeSet<usize> = jumps.iter().map(|j| j.2).collect();
    let mut out: Vec<String> = vec![];
    let mut m = 0;
    let (abs_at, label_first) = if timed { (1 + ch.pick_free(k), ch.pick_free(2) == 1) } else { (usize::MAX, false) };
    for i in 0..=k {
        if timed && i == 1 { out.push("+10:".into()); }
        if timed && i == abs_at + 1 { out.push("+5:".into()); }
        if targets.contains(&i) && label_first { out.push(format!("L{i}:")); }
        if i == abs_at { out.push("2:".into()); }
        if targets.contains(&i) && !label_first { out.push(format!("L{i}:")); }
        if i == k { if timed { out.push("+1: mS(99);".into()); } break; }
        if let Some((_, cond, t)) = jumps.iter().find(|j| j.0 == i) { out.push(format!("{cond} L{t};")); }
        else { m += 1; out.push(format!("A += 1; mS({m});")); }
    }
    format!("{{ {} }}", out.join(" "))
}

fn raise_with(truth: &mut truth::Truth, hooks: &dyn llir::LanguageHooks, instrs: &[llir::RawInstr], blocks: bool) -> Result<ast::Block, String> {
    let options = llir::DecompileOptions { blocks, ..Default::default() };
    let emitter = truth.emitter();
    let ctx = truth.ctx();
    let script = llir::RawScript { instrs: instrs.to_vec(), file_offset: None };
    let r = (|| -> Result<ast::Block, truth::ErrorReported> {
        let const_proof = truth::passes::evaluate_const_vars::run(ctx)?;
        let stmts = {
            let mut raiser = llir::Raiser::new(hooks, ctx.emitter, ctx, &options, const_proof)?;
            raiser.raise_instrs_to_sub_ast(&emitter, &script, &ctx)?
        };
        let mut block = ast::Block(stmts);
        truth::passes::postprocess_decompiled(&mut block, ctx, &options)?;
        Ok(block)
    })();
    match r { Ok(b) => Ok(b), Err(e) => { e.ignore(); Err(truth.get_captured_diagnostics().unwrap_or_default()) } }
}

fn time_labels_and_timed_gotos(text: &str) -> (Vec<String>, Vec<String>, BTreeMap<String, usize>, Vec<String>) {
    let mut tl = vec![]; let mut tg = vec![]; let mut defs: BTreeMap<String, usize> = BTreeMap::new(); let mut refs = vec![];
    for line in text.lines() {
        let t = line.trim();
        if t.ends_with(':') && !t.starts_with('{') && !t.starts_with("interrupt") {
            let name = &t[..t.len() - 1];
            if name.chars().all(|c| c.is_ascii_digit() || c == '+' || c == '-') { tl.push(t.to_string()); }
            else { *defs.entry(name.to_string()).or_insert(0) += 1; }
        }
        if let Some(pos) = t.find("goto ") {
            let rest = &t[pos + 5..];
            let name: String = rest.chars().take_while(|c| c.is_alphanumeric() || *c == '_').collect();
            refs.push(name);
            if rest.contains('@') { tg.push(rest.trim_end_matches(';').to_string()); }
        }
    }
    tg.sort();
    (tl, tg, defs, refs)
}

pub struct Outcome { pub class: String, pub failures: Vec<Failure>, pub execs: u64, pub recovered: bool, pub discards: Vec<String> }

pub fn check_body(table: &Table, mapfile: &str, body: &str, vals: &[Valuation]) -> Outcome {
    let mut out = Outcome { class: String::new(), failures: vec![], execs: 0, recovered: false, discards: vec![] };
    let detail = |extra: serde_json::Value| json!({"family": "g-flat", "body": body, "table": table.cfg.name(), "info": extra});
    let hooks = make_language(&Pool { ints: 4, floats: 4 }, false);
    // phase 1: compile
    let instrs = match catch(|| with_truth(mapfile, |truth| {
        let block = front_end(truth, body, true).map_err(|(s, d)| format!("rejected:{s}:{}", d.lines().next().unwrap_or("")))?;
        let des = desugar(truth, &block).map_err(|d| format!("rejected:desugar:{}", d.lines().next().unwrap_or("")))?;
        let (instrs, _) = tl::lower(truth, &hooks, &des.0, false).map_err(|d| format!("rejected:lower:{}", d.lines().next().unwrap_or("")))?;
        Ok::<_, String>(instrs)
    })) {
        Ok(Ok(i)) => i,
        Ok(Err(e)) => { out.class = e.split(':').take(2).collect::<Vec<_>>().join(":"); return out; },
        Err(p) => { out.class = "compile-panic".into(); out.discards.push(p.signature()); return out; },
    };
    // phase 2: decompile twice in a fresh context (as a decompiler run would)
    let r = catch(|| with_truth(mapfile, |truth| {
        let flat = raise_with(truth, &hooks, &instrs, false).map_err(|d| format!("raise-flat-failed: {d}"))?;
        let structured = raise_with(truth, &hooks, &instrs, true).map_err(|d| format!("raise-structured-failed: {d}"))?;
        let flat_text = truth::fmt::stringify(&flat);
        let st_text = truth::fmt::stringify(&structured);
        Ok::<_, String>((flat_text, st_text))
    }));
    let (flat_text, st_text) = match r {
        Err(p) => { out.class = "panic".into(); out.failures.push(Failure { signature: format!("C07:{}", p.signature()), detail: detail(json!({"panic": p.text})) }); return out; },
        Ok(Err(e)) => { out.class = "raise-failed".into(); out.failures.push(Failure { signature: format!("C07:raise-failed:{body}"), detail: detail(json!({"error": e})) }); return out; },
        Ok(Ok(x)) => x,
    };
    out.recovered = flat_text != st_text;
    out.class = if out.recovered { "recovered".into() } else { "unchanged".into() };
    // structural clauses
    let (tl1, tg1, _defs1, _refs1) = time_labels_and_timed_gotos(&flat_text);
    let (tl2, tg2, defs2, refs2) = time_labels_and_timed_gotos(&st_text);
    if tl1 != tl2 { out.failures.push(Failure { signature: format!("C07:time-labels-altered:{body}"), detail: detail(json!({"flat": flat_text, "structured": st_text})) }); }
    if tg1 != tg2 { out.failures.push(Failure { signature: format!("C07:timed-goto-captured:{body}"), detail: detail(json!({"flat": flat_text, "structured": st_text})) }); }
    for r in &refs2 { if defs2.get(r).copied().unwrap_or(0) != 1 {
        out.failures.push(Failure { signature: format!("C07:label-refcount:{body}"), detail: detail(json!({"label": r, "structured": st_text})) }); break;
    } }
    if !out.failures.is_empty() { return out; }
    // stored times that decrease (the texts carry absolute time labels): AstVm resets its clock to a block's end time whenever
    // it leaves the block, which is not what the instruction stream does once time labels go down inside a block, so the
    // two spellings of one stream disagree inside AstVm only (seen when this family was first run; not a defect of the
    // decompiler).  These bodies are decided on the compiled form instead: both texts are lowered again and run by M1, whose
    // clock is the machine's (a jump sets the clock to its time argument, an instruction waits until its stored time).
    if tl1.iter().any(|l| !l.starts_with('+')) {
        let r = catch(|| with_truth(mapfile, |truth| {
            let mut lowered = vec![];
            for (which, text) in [("flat", &flat_text), ("structured", &st_text)] {
                let blk = front_end(truth, text, true).map_err(|(s, d)| format!("{which} text rejected at {s}: {d}"))?;
                let des = desugar(truth, &blk).map_err(|d| format!("{which} text does not desugar: {d}"))?;
                let (i2, _) = tl::lower(truth, &hooks, &des.0, false).map_err(|d| format!("{which} text does not lower: {d}"))?;
                lowered.push(i2);
            }
            Ok::<_, String>(lowered)
        }));
        let lowered = match r {
            Err(p) => { out.failures.push(Failure { signature: format!("C07:{}", p.signature()), detail: detail(json!({"panic": p.text, "structured": st_text})) }); return out; },
            Ok(Err(e)) => { out.failures.push(Failure { signature: format!("C07:reparse-failed:{body}"), detail: detail(json!({"error": e, "flat": flat_text, "structured": st_text})) }); return out; },
            Ok(Ok(x)) => x,
        };
        let cmp_regs: Vec<i32> = REGS.iter().map(|r| r.id).collect();
        'vals: for (vi, val) in vals.iter().enumerate() {
            let diffs: &[u32] = if body.contains("{\"") { &[0, 1] } else { &[0] };
            for &d in diffs {
                let reference = tl::run_m1(table, &instrs, val, d, 4);
                let ta = tl::run_m1(table, &lowered[0], val, d, 4);
                let tb = tl::run_m1(table, &lowered[1], val, d, 4);
                out.execs += 3;
                let (Ok(reference), Ok(ta), Ok(tb)) = (reference, ta, tb) else { out.discards.push("m1-cannot-run".into()); continue; };
                for (which, t) in [("flat", &ta), ("structured", &tb)] {
                    if let Some(diff) = tl::compare_traces_ex(&reference, t, &cmp_regs, true, true) {
                        out.failures.push(Failure { signature: format!("C07:behaviour:{body}"), detail: detail(json!({"valuation": vi, "difficulty": d, "diff": diff, "which": format!("original stream vs recompiled {which} text, run by M1"), "flat": flat_text, "structured": st_text})) });
                        break 'vals;
                    }
                }
            }
        }
        return out;
    }
    // behavioural clause: re-parse both texts (this also checks the structured text recompiles) and run
    let r = catch(|| with_truth(mapfile, |truth| {
        let a = front_end(truth, &flat_text, true).map_err(|(s, d)| format!("flat text rejected at {s}: {d}"))?;
        let b = front_end(truth, &st_text, true).map_err(|(s, d)| format!("structured text rejected at {s}: {d}"))?;
        let b_des = desugar(truth, &b).map_err(|d| format!("structured text does not desugar: {d}"))?;
        let mut runs = vec![];
        for (vi, val) in vals.iter().enumerate() {
            let diffs: &[u32] = if body.contains("{\"") { &[0, 1] } else { &[0] };
            for &d in diffs {
                let (mut ta, mut tb) = run_astvm_pair(truth, &a.0, &b.0, val, d);
                if tb.stopped.as_deref().map(|s| s.contains("tried to jump") || s.contains("label did not exist")).unwrap_or(false) {
                    let (x, y) = run_astvm_pair(truth, &a.0, &b_des.0, val, d);
                    ta = x; tb = y;
                }
                runs.push((vi, d, ta, tb));
            }
        }
        Ok::<_, String>(runs)
    }));
    let runs = match r {
        Err(p) => { out.failures.push(Failure { signature: format!("C07:{}", p.signature()), detail: detail(json!({"panic": p.text, "structured": st_text})) }); return out; },
        Ok(Err(e)) => { out.failures.push(Failure { signature: format!("C07:reparse-failed:{body}"), detail: detail(json!({"error": e, "flat": flat_text, "structured": st_text})) }); return out; },
        Ok(Ok(x)) => x,
    };
    let cmp_regs: Vec<i32> = REGS.iter().map(|r| r.id).collect();
    for (vi, d, a, b) in runs {
        out.execs += 2;
        let undefined = |t: &Trace| t.stopped.as_deref().map(|s| s.starts_with("vm-panic")).unwrap_or(false);
        if undefined(&a) { out.discards.push(format!("flat-undefined:{}", a.stopped.clone().unwrap())); continue; }
        if undefined(&b) {
            out.failures.push(Failure { signature: format!("C07:structured-undefined:{body}"), detail: detail(json!({"valuation": vi, "difficulty": d, "stopped": b.stopped, "flat": flat_text, "structured": st_text})) });
            break;
        }
        if a.stopped.is_some() || b.stopped.is_some() { out.discards.push("iteration-cap(prefix compared)".into()); }
        // A jump with an explicit time (`goto L @ t`, t != time of L) leaves AstVm's clock different from the label clock; AstVm
        // then resets it on entering a block but not when falling through a flat jump, so the two *spellings* of one stream
        // disagree on time inside AstVm only.  For such bodies calls and registers are compared, times are not (the structural
        // clause above already requires the timed jumps to be left untouched).
        let timed = body.contains('@') || flat_text.contains('@');   // (the decompiler prints `@ t` whenever a jump's time differs from its label's)
        if let Some(diff) = compare_traces_term_ex(&a, &b, &cmp_regs, !timed, !timed) {
            out.failures.push(Failure { signature: format!("C07:behaviour:{body}"), detail: detail(json!({"valuation": vi, "difficulty": d, "diff": diff, "flat": flat_text, "structured": st_text})) });
            break;
        }
    }
    out
}

pub fn run(tier: &str) -> Report {
    let mut rep = Report::new("C07", tier, "model_checking");
    let thorough = tier == "thorough";
    let vals: Vec<Valuation> = crate::c06::valuations6();
    let deadline = rep.deadline();
    let cfgs = if thorough { vec![TableCfg::FULL, TableCfg { count_gt: true, ..TableCfg::FULL }, TableCfg { two_part_cmp: true, ..TableCfg::FULL }, TableCfg { jump_order: JumpOrder::TO, ..TableCfg::FULL }] } else { vec![TableCfg::FULL] };
    let mut bodies: Vec<(String, &'static str)> = vec![];
    let mut seen = BTreeSet::new();
    // family 1: flat jump graphs
    let (k, max_jumps, bound) = if thorough { (6, 3, 6) } else { (5, 2, 5) };
    for kk in 1..=k {
        let stats = explore_dfs(bound, if thorough { 3_000_000 } else { 400_000 }, &|ch| gen_flat(ch, kk, max_jumps), &mut |_, (body, nj)| {
            if nj >= 1 && seen.insert(body.clone()) { bodies.push((body, "flat")); }
        });
        rep.transitions += stats.runs;
        if stats.capped { rep.cap_hit = Some(format!("generator cap at k={kk}")); }
    }
    // family 3: forward-only jump graphs (the shape of if / else-if chains), deeper than family 1
    for (kk, nj) in if thorough { vec![(7usize, 3usize), (8, 3), (8, 4)] } else { vec![(6, 3), (7, 3)] } {
        let stats = explore_dfs(0, 3_000_000, &|ch| gen_forward(ch, kk, nj), &mut |_, body| { if seen.insert(body.clone()) { bodies.push((body, "forward")); } });
        rep.transitions += stats.runs;
        if stats.capped { rep.cap_hit = Some(format!("generator cap in forward family k={kk}")); }
    }
    // family 4: loop-shaped graphs (nested / overlapping loops with exits), full product
    for (kk, nb, nf) in if thorough { vec![(4usize, 2usize, 1usize), (5, 2, 1), (6, 2, 1), (7, 2, 1), (6, 3, 1), (6, 2, 2)] } else { vec![(4, 2, 1), (5, 2, 1), (6, 2, 1)] } {
        let stats = explore_dfs(0, 1_500_000, &|ch| gen_loops(ch, kk, nb, nf), &mut |_, body| { if seen.insert(body.clone()) { bodies.push((body, "loops")); } });
        rep.transitions += stats.runs;
        if stats.capped { rep.cap_hit = Some(format!("generator cap in loops family k={kk} nb={nb} nf={nf}")); }
    }
    // family 4b: loop-shaped graphs over stored times that decrease (absolute time labels in the decompiled text)
    for (kk, nb, nf) in if thorough { vec![(3usize, 1usize, 1usize), (4, 1, 1), (5, 1, 1), (4, 2, 1), (5, 2, 1), (4, 1, 2)] } else { vec![(3, 1, 1), (4, 1, 1), (4, 2, 1)] } {
        let stats = explore_dfs(0, 1_500_000, &|ch| gen_loops_ex(ch, kk, nb, nf, true), &mut |_, body| { if seen.insert(body.clone()) { bodies.push((body, "loops-timed")); } });
        rep.transitions += stats.runs;
        if stats.capped { rep.cap_hit = Some(format!("generator cap in timed loops family k={kk} nb={nb} nf={nf}")); }
    }
    // family 2: structured programs (compiled, then recovered)
    let (b2, d2) = if thorough { (4, 2) } else { (3, 2) };
    let stats = explore_dfs(b2, 400_000, &|ch| {
        let mut g = crate::c06::GB { ch, marker: 0, n_struct: 0, has_inner_label_or_nest: false, max_depth: d2, count_jmp: true, gotos: false };
        let b = g.block(d2, false);
        (format!("{{ {b} }}"), g.n_struct)
    }, &mut |_, (body, ns)| { if ns >= 1 && seen.insert(body.clone()) { bodies.push((body, "structured")); } });
    // family 5: the same structured programs with one extra jump from the top of the body INTO the nesting: a label in
    // front of each marker in turn (inside loop bodies, if / else arms, ...), so that a label the reconstruction would like
    // to remove or move has a second referrer outside the block it sits in
    {
        let structured: Vec<String> = bodies.iter().filter(|(_, f)| *f == "structured").map(|(b, _)| b.clone()).collect();
        for b in structured {
            let inner = b.trim().strip_prefix('{').and_then(|x| x.strip_suffix('}')).unwrap_or(&b).to_string();
            let markers: Vec<usize> = inner.match_indices("mS(").map(|(i, _)| i).collect();
            for (j, &pos) in markers.iter().enumerate() {
                if j >= 4 { break; }
                for cond in ["if (B == 2) goto IN;", "goto IN;"] {
                    let body = format!("{{ {cond} {}IN: {} }}", &inner[..pos], &inner[pos..]);
                    if seen.insert(body.clone()) { bodies.push((body, "jump-into")); }
                }
            }
        }
    }
    rep.transitions += stats.runs;
    rep.states = bodies.len() as u64;
    let mut tables_done = 0;
    for cfg in &cfgs {
        let table = Table::new(cfg);
        let mapfile = table.mapfile_text(REGS);
        let results = par_map(&bodies, Some(deadline), |_, (b, _)| check_body(&table, &mapfile, b, &vals));
        let mut incomplete = false;
        for (i, r) in results.into_iter().enumerate() {
            let Some(o) = r else { incomplete = true; continue; };
            rep.evaluations += 1 + o.execs;
            rep.traces_validated += o.execs / 2;
            rep.outcome(&format!("{}:{}", bodies[i].1, o.class));
            for d in o.discards { rep.discard(&d); }
            if o.recovered { rep.nontrivial += 1; if rep.samples.len() < 5 && i % 211 == 0 { rep.sample(json!({"body": bodies[i].0, "family": bodies[i].1})); } }
            rep.failures.extend(o.failures);
        }
        if incomplete { rep.cap_hit = Some(format!("wall cap in table {}", cfg.name())); break; }
        tables_done += 1;
    }
    if let Some(b) = bodies.last() { rep.sample(json!({"body": b.0, "family": b.1})); }
    rep.exhaustive = true;
    rep.bound_completed = format!("flat graphs: k<={k} slots, <={max_jumps} jumps, every target assignment (deviations<={bound}); loop-shaped graphs: full product of positions x 3 backward kinds x every earlier-or-own target x 3 forward kinds x every later target for (slots, back, fwd) in (4,2,1),(5,2,1),(6,2,1) [thorough: +(7,2,1),(6,3,1),(6,2,2)]; the same graphs for (3,1,1),(4,1,1),(4,2,1) [thorough: +(5,1,1),(5,2,1),(4,1,2)] over stored times that rise and then drop (`+10:` .. absolute `2:` in front of every slot in turn, before or after the jump label there .. `+5:`); structured programs with one extra jump into the nesting (a label before each of the first 4 markers, conditional or not); forward-only graphs: full product of jump positions x 4 kinds x every later target for (slots, jumps) in (6,3),(7,3) [thorough: (7,3),(8,3),(8,4)]; structured: deviations<={b2}, depth<={d2}; {tables_done}/{} intrinsic tables; {} valuations x difficulties 0,1", cfgs.len(), vals.len());
    rep.rule = "E-DFS over G-flat (marker / time label / jump of 8 kinds to any of k+1 label positions / interrupt label / difficulty-tagged statement) and G-block; distinct = distinct source text with >= 1 jump or block; non-trivial = block recovery changed the decompiled text".into();
    rep.assumptions = vec!["truth::vm::AstVm is the reference interpreter on both sides, except for streams whose stored times decrease (absolute time labels), where both texts are lowered again and M1 runs them against the original stream".into(), "jumps into recovered blocks are executed after desugar_blocks (validated separately by C06)".into()];
    rep.explanation = "compile body -> RawInstrs -> (Raiser + postprocess_decompiled) with blocks off and on -> structural clauses on the two texts (time-label sequence, timed gotos, label reference counts) -> both texts re-parsed and executed by AstVm".into();
    rep
}

pub fn replay(detail: &serde_json::Value) -> i32 {
    let body = detail["body"].as_str().unwrap();
    let tname = detail["table"].as_str().unwrap_or("");
    let cfg = TableCfg::variants().into_iter().chain([TableCfg { count_gt: true, ..TableCfg::FULL }, TableCfg { two_part_cmp: true, ..TableCfg::FULL }]).find(|c| c.name() == tname).unwrap_or(TableCfg::FULL);
    let table = Table::new(&cfg);
    let o = check_body(&table, &table.mapfile_text(REGS), body, &crate::c06::valuations6());
    println!("class: {}", o.class);
    for f in &o.failures { println!("FAIL {}\n{}", f.signature, serde_json::to_string_pretty(&f.detail).unwrap()); }
    if o.failures.is_empty() { 0 } else { 1 }
}
