//! C08: printed scripts parse back to the same script at every line width.
//!
//! Two AST sources: (P) `parse(text)` for generated texts over the statement/expression/meta grammar,
//! (D) `decompile(binary)` for small binaries whose argument bit patterns are injected with `@blob=`.
//! The structural comparison is done by an independent canonical walker over truth's public AST types
//! (spans, node/res/loop ids, language tags, cached masks and comments are not part of the script).

#![allow(dead_code)]

use std::collections::{BTreeMap, BTreeSet};
use serde_json::{json, Value};

use truth::ast::{self, Expr, Item, Meta, StmtKind};

use crate::common::*;
use crate::drive::{self, CompileOpts, DecompOpts, Kind, Tool};

const QUICK_WIDTHS: [usize; 10] = [1, 2, 10, 20, 40, 79, 80, 99, 100, 200];

// =============================================================================================
// canonical form (independent structural walk)

#[derive(Default, Clone, Debug)]
struct Flags { neg_lit: bool, switch: bool, nested_unary: bool, nonfinite: bool }

#[derive(Clone, Copy, PartialEq)]
enum Lit { I(i32), F(u32) }

/// `fold = true`: literal signs are normalised (`-` applied to a literal folds, recursively), the int display
/// format is dropped, and the builtin constant `INF` is identified with the literal it denotes.
/// `fold = false`: faithful key of the AST (used to count distinct ASTs).
struct Canon { s: String, fold: bool, fl: Flags }

fn fold_lit(e: &Expr) -> Option<Lit> {
    match e {
        Expr::LitInt { value, .. } => Some(Lit::I(*value)),
        Expr::LitFloat { value } => Some(Lit::F(value.to_bits())),
        Expr::UnOp(op, inner) if op.value == ast::UnOpKind::Neg => match fold_lit(&inner.value)? {
            Lit::I(v) => Some(Lit::I(v.wrapping_neg())),
            Lit::F(b) => Some(Lit::F(b ^ 0x8000_0000)),
        },
        Expr::Var(v) => match (&v.value.ty_sigil, &v.value.name) {
            (None, ast::VarName::Normal { ident, .. }) => match ident.as_str() {
                "INF" => Some(Lit::F(0x7f80_0000)),
                "NAN" => Some(Lit::F(0x7fc0_0000)),
                "true" => Some(Lit::I(1)),
                "false" => Some(Lit::I(0)),
                _ => None,
            },
            _ => None,
        },
        _ => None,
    }
}

impl Canon {
    fn new(fold: bool) -> Canon { Canon { s: String::new(), fold, fl: Flags::default() } }
    fn p(&mut self, x: &str) { self.s.push_str(x); }
    fn string(&mut self, x: &str) { self.s.push_str(&format!("{:?}", x)); }
    fn int(&mut self, v: i32) { self.s.push_str(&format!("i:{v}")); }

    fn file(&mut self, f: &ast::ScriptFile) {
        self.p("(file (mapfiles");
        for m in &f.mapfiles { self.p(" "); self.string(&m.string); }
        self.p(") (image_sources");
        for m in &f.image_sources { self.p(" "); self.string(&m.string); }
        self.p(")");
        for it in &f.items { self.p("\n "); self.item(&it.value); }
        self.p(")");
    }

    fn item(&mut self, it: &Item) {
        match it {
            Item::Func(ast::ItemFunc { qualifier, ty_keyword, ident, params, code }) => {
                self.p("(func ");
                match qualifier { Some(q) => self.p(&format!("{} ", q.value)), None => self.p("- ") }
                self.p(&format!("{} {} (params", ty_keyword.value, ident.value.as_str()));
                for p in params {
                    let ast::FuncParam { qualifier: _, ty_keyword, ident } = &p.value;
                    self.p(&format!(" ({} {})", ty_keyword.value, ident.as_ref().map(|i| i.value.as_str().to_string()).unwrap_or("<anon>".into())));
                }
                self.p(")");
                match code { Some(b) => { self.p(" "); self.block(b); }, None => self.p(" <decl>") }
                self.p(")");
            },
            Item::Script { keyword: _, number, ident, code } => {
                self.p("(script ");
                match number { Some(n) => self.int(n.value), None => self.p("-") }
                self.p(&format!(" {} ", ident.value.as_str()));
                self.block(code);
                self.p(")");
            },
            Item::Meta { keyword, fields } => {
                self.p(&format!("(meta-item {} ", keyword.value));
                self.fields(&fields.value);
                self.p(")");
            },
            Item::ConstVar { ty_keyword, vars } => {
                self.p(&format!("(const {}", ty_keyword.value));
                for v in vars { self.p(" ("); self.var(&v.value.0.value); self.p(" = "); self.expr(&v.value.1.value); self.p(")"); }
                self.p(")");
            },
        }
    }

    fn fields(&mut self, f: &ast::meta::Fields) {
        self.p("{");
        for (k, v) in f.iter() { self.p(&format!(" {}: ", k.value.as_str())); self.meta(&v.value); self.p(","); }
        self.p("}");
    }

    fn meta(&mut self, m: &Meta) {
        match m {
            Meta::Scalar(e) => { self.p("(scalar "); self.expr(&e.value); self.p(")"); },
            Meta::Object(f) => { self.p("(object "); self.fields(&f.value); self.p(")"); },
            Meta::Array(xs) => { self.p("(array"); for x in xs { self.p(" "); self.meta(&x.value); } self.p(")"); },
            Meta::Variant { name, fields } => { self.p(&format!("(variant {} ", name.value.as_str())); self.fields(&fields.value); self.p(")"); },
        }
    }

    fn block(&mut self, b: &ast::Block) {
        self.p("(block");
        for st in &b.0 {
            // the block bookends carry nothing; the decompiler and the parser place them differently
            if self.fold && matches!(st.value.kind, StmtKind::NoInstruction) && st.value.diff_label.is_none() { continue; }
            self.p("\n  "); self.stmt(&st.value);
        }
        self.p(")");
    }

    fn jump(&mut self, j: &ast::StmtJumpKind) {
        match j {
            ast::StmtJumpKind::Goto(ast::StmtGoto { destination, time }) => {
                self.p(&format!("(goto {}", destination.value.as_str()));
                if let Some(t) = time { self.p(" @ "); self.int(t.value); }
                self.p(")");
            },
            ast::StmtJumpKind::BreakContinue { keyword, loop_id: _ } => self.p(&format!("({})", keyword.value)),
        }
    }

    fn stmt(&mut self, st: &ast::Stmt) {
        let ast::Stmt { node_id: _, diff_label, offset_comment: _, kind } = st;
        self.p("(stmt ");
        if let Some(d) = diff_label { self.p("difficulty="); self.string(&d.value.string.value.string); self.p(" "); }
        match kind {
            StmtKind::Item(it) => self.item(&it.value),
            StmtKind::Jump(j) => self.jump(j),
            StmtKind::CondJump { keyword, cond, jump } => {
                self.p(&format!("(condjump {} ", keyword.value)); self.expr(&cond.value); self.p(" "); self.jump(jump); self.p(")");
            },
            StmtKind::Return { keyword: _, value } => {
                self.p("(return"); if let Some(v) = value { self.p(" "); self.expr(&v.value); } self.p(")");
            },
            StmtKind::CondChain(ast::StmtCondChain { cond_blocks, else_block }) => {
                self.p("(condchain");
                for cb in cond_blocks {
                    self.p(&format!(" ({} ", cb.keyword.value)); self.expr(&cb.cond.value); self.p(" "); self.block(&cb.block); self.p(")");
                }
                if let Some(b) = else_block { self.p(" (else "); self.block(b); self.p(")"); }
                self.p(")");
            },
            StmtKind::Loop { loop_id: _, keyword: _, block } => { self.p("(loop "); self.block(block); self.p(")"); },
            StmtKind::While { loop_id: _, while_keyword: _, do_keyword, cond, block } => {
                self.p(if do_keyword.is_some() { "(dowhile " } else { "(while " });
                self.expr(&cond.value); self.p(" "); self.block(block); self.p(")");
            },
            StmtKind::Times { loop_id: _, keyword: _, clobber, count, block } => {
                self.p("(times ");
                if let Some(c) = clobber { self.p("clobber="); self.var(&c.value); self.p(" "); }
                self.expr(&count.value); self.p(" "); self.block(block); self.p(")");
            },
            StmtKind::Expr(e) => { self.p("(exprstmt "); self.expr(&e.value); self.p(")"); },
            StmtKind::Block(b) => self.block(b),
            StmtKind::Assignment { var, op, value } => {
                self.p("(assign "); self.var(&var.value); self.p(&format!(" {} ", op.value)); self.expr(&value.value); self.p(")");
            },
            StmtKind::Declaration { ty_keyword, vars } => {
                self.p(&format!("(decl {}", ty_keyword.value));
                for v in vars {
                    self.p(" ("); self.var(&v.value.0.value);
                    if let Some(e) = &v.value.1 { self.p(" = "); self.expr(&e.value); }
                    self.p(")");
                }
                self.p(")");
            },
            StmtKind::CallSub { at_symbol, async_, func, args } => {
                self.p(&format!("(callsub at={} {}", at_symbol, func.value.as_str()));
                match async_ {
                    None => {},
                    Some(ast::CallAsyncKind::CallAsync) => self.p(" async"),
                    Some(ast::CallAsyncKind::CallAsyncId(e)) => { self.p(" async="); self.expr(&e.value); },
                }
                for a in args { self.p(" "); self.expr(&a.value); }
                self.p(")");
            },
            StmtKind::InterruptLabel(e) => { self.p("(interrupt "); self.expr(&e.value); self.p(")"); },
            StmtKind::AbsTimeLabel(t) => { self.p("(abstime "); self.int(t.value); self.p(")"); if t.value < 0 { self.fl.neg_lit = true; } },
            StmtKind::RelTimeLabel { delta, _absolute_time_comment: _ } => { self.p("(reltime "); self.expr(&delta.value); self.p(")"); },
            StmtKind::Label(l) => self.p(&format!("(label {})", l.value.as_str())),
            StmtKind::ScopeEnd(_) => self.p("(scope-end)"),
            StmtKind::NoInstruction => self.p("(bookend)"),
        }
        self.p(")");
    }

    fn var(&mut self, v: &ast::Var) {
        let sig = match v.ty_sigil { None => "", Some(ast::VarSigil::Int) => "$", Some(ast::VarSigil::Float) => "%" };
        match &v.name {
            ast::VarName::Normal { ident, language_if_reg: _ } => self.p(&format!("(var {}{})", sig, ident.as_str())),
            ast::VarName::Reg { reg, language: _ } => self.p(&format!("(reg {}{})", sig, reg.0)),
        }
    }

    fn lit(&mut self, l: Lit) {
        match l {
            Lit::I(v) => self.int(v),
            Lit::F(b) => self.p(&format!("f:{:#010x}", b)),
        }
    }

    fn expr(&mut self, e: &Expr) {
        // flags (independent of the mode)
        match e {
            Expr::LitInt { value, .. } if *value < 0 => self.fl.neg_lit = true,
            Expr::LitFloat { value } => {
                if value.is_sign_negative() { self.fl.neg_lit = true; }
                if !value.is_finite() { self.fl.nonfinite = true; }
            },
            Expr::UnOp(op, inner) => {
                if op.value == ast::UnOpKind::Neg && matches!(inner.value, Expr::LitInt { .. } | Expr::LitFloat { .. }) { self.fl.neg_lit = true; }
                if matches!(inner.value, Expr::UnOp(..)) { self.fl.nested_unary = true; }
            },
            Expr::DiffSwitch(_) => self.fl.switch = true,
            _ => {},
        }
        if self.fold {
            if let Some(l) = fold_lit(e) { self.lit(l); return; }
        }
        match e {
            Expr::Ternary { cond, question: _, left, colon: _, right } => {
                self.p("(?: "); self.expr(&cond.value); self.p(" "); self.expr(&left.value); self.p(" "); self.expr(&right.value); self.p(")");
            },
            Expr::BinOp(a, op, b) => {
                self.p(&format!("(bin {} ", op.value)); self.expr(&a.value); self.p(" "); self.expr(&b.value); self.p(")");
            },
            Expr::UnOp(op, x) => { self.p(&format!("(un {:?} ", op.value)); self.expr(&x.value); self.p(")"); },
            Expr::XcrementOp { op, order, var } => { self.p(&format!("(xcrement {} {:?} ", op.value, order)); self.var(&var.value); self.p(")"); },
            Expr::Var(v) => self.var(&v.value),
            Expr::Call(ast::ExprCall { name, pseudos, args }) => {
                match &name.value {
                    ast::CallableName::Normal { ident, language_if_ins: _ } => self.p(&format!("(call {}", ident.as_str())),
                    ast::CallableName::Ins { opcode, language: _ } => self.p(&format!("(call-ins {}", opcode)),
                }
                for ps in pseudos { self.p(&format!(" (@{} ", ps.value.kind.value)); self.expr(&ps.value.value.value); self.p(")"); }
                self.p(" (args");
                for a in args { self.p(" "); self.expr(&a.value); }
                self.p("))");
            },
            Expr::DiffSwitch(cases) => {
                self.p("(switch");
                for c in cases.iter() { match c { Some(c) => { self.p(" "); self.expr(&c.value); }, None => self.p(" <hole>") } }
                self.p(")");
            },
            Expr::LitInt { value, format } => {
                self.int(*value);
                if !self.fold { self.p(&format!("/{:?}{}", format.radix, if format.signed { "s" } else { "u" })); }
            },
            Expr::LitFloat { value } => self.p(&format!("f:{:#010x}", value.to_bits())),
            Expr::LitString(s) => { self.p("str:"); self.string(&s.string); },
            Expr::LabelProperty { label, keyword } => self.p(&format!("({} {})", keyword.value, label.value.as_str())),
            Expr::EnumConst { enum_name, ident } => self.p(&format!("(enum {}.{})", enum_name.value.as_str(), ident.value.as_str())),
        }
    }
}

fn canon_file(f: &ast::ScriptFile, fold: bool) -> (String, Flags) {
    let mut c = Canon::new(fold);
    c.file(f);
    (c.s, c.fl)
}

// =============================================================================================
// driving the real parser and formatter

enum ParseErr { Rejected(String), Panicked(Panic) }

fn first_error_line(diag: &str) -> String {
    let l = diag.lines().find(|l| l.starts_with("error") || l.starts_with("bug")).unwrap_or_else(|| diag.lines().next().unwrap_or(""));
    l.chars().take(160).collect()
}

/// Parse one text in a fresh context (so that nothing leaks between cases).
fn parse_file(text: &str) -> Result<ast::ScriptFile, ParseErr> {
    let mut scope = truth::Builder::new().capture_diagnostics(true).build();
    let mut truth = scope.truth();
    let r = catch(|| match truth.parse::<ast::ScriptFile>("<input>", text.as_bytes()) {
        Ok(a) => Ok(a.value),
        Err(e) => { let e: truth::ErrorReported = e; e.ignore(); Err(()) },
    });
    match r {
        Ok(Ok(a)) => Ok(a),
        Ok(Err(())) => {
            let diag = catch(|| truth.get_captured_diagnostics().unwrap_or_default()).unwrap_or_else(|p| p.text);
            Err(ParseErr::Rejected(diag))
        },
        Err(p) => Err(ParseErr::Panicked(p)),
    }
}

fn print_file(a: &ast::ScriptFile, width: usize) -> Result<String, Panic> {
    catch(|| {
        let mut out = vec![];
        {
            let cfg = truth::fmt::Config::new().max_columns(width);
            let mut f = truth::Formatter::with_config(&mut out, cfg);
            if let Err(e) = f.fmt(a) { panic!("formatter error: {:#}", e); }
        }
        String::from_utf8(out).expect("formatter output is utf-8")
    })
}

/// Characters of `t` that are outside string literals (string bodies replaced by nothing).
fn outside_strings(t: &str) -> String {
    let mut out = String::new();
    let mut in_str = false; let mut esc = false;
    for c in t.chars() {
        if in_str {
            if esc { esc = false; } else if c == '\\' { esc = true; } else if c == '"' { in_str = false; out.push('"'); }
        } else { out.push(c); if c == '"' { in_str = true; } }
    }
    out
}

/// Root-cause class of a failure, recognised from the *printed* text; falls back to the generator's class.
fn classify(kind: &str, printed: &str, raw_flags: &Flags, class: &str) -> String {
    if kind == "print-panics-line-break-in-label" { return "label-with-call".into(); }
    let t: Vec<char> = outside_strings(printed).chars().collect();
    if kind == "reparse-fails" || kind == "reparse-panics" {
        for i in 0..t.len().saturating_sub(1) {
            if t[i] == '!' && "-*ENHLWXYZO4567".contains(t[i + 1]) { return "unop-not-glued-to-difficulty-token".into(); }
        }
        for i in 0..t.len().saturating_sub(2) {
            let two_minus = t[i] == '-' && t[i + 1] == '-';
            if two_minus && (t[i + 2].is_ascii_digit() || t[i + 2] == '-' || t[i + 2] == '(') { return "prefix-op-glued-to-minus".into(); }
            if t[i] == '~' && t[i + 1] == '-' { return "prefix-op-glued-to-minus".into(); }
        }
    }
    if kind == "reparse-fails" {
        let joined: String = t.iter().collect();
        if joined.contains("+++") { return "rel-time-plus-glued-to-increment".into(); }
    }
    if kind.ends_with("ast-differs") {
        let joined: String = t.iter().collect();
        if joined.contains("--INF") || joined.contains("--NAN") { return "neg-of-negative-literal-reparses-as-decrement".into(); }
    }
    if kind == "not-idempotent" && raw_flags.neg_lit { return "negative-literal-reparses-as-parenthesised-unop".into(); }
    class.to_string()
}

#[derive(Debug, Clone)]
struct Fail { kind: String, class: String, width: usize, printed: Option<String>, note: String }

struct PEval {
    widths_done: u64,
    comparisons: u64,
    changes_with_width: bool,
    t99: String,
    fails: Vec<Fail>,
    outcomes: Vec<(String, u64)>,
}

/// Evaluate one parsed AST at the given widths.
fn eval_p(a: &ast::ScriptFile, class: &str, widths: &[usize]) -> PEval {
    let (c0, _) = canon_file(a, true);
    let (_, raw_flags) = canon_file(a, false);
    let mut ev = PEval { widths_done: 0, comparisons: 0, changes_with_width: false, t99: String::new(), fails: vec![], outcomes: vec![] };
    let mut texts: BTreeSet<String> = BTreeSet::new();
    let mut oc: BTreeMap<String, u64> = BTreeMap::new();
    for &w in widths {
        ev.widths_done += 1;
        let fail = |ev: &mut PEval, oc: &mut BTreeMap<String, u64>, kind: &str, printed: Option<&str>, note: String| {
            let cls = classify(kind, printed.unwrap_or(""), &raw_flags, class);
            *oc.entry(format!("{kind}:{cls}")).or_insert(0) += 1;
            ev.fails.push(Fail { kind: kind.into(), class: cls, width: w, printed: printed.map(|s| s.to_string()), note });
        };
        let t = match print_file(a, w) {
            Ok(t) => t,
            Err(p) => {
                let kind = if p.text.contains("Detected line break in label") { "print-panics-line-break-in-label" } else { "print-panics" };
                fail(&mut ev, &mut oc, kind, None, p.text); continue;
            },
        };
        if w == 99 { ev.t99 = t.clone(); }
        texts.insert(t.clone());
        let a2 = match parse_file(&t) {
            Ok(a2) => a2,
            Err(ParseErr::Rejected(d)) => { fail(&mut ev, &mut oc, "reparse-fails", Some(&t), first_error_line(&d)); continue; },
            Err(ParseErr::Panicked(p)) => { fail(&mut ev, &mut oc, "reparse-panics", Some(&t), p.text); continue; },
        };
        ev.comparisons += 1;
        let (c2, _) = canon_file(&a2, true);
        if c2 != c0 {
            fail(&mut ev, &mut oc, "ast-differs", Some(&t), first_diff(&c0, &c2));
            continue;
        }
        match print_file(&a2, w) {
            Err(p) => { fail(&mut ev, &mut oc, "reprint-panics", Some(&t), p.text); continue; },
            Ok(t2) => {
                ev.comparisons += 1;
                if t2 != t { fail(&mut ev, &mut oc, "not-idempotent", Some(&t), first_diff(&t, &t2)); continue; }
            },
        }
        *oc.entry("ok".into()).or_insert(0) += 1;
    }
    ev.changes_with_width = texts.len() > 1;
    ev.outcomes = oc.into_iter().collect();
    ev
}

fn first_diff(a: &str, b: &str) -> String {
    let ac: Vec<char> = a.chars().collect(); let bc: Vec<char> = b.chars().collect();
    let mut i = 0;
    while i < ac.len() && i < bc.len() && ac[i] == bc[i] { i += 1; }
    let s = i.saturating_sub(30);
    let ea: String = ac[s..(i + 50).min(ac.len())].iter().collect();
    let eb: String = bc[s..(i + 50).min(bc.len())].iter().collect();
    format!("first difference at char {i}: expected …{ea}… found …{eb}…")
}

fn key128(s: &str) -> (u64, u64) {
    use std::hash::{Hash, Hasher};
    let mut h1 = std::collections::hash_map::DefaultHasher::new();
    s.hash(&mut h1);
    let mut h2 = std::collections::hash_map::DefaultHasher::new();
    0xC08u32.hash(&mut h2); s.len().hash(&mut h2); s.hash(&mut h2);
    (h1.finish(), h2.finish())
}

/// Pairs of texts that denote different scripts: the canonical form must tell them apart (and must identify
/// the spellings that denote the same script).
fn oracle_selftest() -> Vec<String> {
    let mut errs = vec![];
    let differ = [
        ("I0 = (a + b) * c;", "I0 = a + (b * c);"), ("I0 = (a - b) - c;", "I0 = a - (b - c);"), ("f(0.1);", "f(0.10000001);"), ("f(0.0);", "f(-0.0);"),
        ("f(\"\\n\");", "f(\"n\");"), ("f(a::b);", "f(a:b:);"), ("f(a:b);", "f(a ? b : b);"), ("I0 = a ? b : (c ? d : e);", "I0 = (a ? b : c) ? d : e;"),
        ("f(1);", "f(1, 1);"), ("I0 = -x;", "I0 = x;"), ("I0 = !(!x);", "I0 = x;"), ("5:", "+5:"), ("{\"E\"}: f();", "{\"N\"}: f();"), ("f(2147483647);", "f(2147483648);"),
        ("goto l @ 5;", "goto l @ -5;"), ("I0 = $x;", "I0 = %x;"), ("I0 += 1;", "I0 -= 1;"), ("if (a) { } else { }", "if (a) { }"), ("f(@mask=1);", "f(@arg0=1);"),
    ];
    let same = [("I0 = -1;", "I0 = 0xffffffff;"), ("I0 = -(-1);", "I0 = 1;"), ("I0 = (a + b);", "I0 = a + b;"), ("f(0x10);", "f(16);"), ("f(1.f);", "f(1.0);"), ("F0 = INF;", "F0 = 999999999999999999999999999999999999999999.0;")];
    let canon = |body: &str| -> Option<String> { parse_file(&format!("script s {{ {body} }}")).ok().map(|a| canon_file(&a, true).0) };
    for (a, b) in differ {
        match (canon(a), canon(b)) { (Some(x), Some(y)) => if x == y { errs.push(format!("canonical form does not distinguish `{a}` from `{b}`")); }, _ => errs.push(format!("self-test text rejected: `{a}` / `{b}`")) }
    }
    for (a, b) in same {
        match (canon(a), canon(b)) { (Some(x), Some(y)) => if x != y { errs.push(format!("canonical form distinguishes `{a}` from `{b}`")); }, _ => errs.push(format!("self-test text rejected: `{a}` / `{b}`")) }
    }
    errs
}

fn has_nondecimal(text: &str) -> bool {
    let t = outside_strings(text);
    t.contains("0x") || t.contains("0X") || t.contains("0b") || t.contains("0B")
}

// =============================================================================================
// run

struct Acc {
    failure_counts: BTreeMap<String, u64>,
    best: BTreeMap<String, (usize, Value)>,
}
impl Acc {
    fn add(&mut self, sig: String, size: usize, detail: Value) {
        *self.failure_counts.entry(sig.clone()).or_insert(0) += 1;
        match self.best.get(&sig) {
            Some((s, _)) if *s <= size => {},
            _ => { self.best.insert(sig, (size, detail)); },
        }
    }
}

static EDFS_EXTRA: std::sync::atomic::AtomicBool = std::sync::atomic::AtomicBool::new(false);

pub fn run(tier: &str) -> Report {
    let mut rep = Report::new("C08", tier, "model_checking");
    // quick uses the hand-written families at their full (formerly thorough-only) size and the E-DFS generators at
    // bounds (4, 3); thorough raises the E-DFS bounds to (5, 4) and prints 20 000 ASTs at every width 1..=200
    let extra = rep.is_thorough();
    let thorough = true;
    EDFS_EXTRA.store(extra, std::sync::atomic::Ordering::Relaxed);
    let deadline = rep.deadline();
    rep.rule = "the printed text changes with the width, or contains a negative literal, non-decimal literal, escape, switch or nested unary".into();
    let mut acc = Acc { failure_counts: BTreeMap::new(), best: BTreeMap::new() };
    let mut families: BTreeMap<String, u64> = BTreeMap::new();
    let mut timings = serde_json::Map::new();
    let mut capped = false;

    let st = oracle_selftest();
    rep.extra.insert("oracle_selftest".into(), json!(if st.is_empty() { "25 pairs: canonical form separates different scripts and identifies equal ones".to_string() } else { st.join("; ") }));
    for e in st { rep.machinery_errors.push(format!("oracle self-test: {e}")); }

    // ---------------- (P) parser-produced ASTs
    let t0 = std::time::Instant::now();
    let (cases, edfs_note, edfs_capped) = gen_p(thorough);
    rep.extra.insert("edfs".into(), json!(edfs_note));
    if edfs_capped { capped = true; }
    rep.transitions += cases.len() as u64;
    for c in &cases { *families.entry(format!("P:{}", c.class)).or_insert(0) += 1; }
    timings.insert("p_generate_s".into(), json!(t0.elapsed().as_secs_f64()));

    // stage 1: parse every text, key it by the faithful canonical form
    let t1 = std::time::Instant::now();
    let parsed = par_map(&cases, Some(deadline), |_, c| {
        match parse_file(&c.text) {
            Ok(a) => { let (k, _) = canon_file(&a, false); Ok(key128(&k)) },
            Err(ParseErr::Rejected(d)) => Err(format!("rejected: {}", first_error_line(&d))),
            Err(ParseErr::Panicked(p)) => Err(format!("panicked: {}", p.signature())),
        }
    });
    timings.insert("p_parse_s".into(), json!(t1.elapsed().as_secs_f64()));
    let mut distinct: BTreeMap<(u64, u64), usize> = BTreeMap::new();   // 128-bit hash of the faithful canonical form -> index of the shortest text
    let mut rejected_samples: BTreeMap<String, Vec<String>> = BTreeMap::new();
    for (i, r) in parsed.iter().enumerate() {
        match r {
            None => { capped = true; },
            Some(Ok(k)) => {
                let e = distinct.entry(*k).or_insert(i);
                if cases[i].text.len() < cases[*e].text.len() { *e = i; }
            },
            Some(Err(why)) => {
                let key = if why.starts_with("panicked") { "input-parse-panicked" } else { "input-rejected-by-parser" };
                rep.discard(&format!("{key}:{}", cases[i].class));
                let v = rejected_samples.entry(format!("{}|{}", cases[i].class, why)).or_default();
                if v.len() < 2 { v.push(cases[i].text.clone()); }
            },
        }
    }
    drop(parsed);
    let mut work: Vec<usize> = distinct.values().copied().collect();
    work.sort_by_key(|&i| (cases[i].text.len(), i));
    rep.states += work.len() as u64;
    let all_widths: Vec<usize> = (1..=200).collect();
    let n_full = if extra { 20000 } else { 1000 };

    // stage 2: all widths
    let t2 = std::time::Instant::now();
    let items: Vec<(usize, usize)> = work.iter().enumerate().map(|(rank, &i)| (rank, i)).collect();
    let results = par_map(&items, Some(deadline), |_, &(rank, i)| {
        let c = &cases[i];
        let a = match parse_file(&c.text) { Ok(a) => a, Err(_) => return None };
        let widths: &[usize] = if rank < n_full { &all_widths } else { &QUICK_WIDTHS };
        let ev = eval_p(&a, &c.class, widths);
        let (_, fl) = canon_file(&a, false);
        Some((ev, fl))
    });
    timings.insert("p_eval_s".into(), json!(t2.elapsed().as_secs_f64()));
    let mut n_full_done = 0u64;
    for (k, r) in results.into_iter().enumerate() {
        let (rank, i) = items[k];
        let Some(Some((ev, fl))) = r else { if r.is_none() { capped = true; } continue; };
        if rank < n_full { n_full_done += 1; }
        let c = &cases[i];
        rep.evaluations += ev.widths_done;
        rep.traces_validated += ev.comparisons;
        for (k, n) in &ev.outcomes { rep.outcome_n(&format!("P:{k}"), *n); }
        let nontrivial = ev.changes_with_width || fl.neg_lit || fl.switch || fl.nested_unary || has_nondecimal(&c.text) || outside_strings(&ev.t99).len() != ev.t99.len() && ev.t99.contains('\\');
        if nontrivial { rep.nontrivial += 1; }
        if ev.fails.is_empty() && ev.changes_with_width && (rank % 997 == 3) && rep.samples.len() < 8 {
            rep.sample(json!({"source": "P", "class": c.class, "text": c.text, "printed_at_99": ev.t99}));
        }
        // one failure per (kind, class) for this AST: the smallest width
        let mut by_sig: BTreeMap<String, Vec<&Fail>> = BTreeMap::new();
        for f in &ev.fails { by_sig.entry(format!("C08:{}:{}", f.kind, f.class)).or_default().push(f); }
        for (sig, fs) in by_sig {
            let f = fs.iter().find(|f| f.width == 99).unwrap_or(&fs[0]);
            let widths: Vec<usize> = fs.iter().map(|f| f.width).collect();
            *acc.failure_counts.entry(sig.clone()).or_insert(0) += fs.len() as u64 - 1;
            // prefer witnesses that fail at the default width, then short texts
            let rank = c.text.len() + if f.width == 99 { 0 } else { 100_000 };
            acc.add(sig, rank, json!({"source": "P", "text": c.text, "class": c.class, "width": f.width, "failing_widths": widths, "kind": f.kind, "printed": f.printed, "note": f.note}));
        }
    }
    rep.extra.insert("p_rejected_inputs".into(), json!(rejected_samples.iter().take(60).map(|(k, v)| json!({"class|why": k, "examples": v})).collect::<Vec<_>>()));

    // ---------------- (D) decompiler-produced ASTs
    let t3 = std::time::Instant::now();
    let dstats = run_d(&mut rep, &mut acc, &mut families, thorough, deadline, &mut capped);
    timings.insert("d_s".into(), json!(t3.elapsed().as_secs_f64()));
    rep.extra.insert("d_stats".into(), dstats);

    for (sig, (_, detail)) in &acc.best { rep.fail(sig.clone(), detail.clone()); }
    rep.extra.insert("failure_counts".into(), json!(acc.failure_counts));
    rep.extra.insert("families".into(), json!(families));
    rep.extra.insert("timings".into(), Value::Object(timings));
    rep.extra.insert("widths_quick".into(), json!(QUICK_WIDTHS));
    rep.extra.insert("asts_with_all_widths_1_to_200".into(), json!(n_full_done));
    if capped { rep.cap_hit = Some("wall-clock deadline reached before every case was evaluated".into()); }
    rep.exhaustive = !capped;
    rep.bound_completed = format!("P: {} generated texts -> {} distinct ASTs x widths {}; D: see d_stats", cases.len(), work.len(),
        format!("1..=200 for the {} smallest, {{1,2,10,20,40,79,80,99,100,200}} for the rest", n_full));
    rep.assumptions = vec![
        "AST equality is decided by the harness's own canonical walk over truth's public AST types, not by truth's PartialEq: spans, NodeId/ResId/LoopId, language tags, DiffLabel.mask, offset comments and the decompiler's absolute-time comment are not compared (ids differ between two parses and are not part of the script).".into(),
        "Literal signs are normalised before comparison: unary minus applied to a literal folds (recursively, with wrapping negation for ints and a sign-bit flip for floats), because the grammar has no negative literal token; the int display format (hex/bin/bool) is a printing hint and is not compared.".into(),
        "The builtin constant name INF is identified with the literal +inf (the parser can produce a LitFloat inf from an overlong decimal, which prints as INF).".into(),
        "Idempotence compares fmt_w(parse(fmt_w(A))) with fmt_w(A) byte for byte, for parser-produced ASTs only; for decompiler-produced ASTs the oracle is: text parses, recompiles to the same bytes (unless the decompiler warned), and every width re-parses to the same AST as width 99.".into(),
        "Distinct ASTs are counted by the faithful (unnormalised) canonical form, which is at least as fine as the width-99 text.".into(),
        "Comments and blank lines are not part of the AST.".into(),
    ];
    rep.explanation = "Every generated text is parsed with the real parser, printed with the real Formatter at each width, re-parsed, compared structurally and re-printed. Decompiler ASTs come from binaries compiled with user mapfile signatures and @blob pseudo-args so that arbitrary bit patterns reach the decompiler.".into();
    rep
}

// =============================================================================================
// replay

pub fn replay(detail: &Value) -> i32 {
    let width = detail["width"].as_u64().unwrap_or(99) as usize;
    match detail["source"].as_str() {
        Some("P") => {
            let text = detail["text"].as_str().unwrap_or("");
            println!("--- input text\n{text}\n--- width {width}");
            let a = match parse_file(text) {
                Ok(a) => a,
                Err(ParseErr::Rejected(d)) => { println!("input no longer parses:\n{d}"); return 0; },
                Err(ParseErr::Panicked(p)) => { println!("input parse panicked: {}", p.text); return 0; },
            };
            let ev = eval_p(&a, detail["class"].as_str().unwrap_or("?"), &[width]);
            match print_file(&a, width) { Ok(t) => println!("--- printed T_w\n{t}"), Err(p) => println!("--- printing panicked: {}", p.text) }
            if ev.fails.is_empty() { println!("--- comparison: re-parsed AST equal, re-print identical"); return 0; }
            for f in &ev.fails { println!("--- FAIL {}:{} at width {}: {}", f.kind, f.class, f.width, f.note); }
            1
        },
        Some("D") => replay_d(detail),
        _ => { println!("unknown detail.source"); 2 },
    }
}

// =============================================================================================
// (P) text generator: nested-loop enumeration over the statement/expression/meta grammar

pub struct PCase { pub text: String, pub class: String }

struct Gen { out: Vec<PCase>, seen: BTreeSet<String>, edfs_note: String, edfs_capped: bool }
impl Gen {
    fn push(&mut self, class: &str, text: String) {
        if self.seen.insert(text.clone()) { self.out.push(PCase { text, class: class.to_string() }); }
    }
    /// a statement (or several) inside `script s { ... }`
    fn body(&mut self, class: &str, body: &str) { self.push(class, format!("script s {{\n    {}\n}}\n", body)); }
}

const BINOPS: [&str; 19] = ["||", "&&", "|", "^", "&", "==", "!=", "<", "<=", ">", ">=", "<<", ">>", ">>>", "+", "-", "*", "/", "%"];
const ASSIGN_OPS: [&str; 12] = ["=", "+=", "-=", "*=", "/=", "%=", "|=", "^=", "&=", "<<=", ">>=", ">>>="];
const PREFIX_OPS: [&str; 3] = ["-", "!", "~"];
const FUNC_OPS: [&str; 13] = ["sin", "cos", "tan", "asin", "acos", "atan", "sqrt", "int", "float", "_S", "_f", "$", "%"];

fn int_spellings(thorough: bool) -> Vec<String> {
    let vals: Vec<u32> = if thorough {
        vec![0, 1, 4, 5, 6, 7, 10, 45, 47, 0x7f, 0xff, 0x7fff, 0x8000, 0xffff, 0x7fffffff, 0x80000000, 0x80000001, 0xfffffffe, 0xffffffff]
    } else {
        vec![0, 1, 4, 7, 45, 0x7fffffff, 0x80000000, 0x80000001, 0xffffffff]
    };
    let mut v = vec![];
    for x in vals {
        v.push(format!("{x}"));
        v.push(format!("{x:#x}"));
        v.push(format!("{x:#b}"));
        if thorough { v.push(format!("0X{x:X}")); v.push(format!("0B{x:b}")); v.push(format!("00{x}")); }
    }
    v
}

fn float_spellings(thorough: bool) -> Vec<String> {
    let mut v: Vec<String> = vec!["0.0", "1.5", "1f", "1.f", "1.5f", "0.1", "16777217.0", "0.30000001", "00.50", "123456789.0",
        "rad(1.5)", "rad(-1.5)", "rad(+1)", "rad(1f)", "rad(180)", "rad(1.f)", "rad(0)"].iter().map(|s| s.to_string()).collect();
    // decimal expansions of boundary bit patterns (Rust's shortest round-trip spelling has no exponent)
    let mut bits: Vec<u32> = vec![1, 0x007f_ffff, 0x0080_0000, 0x7f7f_ffff, 0x3f80_0001, 0x3f7f_ffff, 0x3dcc_cccd, 0x4b80_0001];
    if thorough { bits.extend([2, 0x0000_ffff, 0x0080_0001, 0x7f00_0000, 0x4f00_0000, 0x4eff_ffff, 0x3f00_0000, 0x3380_0000, 0x7f7f_fffe]); }
    for b in bits {
        let mut s = format!("{}", f32::from_bits(b));
        if !s.contains('.') { s.push_str(".0"); }
        v.push(s);
    }
    // exact (long) expansions: f32::MAX, twice f32::MAX (overflows to inf), below half the smallest subnormal (rounds to 0)
    v.push("340282346638528859811704183484516925440.0".into());
    v.push("680564693277057719623408366969033850880.0".into());
    v.push("99999999999999999999999999999999999999999999999999.0".into());
    v.push(format!("0.{}1", "0".repeat(60)));
    v.push("0.00000000000000000000000000000000000000000000140129846432481707092372958328991613128026194187651577175706828388979108268586060148663818836212158203125".into());
    v
}

fn string_spellings(thorough: bool) -> Vec<String> {
    let mut v: Vec<String> = vec![
        r#""""#, r#""a""#, r#""\"""#, r#""\\""#, r#""\0""#, r#""\n""#, r#""\r""#, r#""a\\\"b\n\r\0c""#, "\"raw\nnewline\"", "\"raw\ttab\"",
        "\"日本語\"", "\"ソ\"", r#""//not a comment""#, r#""/* nor this */""#, r#""{}%s;,)(""#, r#""\\n""#, "\"\u{1}\u{7f}\"", "\"\u{2028}\u{feff}\"", "\"😀é\u{301}\"",
    ].iter().map(|s| s.to_string()).collect();
    v.push(format!("\"{}\"", "long ".repeat(30)));
    if thorough {
        v.extend(["\"raw\rcr\"", r#""\"\"""#, r#""'""#, "\"\u{85}\"", "\"ｶﾀｶﾅ\"", r#""\\\\""#, r#""\0\0""#, r#""a b""#, r#"" ""#, r#""!EN""#].iter().map(|s| s.to_string()));
        v.push(format!("\"{}\"", "日本語".repeat(40)));
    }
    v
}

/// (atom text, atom class)
fn atoms(thorough: bool) -> Vec<(String, &'static str)> {
    let mut v: Vec<(String, &'static str)> = vec![];
    for s in int_spellings(thorough) { v.push((s, "int")); }
    for s in float_spellings(thorough) { v.push((s, "float")); }
    for s in string_spellings(thorough) { v.push((s, "string")); }
    for s in ["x", "X", "E", "EN", "Hello", "O4", "Z7x", "$x", "%x", "$X", "%E", "REG[5]", "$REG[-1]", "%REG[10000]", "REG[4294967295]", "REG[-2147483648]", "REG[0x10]",
              "I0", "entry", "mapfile", "default", "case", "script", "anim", "ecli", "true", "false", "INF", "NAN", "PI", "_", "a_very_long_identifier_name_that_goes_on_and_on_0123456789"] {
        v.push((s.to_string(), "var"));
    }
    for s in ["offsetof(l)", "timeof(l)", "offsetof(entry)", "Foo.Bar", "bool.true", "f()", "ins_3()", "ins_65535()", "x++", "x--", "++x", "--x", "$x++", "--%REG[3]", "X++", "--X"] {
        v.push((s.to_string(), "term"));
    }
    v
}

/// Contexts for an expression; `{}` is replaced.  (name, template, needs ExprNoColon-safe?) — every template
/// parenthesises where the grammar requires it, so any expression text that is itself parenthesis-safe fits.
fn contexts(thorough: bool) -> Vec<(&'static str, String)> {
    let mut v: Vec<(&'static str, String)> = vec![
        ("assign", "I0 = {};".into()),
        ("call-arg", "f({});".into()),
        ("call-2args", "f({}, {});".into()),
        ("if-goto", "if ({}) goto l;".into()),
        ("while", "while ({}) { }".into()),
        ("times", "times({}) { }".into()),
        ("return", "return {};".into()),
        ("decl-init", "int a = {}, b;".into()),
        ("interrupt", "interrupt[{}]:".into()),
        ("rel-time", "+({}):\n    f();".into()),
        ("neg-of", "I0 = -({});".into()),
        ("not-of", "I0 = !({});".into()),
        ("bitnot-of", "I0 = ~({});".into()),
        ("sin-of", "F0 = sin({});".into()),
        ("cast-of", "I0 = $({}) + int({});".into()),
        ("binop-left", "I0 = ({}) + b;".into()),
        ("binop-right", "I0 = a - ({});".into()),
        ("ternary-cond", "I0 = ({}) ? b : c;".into()),
        ("ternary-left", "I0 = a ? ({}) : c;".into()),
        ("ternary-right", "I0 = a ? b : ({});".into()),
        ("switch-first", "f(({}):b);".into()),
        ("switch-last", "f(a::({}));".into()),
        ("pseudo-mask", "ins_1(@mask={}, 5);".into()),
        ("expr-stmt", "({});".into()),
    ];
    if thorough {
        v.extend([
            ("op-assign", "I0 += {};".to_string()),
            ("unless-goto", "unless ({}) goto l @ 5;".into()),
            ("if-block", "if ({}) { } else if ({}) { }".into()),
            ("do-while", "do { } while ({});".into()),
            ("times-clobber", "times(I0 = {}) { }".into()),
            ("pseudo-arg0", "ins_1(@arg0={});".into()),
            ("binop-mul-right", "I0 = a * ({});".into()),
            ("switch-mid", "f(a:({}):);".into()),
            ("cos-of", "F0 = cos({}) + float({}) + %({}) + sqrt({});".into()),
            ("call-nested", "f(g({}), h(1, {}));".into()),
        ]);
    }
    v
}

/// item-level contexts (whole file templates)
fn file_contexts() -> Vec<(&'static str, String)> {
    vec![
        ("const-init", "const int A = {}, B = {};\n".into()),
        ("meta-scalar", "meta { k: ({}) }\n".into()),
        ("meta-array", "entry { k: [({}), ({})], j: {i: ({})} }\n".into()),
    ]
}

fn gen_atoms_in_contexts(g: &mut Gen, thorough: bool) {
    let at = atoms(thorough);
    for (cname, tpl) in contexts(thorough) {
        for (a, acls) in &at {
            // the rel-time/switch/expr-stmt templates parenthesise, which is transparent in the AST
            g.body(&format!("atom-in-context:{acls}:{cname}"), &tpl.replace("{}", a));
        }
    }
    for (cname, tpl) in file_contexts() {
        for (a, acls) in &at { g.push(&format!("atom-in-context:{acls}:{cname}"), tpl.replace("{}", a)); }
    }
    // unparenthesised spellings where the grammar allows them (same ASTs, but also literal-only positions)
    for (a, acls) in &at {
        if a.starts_with('-') || a.starts_with('+') { continue; }
        g.body(&format!("atom-bare:{acls}"), &format!("I0 = -{a};"));
        g.body(&format!("atom-bare:{acls}"), &format!("I0 = a + {a} * {a};"));
        g.body(&format!("atom-bare:{acls}"), &format!("+{a}:\n    f({a} : {a} : : -{a});"));
        g.push(&format!("atom-bare:{acls}"), format!("meta {{ k: {a}, j: -{a} }}\n"));
    }
}

fn gen_unops(g: &mut Gen, thorough: bool) {
    let inner: Vec<&str> = if thorough {
        vec!["3", "4", "x", "X", "E7", "0xffffffff", "0x80000000", "1.5", "(a + b)", "(a : b)", "(a ? b : c)", "\"s\"", "f(1)", "--x", "x--", "++x", "REG[-1]"]
    } else {
        vec!["3", "4", "x", "X", "0xffffffff", "1.5", "(a + b)", "(a : b)", "--x", "x--"]
    };
    let mut ops: Vec<String> = PREFIX_OPS.iter().map(|s| s.to_string()).collect();
    ops.extend(FUNC_OPS.iter().map(|s| s.to_string()));
    let ap = |op: &str, x: &str| -> String { format!("{op}({x})") };
    for o1 in &ops { for x in &inner {
        g.body("unop:single", &format!("I0 = {};", ap(o1, x)));
        g.body("unop:single", &format!("f({}, b);", ap(o1, x)));
        g.body("unop:single", &format!("I0 = a * {} - c;", ap(o1, x)));
        for o2 in &ops {
            let e = ap(o1, &ap(o2, x));
            g.body("unop:nested2", &format!("I0 = {e};"));
            g.body("unop:nested2", &format!("f({e});"));
        }
    }}
    let deep: Vec<&str> = if thorough { vec!["3", "x", "X", "0xffffffff", "1.5", "--x"] } else { vec!["3", "X", "0xffffffff"] };
    for o1 in PREFIX_OPS { for o2 in PREFIX_OPS { for o3 in PREFIX_OPS { for x in &deep {
        let e = ap(o1, &ap(o2, &ap(o3, x)));
        g.body("unop:nested3", &format!("I0 = {e};"));
        g.body("unop:nested3", &format!("f(a, {e});"));
        if thorough { for o4 in PREFIX_OPS { g.body("unop:nested4", &format!("I0 = {};", ap(o4, &e))); } }
    }}}}
    // bare prefix operators (one level is all the grammar allows without parentheses)
    for o in PREFIX_OPS { for x in ["3", "4", "x", "X", "Hello", "1.5", "f(1)", "x++", "++x", "REG[1]", "$x", "%X", "\"s\"", "offsetof(l)", "Foo.Bar"] {
        // `!` directly before [ENHLWXYZO4567-*] lexes as the (unused) difficulty token: those texts only probe the lexer
        let cls = if o == "!" && "ENHLWXYZO4567".contains(&x[..1]) { "unop:bare-lexer-probe" } else { "unop:bare" };
        g.body(cls, &format!("I0 = {o}{x};"));
        g.body(cls, &format!("I0 = a - {o}{x} * {o} {x};"));
        g.body(cls, &format!("f({o}{x}, {o}{x});"));
    }}
}

fn gen_binops(g: &mut Gen, thorough: bool) {
    for o1 in BINOPS { for o2 in BINOPS {
        g.body("binop:pair-left", &format!("I0 = (a {o1} b) {o2} c;"));
        g.body("binop:pair-right", &format!("I0 = a {o1} (b {o2} c);"));
        g.body("binop:pair-natural", &format!("I0 = a {o1} b {o2} c;"));
        g.body("binop:pair-in-call", &format!("f((a {o1} b) {o2} c, a {o1} (b {o2} c));"));
        if thorough {
            g.body("binop:pair-in-cond", &format!("if ((a {o1} b) {o2} c) goto l;"));
            g.body("binop:pair-in-cond", &format!("while (a {o1} (b {o2} c)) {{ }}"));
            g.body("binop:pair-with-unary", &format!("I0 = -(a {o1} b) {o2} !c;"));
            g.body("binop:pair-with-unary", &format!("I0 = -a {o1} ~(b {o2} -1);"));
        }
    }}
    for o in BINOPS {
        for (a, b) in [("-a", "b"), ("a", "-b"), ("a", "!b"), ("a", "~b"), ("a", "-1"), ("-1", "b"), ("a", "0xffffffff"), ("0xffffffff", "0x80000000"), ("a", "-1.5"), ("a", "--b"), ("a--", "b"), ("a++", "++b"), ("a", "-(-1)"),
                       ("(a ? b : c)", "d"), ("a", "(b : c)"), ("\"s\"", "\"t\""), ("f(a, b)", "g()"), ("sin(a)", "$(b)")] {
            g.body("binop:operands", &format!("I0 = {a} {o} {b};"));
            g.body("binop:operands", &format!("f({a} {o} {b});"));
        }
    }
    // long chains (left and right nested) so that lines exceed every width
    let n_max = if thorough { 24 } else { 12 };
    for n in 2..=n_max {
        let left = (0..n).fold("v0".to_string(), |acc, i| format!("({acc} + value{i})"));
        let right = (0..n).rev().fold("v0".to_string(), |acc, i| format!("(value{i} * {acc})"));
        g.body("binop:chain", &format!("I0 = {left};"));
        g.body("binop:chain", &format!("I0 = {right};"));
        g.body("binop:chain", &format!("f({left}, {right});"));
    }
}

fn gen_ternary_switch(g: &mut Gen, thorough: bool) {
    // ternary shapes: every slot is an atom, a ternary, a switch or a binop (parenthesised: the grammar needs it
    // everywhere except the right-associative chain, which is also spelled naturally)
    let slot = ["a", "(p ? q : r)", "(p : q)", "(p + q)", "-1", "(p : : q : )"];
    for c in slot { for l in slot { for r in slot {
        g.body("ternary:shapes", &format!("I0 = {c} ? {l} : {r};"));
        g.body("ternary:shapes-in-call", &format!("f({c} ? {l} : {r}, z);"));
    }}}
    for n in 1..=(if thorough { 8 } else { 5 }) {
        let mut right = "z".to_string(); let mut left = "z".to_string(); let mut cond = "z".to_string();
        for i in 0..n { right = format!("c{i} ? v{i} : {right}"); left = format!("c{i} ? ({left}) : v{i}"); cond = format!("({cond}) ? v{i} : w{i}"); }
        for e in [&right, &left, &cond] {
            g.body("ternary:chains", &format!("I0 = {e};"));
            g.body("ternary:chains", &format!("f({e});"));
            g.body("ternary:chains", &format!("if ({e}) goto l;"));
        }
    }
    // difficulty switches with holes (the first case cannot be a hole)
    let max_n = if thorough { 6 } else { 5 };
    let case_vals = ["a", "-1", "(p + q)", "(p ? q : r)", "(p : q)", "\"s\"", "1.5", "f(1, 2)", "0xffffffff", "!(X)"];
    for n in 2..=max_n {
        for holes in 0u32..(1 << (n - 1)) {
            for (vi, v0) in case_vals.iter().enumerate() {
                if vi >= 3 && holes % 3 != 0 && !thorough { continue; }
                let mut parts: Vec<String> = vec![v0.to_string()];
                for i in 1..n { parts.push(if holes >> (i - 1) & 1 == 1 { String::new() } else { case_vals[(vi + i) % case_vals.len()].to_string() }); }
                let sw = parts.join(":");
                g.body("switch:holes", &format!("f({sw});"));
                g.body("switch:holes", &format!("I0 = {sw};"));
                if vi < 3 || thorough {
                    g.body("switch:nested", &format!("f(1, ({sw}) + 2, -({sw}), ({sw}) ? ({sw}) : 3);"));
                    g.body("switch:nested", &format!("I0 = (({sw}) : ({sw}) : );"));
                    g.body("switch:nested", &format!("ins_1(@mask=({sw}), {sw});"));
                }
            }
        }
    }
    for ctx in ["while ({}) { }", "times({}) { }", "return {};", "int a = {};", "interrupt[{}]:", "+({}):\n    f();", "if ({}) goto l;", "I0 = sin({});"] {
        for sw in ["a:b", "a::b", "a:b:", "a:::", "1:2:3:4", "-1:-2::-4"] { g.body("switch:contexts", &ctx.replace("{}", sw)); }
    }
    for sw in ["a:b", "a::b:", "-1:2"] { g.push("switch:contexts", format!("meta {{ k: ({sw}), j: [({sw})] }}\nconst int A = {sw};\n")); }
}

fn ident_of_len(prefix: &str, i: usize, len: usize) -> String {
    let mut s = format!("{prefix}{i}");
    while s.len() < len { s.push('_'); s.push_str(&format!("{}", s.len() % 10)); }
    s.truncate(len.max(prefix.len() + 1));
    s
}

fn gen_calls(g: &mut Gen, thorough: bool) {
    let lens: Vec<usize> = if thorough { vec![1, 2, 3, 5, 8, 12, 15, 20, 30, 50] } else { vec![1, 3, 8, 15, 30] };
    for n in 0..=12usize { for &len in &lens {
        let args: Vec<String> = (0..n).map(|i| ident_of_len("a", i, len)).collect();
        let list = args.join(", ");
        g.body("call:n-args", &format!("f({list});"));
        g.body("call:n-args", &format!("ins_23({list});"));
        g.body("call:n-args", &format!("I0 = g({list}) + h({list});"));
        if n > 0 {
            // a nested call in every position
            for pos in [0, n / 2, n - 1] {
                let mut a2 = args.clone(); a2[pos] = format!("inner({list})");
                g.body("call:nested", &format!("f({});", a2.join(", ")));
                if thorough { let mut a3 = args.clone(); a3[pos] = format!("p(q({list}), r({}))", a2.join(", ")); g.body("call:nested", &format!("I0 = f({});", a3.join(", "))); }
            }
            g.body("call:trailing-comma", &format!("f({list},);"));
            // mixed literal kinds
            let mixed: Vec<String> = (0..n).map(|i| match i % 6 { 0 => format!("-{}", i + 1), 1 => format!("{}.5", i), 2 => format!("\"{}\"", "s".repeat(len)), 3 => format!("(x{i} : y{i})"), 4 => format!("(c ? x{i} : y{i})"), _ => format!("-z{i}") }).collect();
            g.body("call:mixed-args", &format!("f({});", mixed.join(", ")));
        }
    }}
    // pseudo-args: every ordered subset, then 0/1/3 positional args
    let pseudos = ["@mask=0b101", "@blob=\"00ff 0011\"", "@arg0=-4", "@pop=1", "@nargs=3", "@mask=a + b", "@blob=\"\"", "@arg0=(1 : 2)"];
    for m in 1u32..(1 << 5) {
        let ps: Vec<&str> = (0..5).filter(|i| m >> i & 1 == 1).map(|i| pseudos[i]).collect();
        for tail in ["", ", 1", ", 1, x, 2.5"] {
            g.body("call:pseudo-args", &format!("ins_7({}{tail});", ps.join(", ")));
        }
    }
    for p in &pseudos[5..] { g.body("call:pseudo-args", &format!("ins_7({p}, 1);")); g.body("call:pseudo-args", &format!("I0 = f({p});")); }
    for n in 1..=6 { let blob = "0123abCD ".repeat(n * 3); g.body("call:pseudo-args", &format!("ins_7(@mask=1, @blob=\"{}\");", blob.trim())); }
    // sub calls (`@f(...) async`): the grammar accepts them only when a pseudo-arg is present
    for s in ["@f(@mask=1, 2) async;", "@f(@mask=1) async 5;", "f(@mask=1, 2, 3) async;", "f(@pop=0, x) async -1;", "@f(@mask=1, 2);"] { g.body("call:sub-call", s); }
}

fn stmt_pool(thorough: bool) -> Vec<&'static str> {
    let mut v = vec![
        "f(1);", "I0 = 1;", "l1:", "5:", "+5:", "-5:", "interrupt[1]:", "interrupt[2]:", "{\"EN\"}: f(2);", "goto l1 @ 5;", "if (a) goto l1;",
        "if (a) { f(3); }", "while (a) { break; }", "{ }", "{ f(4); }", "int a = 1;", "return;", "loop { }", "const int A = 1;", "void g() { }",
        "{\"H\"}: interrupt[3]:", "times(3) { }", "do { } while (a);", "if (a) { } else { }",
    ];
    if thorough { v.extend(["0:", "+0:", "{\"\"}: f(5);", "loop { unless (a) break; }", "int b;", "inline void h(int x) { return; }", "x++;", "{ l2: }", "+(a + 1):"]); }
    v
}

fn gen_statements(g: &mut Gen, thorough: bool) {
    for op in ASSIGN_OPS { for v in ["x", "$x", "%x", "REG[3]", "$REG[-3]", "I0", "X", "entry"] {
        g.body("stmt:assign", &format!("{v} {op} 1;"));
        g.body("stmt:assign", &format!("{v} {op} -1 + b;"));
        g.body("stmt:assign", &format!("{v} {op} 0xffffffff;"));
    }}
    // declarations: 1..3 declarators, each with or without an initialiser
    let inits = ["", " = 1", " = -1", " = a + b", " = f(x, y)", " = 0x80000000", " = (1 : 2)", " = c ? 1.5 : -2.5"];
    for ty in ["int", "float", "var"] {
        for i in 0..inits.len() {
            g.body("stmt:decl", &format!("{ty} a{};", inits[i]));
            for j in 0..inits.len() {
                g.body("stmt:decl", &format!("{ty} a{}, b{};", inits[i], inits[j]));
                if thorough || (i + j) % 3 == 0 { for k in [0, 2, 4] { g.body("stmt:decl", &format!("{ty} a{}, bb{}, ccc{};", inits[i], inits[j], inits[k])); } }
            }
        }
    }
    // labels
    for t in int_spellings(true) {
        g.body("stmt:time-label", &format!("{t}:\n    f();"));
        g.body("stmt:time-label", &format!("-{t}:\n    f();"));
        g.body("stmt:time-label", &format!("+{t}:\n    f();"));
        g.body("stmt:goto", &format!("goto l @ {t};"));
        g.body("stmt:goto", &format!("goto l @ -{t};"));
        g.body("stmt:goto", &format!("if (a) goto l @ -{t};"));
        g.push("item:script-number", format!("script {t} s {{ }}\nscript -{t} t {{ }}\n"));
    }
    for e in ["(2*3)", "x", "f(1)", "-1", "(-1)", "(a ? b : c)", "f(aaaaaaaaaaaaaaaaaaaa, bbbbbbbbbbbbbbbbbbbbbbb, cccccccccccccccccccccc)", "f(aaaaaaaaaaaaaaaaaaaaaaaaaaaaaaaaaaaaaaaa, bbbbbbbbbbbbbbbbbbbbbbbbbbbbbbbbbbbbbbbb, cccccccccccccccccccccccccccccccccccccccc)", "1.5", "\"s\"", "x++"] {
        g.body("stmt:rel-time-expr", &format!("+{e}:\n    f();"));
        g.body("stmt:interrupt-expr", &format!("interrupt[{e}]:\n    f();"));
        g.body("stmt:interrupt-expr", &format!("f();\ninterrupt[{e}]:\ninterrupt[1 + {e}]:\n    f();"));
    }
    for l in ["l", "L", "E", "entry", "default", "case", "script", "mapfile", "_", "a1"] {
        g.body("stmt:label", &format!("{l}:\n    goto {l};\n    I0 = offsetof({l}) + timeof({l});"));
    }
    // difficulty labels on every physical statement kind
    let phys = ["f(1);", "I0 = 1;", "goto l;", "if (a) goto l;", "if (a) { } else { }", "while (a) { }", "do { } while (a);", "loop { }", "times(2) { }", "{ f(); }", "return;", "return 1;",
                "int a = 1;", "interrupt[1]:", "x++;", "ins_1(@mask=1);"];
    for d in ["EN", "", "*-E", "日本", "a\\\"b", "ENHLX4567", "-"] { for p in phys {
        g.body("stmt:diff-label", &format!("{{\"{d}\"}}: {p}"));
        if thorough { g.body("stmt:diff-label", &format!("f();\n{{\"{d}\"}}: {p}\n{{\"{d}\"}}: {p}\nl:")); }
    }}
    // conditional jumps and chains
    for kw in ["if", "unless"] { for j in ["goto l", "goto l @ 5", "goto l @ -5", "break"] {
        g.body("stmt:cond-jump", &format!("loop {{ {kw} (a == b) {j}; }}"));
        g.body("stmt:cond-jump", &format!("loop {{ {kw} (a) {j}; {j}; }}"));
    }}
    for n in 1..=4usize { for kws in 0u32..(1 << n) { for els in [false, true] { for body in ["", "f();", "if (z) { g(); } else { h(); }"] {
        let mut s = String::new();
        for i in 0..n {
            if i > 0 { s.push_str(" else "); }
            s.push_str(&format!("{} (c{i}) {{ {body} }}", if kws >> i & 1 == 1 { "unless" } else { "if" }));
        }
        if els { s.push_str(&format!(" else {{ {body} }}")); }
        if n == 4 && !thorough && !body.is_empty() { continue; }
        g.body("stmt:cond-chain", &s);
    }}}}
    // loops
    let bodies = ["", "f();", "loop { break; }", "loop { if (a) break; }", "l:", "5:\n f();", "loop { break; }", "while (b) { times(2) { do { } while (c); } }", "int q = 1;", "{ }"];
    for b in bodies {
        for head in ["while (a) {{ {} }}", "do {{ {} }} while (a);", "times(3) {{ {} }}", "times(I0 = 3) {{ {} }}", "times($REG[3] = a + 1) {{ {} }}", "loop {{ {} }}", "{{ {} }}", "{{ {{ {} }} }}", "{{ {{ {{ {{ {} }} }} }} }}"] {
            g.body("stmt:loops-blocks", &head.replace("{{", "{").replace("}}", "}").replace("{}", b));
        }
    }
    for r in ["return;", "return 1;", "return -1;", "return a + b;", "return (a : b);", "return c ? 1 : 2;", "return f(1, 2);", "return \"s\";"] { g.body("stmt:return", r); }
    // statement sequences (blank-line and label suppression logic in the printer)
    let pool = stmt_pool(thorough);
    for a in &pool { for b in &pool {
        g.body("stmt:sequence2", &format!("{a}\n    {b}"));
        if thorough { for c in &pool { g.body("stmt:sequence3", &format!("{a}\n    {b}\n    {c}")); } }
    }}
    if !thorough {
        for (i, a) in pool.iter().enumerate() { for (j, b) in pool.iter().enumerate() { for (k, c) in pool.iter().enumerate() {
            if (i + 2 * j + 3 * k) % 5 == 0 { g.body("stmt:sequence3", &format!("{a}\n    {b}\n    {c}")); }
        }}}
    }
    // the same sequences nested in a block / loop body / function
    for a in &pool { for b in &pool {
        if !thorough && (a.len() + b.len()) % 3 != 0 { continue; }
        g.body("stmt:sequence-nested", &format!("while (w) {{ {a}\n {b} }}"));
        g.push("stmt:sequence-nested", format!("void fn() {{ {a}\n {b} }}\n"));
    }}
}

fn meta_shapes(depth: usize, breadth: usize, kind: usize, scalar: &dyn Fn(usize) -> String) -> String {
    // kind: 0 object, 1 array, 2 variant, 3 alternating
    if depth == 0 { return scalar(breadth); }
    let k = if kind == 3 { depth % 3 } else { kind };
    let child = |i: usize| meta_shapes(depth - 1, breadth, kind, &|j| scalar(i * 7 + j));
    match k {
        0 => format!("{{{}}}", (0..breadth).map(|i| format!("key{i}: {}", child(i))).collect::<Vec<_>>().join(", ")),
        1 => format!("[{}]", (0..breadth).map(|i| child(i)).collect::<Vec<_>>().join(", ")),
        _ => format!("Name{depth} {{{}}}", (0..breadth).map(|i| format!("{}: {}", i * 3, child(i))).collect::<Vec<_>>().join(", ")),
    }
}

fn gen_items(g: &mut Gen, thorough: bool) {
    // functions
    let params = ["int a", "float b", "var c", "int", "float", "int dddddddddddddddddddd", "float eeeeeeeeeeeeeeeeeeeeeeeeeeeeee", "var ffffffffffffffffffffffffffffffffffffffff"];
    for q in ["", "const ", "inline "] { for ty in ["void", "int", "float", "string"] { for n in 0..=params.len() {
        let ps = params[..n].join(", ");
        for body in [";", " { }", " { return; }"] {
            if n > 4 && !thorough && body != " { }" { continue; }
            g.push("item:func", format!("{q}{ty} func_{n}({ps}){body}\n"));
        }
        if n > 0 { g.push("item:func", format!("{q}{ty} f({ps},) {{ int z = a; }}\n")); }
    }}}
    for name in ["main", "entry", "script", "mapfile", "default", "case", "anim", "ecli", "E", "X4"] {
        g.push("item:names", format!("script {name} {{ }}\nvoid {name}();\nconst int {name} = 1;\n"));
    }
    // const items
    for ty in ["int", "float", "string"] { for vals in [vec!["1"], vec!["-1", "2"], vec!["a + b", "-1.5", "\"s\""], vec!["0xffffffff", "(1 : 2)", "c ? 1 : 2", "f(1)"]] {
        let decl = vals.iter().enumerate().map(|(i, v)| format!("C{i} = {v}")).collect::<Vec<_>>().join(", ");
        g.push("item:const", format!("const {ty} {decl};\n"));
        g.body("item:const", &format!("const {ty} {decl};\n    f();"));
    }}
    // pragmas
    for s in string_spellings(thorough) {
        g.push("item:pragma", format!("#pragma mapfile {s}\nscript s {{ }}\n"));
        g.push("item:pragma", format!("script s {{ }}\n#pragma image_source {s}\n#pragma mapfile {s}\nscript t {{ }}\n#pragma image_source \"b\"\n"));
    }
    g.push("item:pragma", "#pragma mapfile \"a\"\n".into());
    g.push("item:pragma", "#pragma image_source \"a\"\n#pragma image_source \"b\"\n".into());
    g.push("item:empty", "".into());
    g.push("item:empty", "// only a comment\n".into());
    // item sequences
    let items = ["script a { }", "void f() { }", "void g();", "const int A = 1;", "meta { k: 1 }", "entry { k: 1 }", "#pragma mapfile \"m\"", "script 3 b { f(); }", "const float B = 1.0, C = 2.0;"];
    for a in items { for b in items { 
        g.push("item:sequence", format!("{a}\n{b}\n"));
        for c in items { if thorough || (a.len() + b.len() + c.len()) % 4 == 0 { g.push("item:sequence", format!("{a}\n{b}\n{c}\n")); } }
    }}
    // metas: nested 1..4 deep
    let scalars: Vec<(&str, Box<dyn Fn(usize) -> String>)> = vec![
        ("ints", Box::new(|i| format!("{}", i * 1000))),
        ("neg", Box::new(|i| if i % 2 == 0 { format!("-{}", i + 1) } else { format!("-{}.5", i) })),
        ("strings", Box::new(|i| format!("\"{}\"", "str".repeat(i % 5)))),
        ("exprs", Box::new(|i| format!("a{i} + b * {i}"))),
        ("wrap", Box::new(|i| if i % 2 == 0 { "0xffffffff".to_string() } else { "!(X)".to_string() })),
    ];
    for kw in ["meta", "entry"] { for depth in 1..=4usize { for breadth in [0usize, 1, 2, 3, 5] { for kind in 0..4usize { for (sname, sc) in &scalars {
        if depth == 4 && breadth == 5 { continue; }
        if !thorough && (kw == "entry") && depth > 2 { continue; }
        let m = meta_shapes(depth, breadth, kind, sc.as_ref());
        g.push(&format!("meta:nested:{sname}"), format!("{kw} {{ top: {m} }}\n"));
    }}}}}
    for n in 0..=(if thorough { 40 } else { 24 }) {
        let arr: Vec<String> = (0..n).map(|i| format!("{}", i * 37)).collect();
        g.push("meta:array-length", format!("meta {{ a: [{}], b: {{ c: [{}] }} }}\n", arr.join(", "), arr.join(", ")));
        let arr2: Vec<String> = (0..n).map(|i| format!("[{i}, {}.0, \"{}\"]", i + 1, "x".repeat(i))).collect();
        g.push("meta:array-length", format!("entry {{ rows: [{}] }}\n", arr2.join(", ")));
    }
    // numeric keys, variants with and without the colon, contextual keywords as keys, trailing commas
    for k in ["0", "5", "007", "0x10", "0b11", "2147483647", "2147483648", "4294967295", "0xffffffff", "0x80000000"] {
        g.push("meta:numeric-key", format!("meta {{ {k}: 1 }}\n"));
        g.push("meta:numeric-key", format!("entry {{ scripts: {{ {k}: {{ {k}: v {{ {k}: 2 }} }} }} }}\n"));
    }
    for s in ["meta { v: name { a: 1 } }", "meta { v: name: { a: 1 } }", "meta { v: name {} }", "meta { entry: 1, script: 2, mapfile: 3, default: 4, case: 5, anim: 6, ecli: 7 }", "meta { a: 1, }", "meta { a: [1, 2,], }", "meta { }", "meta { a: [], b: {}, c: [[]], d: [{}], e: x {} }",
              "entry { sprites: { sprite0: {id: 0, x: 0.0, y: 0.0, w: 512.0, h: 480.0}, sprite1: {x: 1.0, y: 1.0, w: 2.0, h: 2.0} }, path: \"subdir/file.png\", has_data: false, img_format: FORMAT_ARGB_8888 }",
              "meta { a: b, c: d.e, f: g(1), h: -i, j: k + 1, l: (m : n), o: (p ? 1 : 2), q: offsetof(r), s: $t, u: REG[1] }"] {
        g.push("meta:syntax", format!("{s}\n"));
    }
}

/// E-DFS over an expression/statement grammar: every tree with at most `bound` non-default choices.
fn gen_edfs(g: &mut Gen, thorough: bool) {
    fn expr(ch: &mut Chooser, depth: u32, no_colon: bool) -> String {
        if depth == 0 { return ["a", "1", "-1", "X", "1.5", "\"s\""][ch.pick(6)].to_string(); }
        match ch.pick(16) {
            0 => "a".into(),
            1 => "7".into(),
            2 => "0xffffffff".into(),
            3 => "2.5".into(),
            4 => format!("{} {} {}", expr_p(ch, depth - 1), BINOPS[ch.pick(BINOPS.len())], expr_p(ch, depth - 1)),
            5 => format!("{}({})", PREFIX_OPS[ch.pick(3)], expr(ch, depth - 1, false)),
            6 => format!("{}({})", FUNC_OPS[ch.pick(FUNC_OPS.len())], expr(ch, depth - 1, false)),
            7 => { let e = format!("{} ? {} : {}", expr_p(ch, depth - 1), expr_p(ch, depth - 1), expr_p(ch, depth - 1)); if no_colon { format!("({e})") } else { e } },
            8 => {
                let n = 2 + ch.pick(3);
                let mut parts = vec![expr_p(ch, depth - 1)];
                for _ in 1..n { parts.push(if ch.pick(2) == 1 { String::new() } else { expr_p(ch, depth - 1) }); }
                let e = parts.join(" : "); if no_colon { format!("({e})") } else { e }
            },
            9 => { let n = ch.pick(4); let args: Vec<String> = (0..n).map(|_| expr(ch, depth - 1, false)).collect(); format!("f({})", args.join(", ")) },
            10 => format!("ins_9(@mask={}, {})", expr(ch, depth - 1, false), expr(ch, depth - 1, false)),
            11 => ["x++", "--x", "$x", "%REG[2]", "offsetof(l)", "Foo.Bar"][ch.pick(6)].to_string(),
            12 => "\"q\\\"\"".into(),
            13 => "X".into(),
            14 => "-x".into(),
            _ => "!x".into(),
        }
    }
    // an operand position: anything with an operator gets parentheses in the source (the AST has no paren nodes)
    fn expr_p(ch: &mut Chooser, depth: u32) -> String {
        let e = expr(ch, depth, true);
        if e.contains(' ') || e.starts_with('-') || e.starts_with('!') || e.starts_with('~') { format!("({e})") } else { e }
    }
    fn stmt(ch: &mut Chooser, depth: u32) -> String {
        match ch.pick(12) {
            0 => format!("I0 = {};", expr(ch, 2, false)),
            1 => format!("f({});", expr(ch, 2, false)),
            2 => format!("if ({}) {{ {} }}", expr(ch, 1, false), if depth > 0 { stmt(ch, depth - 1) } else { String::new() }),
            3 => format!("if ({}) {{ {} }} else {{ {} }}", expr(ch, 1, false), if depth > 0 { stmt(ch, depth - 1) } else { String::new() }, if depth > 0 { stmt(ch, depth - 1) } else { String::new() }),
            4 => format!("while ({}) {{ {} }}", expr(ch, 1, false), if depth > 0 { stmt(ch, depth - 1) } else { String::new() }),
            5 => format!("times({}) {{ {} }}", expr(ch, 1, false), if depth > 0 { stmt(ch, depth - 1) } else { String::new() }),
            6 => format!("int v = {};", expr(ch, 2, false)),
            7 => format!("+{}:", expr_p(ch, 1)),
            8 => format!("interrupt[{}]:", expr(ch, 1, false)),
            9 => format!("{{\"EN\"}}: g({});", expr(ch, 1, false)),
            10 => format!("return {};", expr(ch, 2, false)),
            _ => format!("{{ {} {} }}", if depth > 0 { stmt(ch, depth - 1) } else { String::new() }, if depth > 0 { stmt(ch, depth - 1) } else { String::new() }),
        }
    }
    let _ = thorough;
    let (b_expr, b_stmt, cap) = if EDFS_EXTRA.load(std::sync::atomic::Ordering::Relaxed) { (5, 4, 6_000_000) } else { (4, 3, 1_000_000) };
    let (b_expr, b_stmt): (u32, u32) = (std::env::var("C08_BE").ok().and_then(|s| s.parse().ok()).unwrap_or(b_expr), std::env::var("C08_BS").ok().and_then(|s| s.parse().ok()).unwrap_or(b_stmt));
    let mut texts: Vec<(&'static str, String)> = vec![];
    let s1 = explore_dfs(b_expr, cap, &|ch| format!("I0 = {};\n    f({}, z);", expr(ch, 3, false), expr(ch, 2, false)), &mut |_, t| texts.push(("edfs:expr", t)));
    let s2 = explore_dfs(b_stmt, cap, &|ch| format!("{}\n    {}", stmt(ch, 2), stmt(ch, 1)), &mut |_, t| texts.push(("edfs:stmt", t)));
    g.edfs_note = format!("expr: bound {b_expr}, {} runs{}; stmt: bound {b_stmt}, {} runs{}", s1.runs, if s1.capped { " (CAPPED)" } else { "" }, s2.runs, if s2.capped { " (CAPPED)" } else { "" });
    g.edfs_capped = s1.capped || s2.capped;
    for (c, t) in texts { g.body(c, &t); }
}

pub fn gen_p(thorough: bool) -> (Vec<PCase>, String, bool) {
    let mut g = Gen { out: vec![], seen: BTreeSet::new(), edfs_note: String::new(), edfs_capped: false };
    gen_atoms_in_contexts(&mut g, thorough);
    gen_unops(&mut g, thorough);
    gen_binops(&mut g, thorough);
    gen_ternary_switch(&mut g, thorough);
    gen_calls(&mut g, thorough);
    gen_statements(&mut g, thorough);
    gen_items(&mut g, thorough);
    gen_edfs(&mut g, thorough);
    (g.out, g.edfs_note, g.edfs_capped)
}

// =============================================================================================
// (D) decompiler-produced ASTs

#[derive(Clone)]
pub struct DCase { class: String, kind: Kind, game: &'static str, mapfile: String, source: String, nan: bool, foldable: bool }

const ANM_HEAD: &str = r#"entry {
    path: "subdir/file.png",
    has_data: false,
    img_width: 512,
    img_height: 512,
    img_format: 3,
    offset_x: 0,
    offset_y: 0,
    colorkey: 0,
    memory_priority: 0,
    low_res_scale: false,
    sprites: {
        sprite0: {id: 0, x: 0.0, y: 0.0, w: 512.0, h: 480.0},
    },
}
"#;

const ANM_MAP: &str = r#"!anmmap
!ins_signatures
2000 S
2001 U
2002 C
2003 S(hex)
2004 s--
2005 u--
2006 b---
2007 c---
2008 S(enum="bool")
2009 S(enum="TestEnum")
2010 n
2011 N
2012 f
2013 z(bs=4)
2014 m(bs=4;mask=0x77,0x7,0x10)
2015 SfC
2016 U(hex)
2017 s(hex)--
2018 b(hex)---
2019 SSSSSSSSSSSS
2020 SS
2021 SS
2022 SS
2023 ff
2024 ff
2025 SSS
2026 SSS
2027 SS
2028 SS
2029 ff
2030 fff
2031 ot
2032 SSot
2033 Sot
2034 ffffffffffff
!ins_intrinsics
2020 UnOp(op="-"; type="int")
2021 UnOp(op="~"; type="int")
2022 UnOp(op="!"; type="int")
2023 UnOp(op="sin"; type="float")
2024 UnOp(op="-"; type="float")
2025 BinOp(op="+"; type="int")
2026 BinOp(op="-"; type="int")
2027 AssignOp(op="="; type="int")
2028 AssignOp(op="-="; type="int")
2029 AssignOp(op="="; type="float")
2030 BinOp(op="*"; type="float")
2031 Jmp()
2032 CondJmp(op="=="; type="int")
2033 CountJmp(op="!=")
!enum(name="TestEnum")
0 Zero
1 One
20 Red
-1 Minus
!gvar_names
10000 X
10001 E4
10002 Hello
10004 Z
!gvar_types
10000 $
10001 $
10002 $
10004 %
"#;

const ECL_MAP: &str = r#"!eclmap
!ins_signatures
2000 S
2001 f
2002 SfS
2003 z(bs=4)
!difficulty_flags
0 E-
1 N-
2 H-
3 L-
4 4+
5 5+
6 6+
7 7+
"#;

fn hex_le(bytes: &[u8]) -> String { bytes.iter().map(|b| format!("{b:02x}")).collect() }

fn anm_case(class: &str, body: &str, nan: bool) -> DCase {
    DCase { class: class.into(), kind: Kind::Anm, game: "th12", mapfile: ANM_MAP.into(), source: format!("{ANM_HEAD}script script0 {{\n{body}\n}}\n"), nan, foldable: false }
}

pub fn float_class_bits() -> Vec<(u32, &'static str)> {
    vec![
        (0x0000_0000, "zero"), (0x8000_0000, "neg-zero"), (0x0000_0001, "min-subnormal"), (0x007f_ffff, "max-subnormal"), (0x8000_0001, "neg-min-subnormal"),
        (0x0080_0000, "min-normal"), (0x7f7f_ffff, "max-normal"), (0xff7f_ffff, "neg-max-normal"), (0x7f80_0000, "inf"), (0xff80_0000, "neg-inf"),
        (0x7fc0_0000, "nan-canonical"), (0x7fc0_0001, "nan-payload"), (0xffc0_0000, "nan-negative"), (0x7f80_0001, "nan-signalling"), (0xffff_ffff, "nan-all-ones"),
        (0x3f80_0000, "one"), (0x3f80_0001, "one-plus-ulp"), (0x3f7f_ffff, "one-minus-ulp"), (0xbf80_0000, "neg-one"), (0x3dcc_cccd, "tenth"), (0x4b80_0001, "big-odd"), (0x4f00_0000, "2^31"),
        (0x461c_4000, "10000.0 (register number)"), (0xc61c_4000, "-10000.0"),
    ]
}

fn gen_d(thorough: bool) -> Vec<DCase> {
    let mut v: Vec<DCase> = vec![];
    let i32s: Vec<u32> = vec![0, 1, 2, 20, 0x7f, 0xff, 0x100, 10000, 0x7fff_ffff, 0x8000_0000, 0x8000_0001, 0xffff_fffe, 0xffff_ffff];
    for (op, name) in [(2000, "S"), (2001, "U"), (2002, "C"), (2003, "S(hex)"), (2008, "S(enum=bool)"), (2009, "S(enum=TestEnum)"), (2010, "n"), (2011, "N"), (2016, "U(hex)")] {
        for &x in &i32s {
            v.push(anm_case(&format!("int:{name}"), &format!("    ins_{op}(@blob=\"{}\");", hex_le(&x.to_le_bytes())), false));
            // the same value read as a register (mask bit set)
            v.push(anm_case(&format!("int-as-register:{name}"), &format!("    ins_{op}(@mask=1, @blob=\"{}\");", hex_le(&x.to_le_bytes())), false));
        }
    }
    for (op, name) in [(2004, "s"), (2005, "u"), (2017, "s(hex)")] { for x in [0u16, 1, 0x7fff, 0x8000, 0xffff] {
        v.push(anm_case(&format!("int:{name}"), &format!("    ins_{op}(@blob=\"{}0000\");", hex_le(&x.to_le_bytes())), false));
    }}
    for (op, name) in [(2006, "b"), (2007, "c"), (2018, "b(hex)")] { for x in [0u8, 1, 0x7f, 0x80, 0xff] {
        v.push(anm_case(&format!("int:{name}"), &format!("    ins_{op}(@blob=\"{x:02x}000000\");"), false));
    }}
    for (bits, cls) in float_class_bits() {
        let nan = f32::from_bits(bits).is_nan();
        v.push(anm_case(&format!("float:{cls}"), &format!("    ins_2012(@blob=\"{}\");", hex_le(&bits.to_le_bytes())), nan));
        // a float-typed register operand stores the register number as a float: only integral values are meaningful
        let fv = f32::from_bits(bits);
        if fv.fract() == 0.0 && fv.abs() < 1e9 && bits != 0x8000_0000 {
            v.push(anm_case(&format!("float-as-register:{cls}"), &format!("    ins_2012(@mask=1, @blob=\"{}\");", hex_le(&bits.to_le_bytes())), false));
        }
        v.push(anm_case(&format!("float-in-SfC:{cls}"), &format!("    ins_2015(@blob=\"ffffffff {} 80000000\");", hex_le(&bits.to_le_bytes())), nan));
        // intrinsics with this operand:  Z = sin(x);  Z = -(x);  Z = x;  Z = x * x;
        for op in [2023, 2024, 2029] {
            let mut c = anm_case(&format!("float-intrinsic-{op}:{cls}"), &format!("    ins_{op}(@mask=1, @blob=\"00401c46 {}\");", hex_le(&bits.to_le_bytes())), nan);
            c.foldable = op != 2029; v.push(c);
        }
        let mut c = anm_case(&format!("float-intrinsic-2030:{cls}"), &format!("    ins_2030(@mask=1, @blob=\"00401c46 {} {}\");", hex_le(&bits.to_le_bytes()), hex_le(&bits.to_le_bytes())), nan);
        c.foldable = true; v.push(c);
        // register operand and literal operand: nothing to fold
        v.push(anm_case(&format!("float-intrinsic-2030-reg:{cls}"), &format!("    ins_2030(@mask=3, @blob=\"00401c46 00401c46 {}\");", hex_le(&bits.to_le_bytes())), nan));
    }
    // int intrinsics:  X = -(v);  X = ~(v);  X = !(v);  X = a + b;  X = a - b;  X = v;  X -= v;  with literal and register operands
    let ops: Vec<(u32, &str)> = vec![(3, "lit 3"), (4, "lit 4"), (0xffff_fffd, "lit -3"), (0x8000_0000, "lit MIN"), (0, "lit 0")];
    for op in [2020, 2021, 2022, 2027, 2028] {
        for (x, name) in &ops {
            let mut c = anm_case(&format!("int-intrinsic-{op}:{name}"), &format!("    ins_{op}(@mask=1, @blob=\"10270000 {}\");", hex_le(&x.to_le_bytes())), false);
            c.foldable = op <= 2022; v.push(c);
        }
        for reg in [10000u32, 10001, 10002, 10003, 9999] {
            v.push(anm_case(&format!("int-intrinsic-{op}:reg"), &format!("    ins_{op}(@mask=3, @blob=\"10270000 {}\");", hex_le(&reg.to_le_bytes())), false));
        }
    }
    for op in [2025, 2026] { for (a, _) in &ops { for (b, _) in &ops {
        let mut c = anm_case(&format!("int-intrinsic-{op}:lit-lit"), &format!("    ins_{op}(@mask=1, @blob=\"10270000 {} {}\");", hex_le(&a.to_le_bytes()), hex_le(&b.to_le_bytes())), false);
        c.foldable = true; v.push(c);
    }}}
    // jumps: labels, negative and positive times, conditional jumps with negative literals
    for t in [0i32, 5, -5, 100] { for (a, _) in &ops {
        v.push(DCase { foldable: true, ..anm_case("jump-intrinsics", &format!("{t}:\n    ins_2032(@mask=0, @blob=\"{} fdffffff 00000000 {}\");\n    ins_2031(@blob=\"00000000 {}\");\n    ins_2033(@mask=1, @blob=\"10270000 00000000 {}\");",
            hex_le(&a.to_le_bytes()), hex_le(&t.to_le_bytes()), hex_le(&t.to_le_bytes()), hex_le(&t.to_le_bytes())), false) });
    }}
    // time labels
    for times in [vec![0, 0], vec![5, 5, 10], vec![-5, -1, 0, 3], vec![-32768, 32767], vec![10, 5], vec![0, 300, 300, 301]] {
        let body: String = times.iter().map(|t| format!("{t}:\n    ins_2000(1);\n")).collect();
        v.push(anm_case("time-labels", &body, false));
    }
    // strings
    for s in string_spellings(thorough) {
        let class = if s.contains("\\0") { "string-with-nul" } else { "string" };
        v.push(anm_case(&format!("{class}:z"), &format!("    ins_2013({s});"), false));
        v.push(anm_case(&format!("{class}:m"), &format!("    ins_2014({s});"), false));
    }
    // many arguments of growing magnitude (inline-vs-block layout of decompiled calls)
    for n in [1u32, 1000, 1_000_000, 0x7fff_ffff, 0xffff_ffff] {
        let blob: Vec<String> = (0..12u32).map(|i| hex_le(&(n.wrapping_mul(i + 1)).to_le_bytes())).collect();
        v.push(anm_case("twelve-ints", &format!("    ins_2019(@blob=\"{}\");", blob.join(" ")), false));
        let fb: Vec<String> = (0..12u32).map(|i| hex_le(&((n as f32) * (i as f32 - 5.5) / 7.0).to_bits().to_le_bytes())).collect();
        v.push(anm_case("twelve-floats", &format!("    ins_2034(@blob=\"{}\");", fb.join(" ")), false));
    }
    // thorough: every f32 pattern 0xHHHH0000 (64 non-NaN patterns per binary; NaN patterns one per binary)
    if thorough {
        let mut block: Vec<String> = vec![];
        for h in 0u32..=0xffff {
            let bits = h << 16;
            let line = format!("    ins_2012(@blob=\"{}\");", hex_le(&bits.to_le_bytes()));
            if f32::from_bits(bits).is_nan() { v.push(anm_case("float-sweep-nan", &line, true)); continue; }
            block.push(line);
            if block.len() == 64 { v.push(anm_case("float-sweep", &block.join("\n"), false)); block.clear(); }
        }
        if !block.is_empty() { v.push(anm_case("float-sweep", &block.join("\n"), false)); }
    }
    // ECL (TH08): difficulty switches and difficulty labels produced by the decompiler
    let ecl = |class: &str, body: &str, nan: bool| DCase { class: class.into(), kind: Kind::Ecl, game: "th08", mapfile: ECL_MAP.into(),
        source: format!("script timeline0 {{}}\nvoid sub0() {{\n{body}\n}}\n"), nan, foldable: false };
    let value_sets: Vec<(&str, u32, Vec<&str>, bool)> = vec![
        ("ints", 2000, vec!["1", "2", "3", "4"], false),
        ("boundary-ints", 2000, vec!["-1", "0x80000000", "0x7fffffff", "-2147483647"], false),
        ("floats", 2001, vec!["1.5", "-0.0", "INF", "-INF"], false),
        ("tiny-floats", 2001, vec!["0.000000000000000000000000000000000000000000001", "340282350000000000000000000000000000000.0", "-1.0000001", "0.1"], false),
        ("nan", 2001, vec!["NAN", "1.0", "-NAN", "2.0"], true),
        ("strings", 2003, vec!["\"a\"", "\"\\\"q\\\"\"", "\"日本語\"", "\"\""], false),
        ("registers", 2000, vec!["$REG[10000]", "2", "$REG[-10001]", "4"], false),
    ];
    for (name, op, vals, nan) in &value_sets {
        for holes in 0u32..8 {
            let parts: Vec<String> = (0..4).map(|i| if i > 0 && holes >> (i - 1) & 1 == 1 { String::new() } else { vals[i].to_string() }).collect();
            v.push(ecl(&format!("ecl-diff-switch:{name}"), &format!("    ins_{op}({});", parts.join(":")), *nan));
        }
        v.push(ecl(&format!("ecl-diff-switch:{name}"), &format!("    ins_2002(1:2:3:4, 1.0:2.5::, 7:::8);\n    ins_{op}({}:{}:{}:{});\n    ins_{op}({});", vals[0], vals[1], vals[2], vals[3], vals[0]), *nan));
    }
    for lab in ["E", "N", "H", "L", "EN", "HL", "ENH", "NHL", "EL", "ENHL", "4", "E4", "567", "ENHL4567"] {
        v.push(ecl("ecl-diff-label", &format!("    {{\"{lab}\"}}: ins_2000(5);\n    {{\"{lab}\"}}: ins_2001(-7.5);\n+10:\n    {{\"{lab}\"}}: ins_2002(-1, -1.0, 0x80000000);\n    ins_2000(9);"), false));
    }
    for (a, b) in [("EN", "HL"), ("E", "NHL"), ("E", "N"), ("EH", "NL"), ("ENH", "L")] {
        v.push(ecl("ecl-diff-label-merge", &format!("    {{\"{a}\"}}: ins_2000(5);\n    {{\"{b}\"}}: ins_2000(-6);\n    {{\"{a}\"}}: ins_2002(1, 2.0, 3);\n    {{\"{b}\"}}: ins_2002(-1, 2.0, 3);"), false));
    }
    // unknown instruction -> @blob pseudo-arg in the decompiled text; masks on it
    for len in [0usize, 1, 2, 5, 12, 40] { for mask in [0u32, 1, 0xffff] {
        let blob: Vec<String> = (0..len).map(|i| format!("{:08x}", (i as u32).wrapping_mul(0x01234567))).collect();
        v.push(anm_case("unknown-instruction-blob", &format!("    ins_2999(@mask={mask}, @blob=\"{}\");", blob.join(" ")), false));
    }}
    v
}

struct DEval { widths_done: u64, comparisons: u64, changes_with_width: bool, t99: String, fails: Vec<Fail>, outcomes: Vec<String>, discarded: Option<String>, reprint_differs: bool, warned: bool }

/// The decompiler's AST itself (the same calls as `drive::decompile`, stopping before the formatter).
fn decompile_ast(tool: Tool, bytes: &[u8], mapfile: &str) -> Result<ast::ScriptFile, String> { decompile_ast_ex(tool, bytes, mapfile, false) }

fn decompile_ast_ex(tool: Tool, bytes: &[u8], mapfile: &str, show_instr_offsets: bool) -> Result<ast::ScriptFile, String> {
    use truth::io::BinReader;
    let mut scope = truth::Builder::new().capture_diagnostics(true).build();
    let mut truth = scope.truth();
    let r = catch(|| -> Result<ast::ScriptFile, ()> {
        macro_rules! t { ($e:expr) => { match $e { Ok(v) => v, Err(e) => { let e: truth::ErrorReported = e; e.ignore(); return Err(()); } } } }
        for lang in tool.languages() {
            let m = truth::verif_hooks::core_mapfile(truth.ctx().emitter, tool.game, lang);
            t!(truth.apply_mapfile(&m, tool.game));
        }
        t!(truth.apply_mapfile_str(mapfile, tool.game));
        let emitter = truth.ctx().emitter;
        let mut tv = t!(truth.validate_defs());
        let mut r = BinReader::from_reader(emitter, "<input file>", std::io::Cursor::new(bytes.to_vec()));
        let opts = truth::DecompileOptions { show_instr_offsets, ..Default::default() };
        Ok(match tool.kind {
            Kind::Anm => { let f = t!(truth::AnmFile::read_from_stream(&mut r, tool.game, false)); t!(tv.decompile_anm(tool.game, &f, &opts)) },
            Kind::Ecl => { let f = t!(truth::EclFile::read_from_stream(&mut r, tool.game)); t!(tv.decompile_ecl(tool.game, &f, &opts)) },
            Kind::Std => { let f = t!(truth::StdFile::read_from_stream(&mut r, tool.game)); t!(tv.decompile_std(tool.game, &f, &opts)) },
            Kind::Msg => { let f = t!(truth::MsgFile::read_from_stream(&mut r, tool.game, truth::LanguageKey::Msg)); t!(tv.decompile_msg(tool.game, truth::LanguageKey::Msg, &f, &opts)) },
            _ => panic!("unsupported tool in C08"),
        })
    });
    match r {
        Ok(Ok(a)) => Ok(a),
        Ok(Err(())) => Err(format!("error: {}", first_error_line(&catch(|| truth.get_captured_diagnostics().unwrap_or_default()).unwrap_or_default()))),
        Err(p) => Err(format!("panic: {}", p.text)),
    }
}

fn eval_d(c: &DCase, widths: &[usize]) -> DEval {
    let mut ev = DEval { widths_done: 0, comparisons: 0, changes_with_width: false, t99: String::new(), fails: vec![], outcomes: vec![], discarded: None, reprint_differs: false, warned: false };
    let tool = Tool::new(c.kind, c.game.parse::<truth::Game>().expect("game"));
    let copts = CompileOpts { mapfiles: vec![&c.mapfile], ..Default::default() };
    let b = drive::compile(tool, c.source.as_bytes(), &copts);
    let Some(bytes) = b.bytes else {
        ev.discarded = Some(format!("d-source-rejected: {}", b.panic.map(|p| p.text).unwrap_or_else(|| first_error_line(&b.diag))));
        return ev;
    };
    let push_fail = |ev: &mut DEval, kind: &str, w: usize, printed: Option<&str>, note: String| {
        ev.fails.push(Fail { kind: kind.into(), class: c.class.clone(), width: w, printed: printed.map(|s| s.to_string()), note });
    };
    // reference run of the whole driver at width 99 (text + diagnostics)
    let d99 = drive::decompile(tool, &bytes, &DecompOpts { width: 99, mapfiles: vec![&c.mapfile], ..Default::default() });
    if d99.diag.lines().any(|l| l.starts_with("warning")) { ev.warned = true; }
    let a = match decompile_ast(tool, &bytes, &c.mapfile) {
        Ok(a) => a,
        Err(why) => { ev.discarded = Some(format!("d-binary-not-decompilable: {why}")); return ev; },
    };
    let (c0, _) = canon_file(&a, true);
    let mut ws: Vec<usize> = vec![99];
    ws.extend(widths.iter().copied().filter(|&w| w != 99));
    let mut texts: BTreeSet<String> = BTreeSet::new();
    for w in ws {
        ev.widths_done += 1;
        let t = match print_file(&a, w) {
            Ok(t) => t,
            Err(p) => { push_fail(&mut ev, "D-print-panics", w, None, p.text); continue; },
        };
        texts.insert(t.clone());
        if w == 99 {
            ev.t99 = t.clone();
            if d99.text.as_deref() != Some(&t) { ev.discarded = Some("machinery: drive::decompile text differs from the directly printed decompiler AST".into()); return ev; }
        }
        let a2 = match parse_file(&t) {
            Ok(a2) => a2,
            Err(ParseErr::Rejected(dg)) => {
                let root = classify("reparse-fails", &t, &Flags::default(), &c.class);
                ev.fails.push(Fail { kind: "D-reparse-fails".into(), class: root, width: w, printed: Some(t.clone()), note: first_error_line(&dg) });
                continue;
            },
            Err(ParseErr::Panicked(p)) => { push_fail(&mut ev, "D-reparse-panics", w, Some(&t), p.text); continue; },
        };
        ev.comparisons += 1;
        let (cw, _) = canon_file(&a2, true);
        if cw != c0 {
            let kind = if c.nan && t.contains("NAN") && !t.contains("--NAN") { "nan-bits-lost" } else { "D-ast-differs" };
            let cls = classify(kind, &t, &Flags::default(), &c.class);
            ev.fails.push(Fail { kind: kind.into(), class: cls, width: w, printed: Some(t.clone()), note: first_diff(&c0, &cw) });
            continue;
        }
        ev.outcomes.push("reparsed-ast-equals-decompiler-ast".into());
        if w == 99 {
            if let Ok(t2) = print_file(&a2, 99) { if t2 != t { ev.reprint_differs = true; } }
            // recompile: the same bytes must come back, unless the decompiler warned about a loss or the
            // statement is constant-folded by the compiler (all-literal operands of an intrinsic)
            if c.foldable { ev.outcomes.push("bytes-not-compared:compiler-folds-constant-operands".into()); continue; }
            let r = drive::compile(tool, t.as_bytes(), &copts);
            ev.comparisons += 1;
            match r.bytes {
                None => push_fail(&mut ev, "D-recompile-fails", w, Some(&t), r.panic.map(|p| p.text).unwrap_or_else(|| first_error_line(&r.diag))),
                Some(b2) if b2 != bytes => {
                    if ev.warned { ev.outcomes.push("bytes-differ-after-decompiler-warning".into()); }
                    else if c.nan { push_fail(&mut ev, "nan-bits-lost", w, Some(&t), first_byte_diff(&bytes, &b2)); }
                    else { push_fail(&mut ev, "D-bytes-differ", w, Some(&t), first_byte_diff(&bytes, &b2)); }
                },
                Some(_) => ev.outcomes.push("recompiles-to-same-bytes".into()),
            }
        }
    }
    // the same binary decompiled with --show-instr-offsets (every statement carries an offset comment; labels print inline):
    // every width must re-parse to the same script and, at 99, recompile to the same bytes
    if let Ok(a_off) = decompile_ast_ex(tool, &bytes, &c.mapfile, true) {
        let mut ws: Vec<usize> = vec![99];
        ws.extend(widths.iter().copied().filter(|&w| w != 99));
        for w in ws {
            ev.widths_done += 1;
            let t = match print_file(&a_off, w) { Ok(t) => t, Err(p) => { push_fail(&mut ev, "D-print-panics", w, None, format!("(--show-instr-offsets) {}", p.text)); continue; } };
            match parse_file(&t) {
                Err(ParseErr::Rejected(dg)) => { ev.fails.push(Fail { kind: "D-reparse-fails".into(), class: format!("{}+offsets", c.class), width: w, printed: Some(t.clone()), note: first_error_line(&dg) }); continue; },
                Err(ParseErr::Panicked(p)) => { push_fail(&mut ev, "D-reparse-panics", w, Some(&t), p.text); continue; },
                Ok(a2) => {
                    ev.comparisons += 1;
                    let (cw, _) = canon_file(&a2, true);
                    if cw != c0 && !(c.nan && t.contains("NAN")) { ev.fails.push(Fail { kind: "D-ast-differs".into(), class: format!("{}+offsets", c.class), width: w, printed: Some(t.clone()), note: first_diff(&c0, &cw) }); continue; }
                    ev.outcomes.push("offsets:reparsed-ast-equals-decompiler-ast".into());
                },
            }
            if w == 99 && !c.foldable && !c.nan && !ev.warned {
                let r = drive::compile(tool, t.as_bytes(), &copts);
                ev.comparisons += 1;
                match r.bytes {
                    None => push_fail(&mut ev, "D-recompile-fails", w, Some(&t), format!("(--show-instr-offsets) {}", r.panic.map(|p| p.text).unwrap_or_else(|| first_error_line(&r.diag)))),
                    Some(b2) if b2 != bytes => push_fail(&mut ev, "D-bytes-differ", w, Some(&t), format!("(--show-instr-offsets) {}", first_byte_diff(&bytes, &b2))),
                    Some(_) => ev.outcomes.push("offsets:recompiles-to-same-bytes".into()),
                }
            }
        }
    }
    ev.changes_with_width = texts.len() > 1;
    ev
}

fn first_byte_diff(a: &[u8], b: &[u8]) -> String {
    if a.len() != b.len() { return format!("length {} -> {}", a.len(), b.len()); }
    let i = a.iter().zip(b).position(|(x, y)| x != y).unwrap_or(0);
    let s = i & !3;
    format!("first difference at byte {i:#x}: original {} recompiled {}", hex_le(&a[s..(s + 8).min(a.len())]), hex_le(&b[s..(s + 8).min(b.len())]))
}

fn d_detail(c: &DCase, f: &Fail, widths: &[usize]) -> Value {
    json!({"source": "D", "class": c.class, "tool": format!("{:?}", c.kind), "game": c.game, "mapfile": c.mapfile, "compile_source": c.source, "nan": c.nan, "foldable": c.foldable,
           "width": f.width, "failing_widths": widths, "kind": f.kind, "printed": f.printed, "note": f.note})
}

fn run_d(rep: &mut Report, acc: &mut Acc, families: &mut BTreeMap<String, u64>, thorough: bool, deadline: std::time::Instant, capped: &mut bool) -> Value {
    let cases = gen_d(thorough);
    rep.transitions += cases.len() as u64;
    for c in &cases { *families.entry(format!("D:{}", c.class.split(':').next().unwrap_or(""))).or_insert(0) += 1; }
    let dump = std::env::var("C08_DUMP").is_ok();
    let all_widths: Vec<usize> = (1..=200).collect();
    let results = par_map(&cases, Some(deadline), |i, c| {
        let widths: &[usize] = if c.class.starts_with("float-sweep") { &[1, 40, 99] } else if thorough && i % 4 == 0 { &all_widths } else { &QUICK_WIDTHS };
        eval_d(c, widths)
    });
    let mut distinct: BTreeSet<String> = BTreeSet::new();
    let (mut reprint_differs, mut warned) = (0u64, 0u64);
    let mut rejected: Vec<Value> = vec![];
    for (i, r) in results.into_iter().enumerate() {
        let Some(ev) = r else { *capped = true; continue; };
        let c = &cases[i];
        if let Some(why) = &ev.discarded {
            rep.discard(&format!("d-source-rejected:{}", c.class.split(':').next().unwrap_or("")));
            if rejected.len() < 30 { rejected.push(json!({"class": c.class, "why": why, "source": c.source})); }
            continue;
        }
        if dump { println!("=== {} ===\n{}", c.class, ev.t99); }
        if distinct.insert(ev.t99.clone()) { rep.states += 1; rep.nontrivial += 1; } // every D case carries a boundary literal by construction
        rep.evaluations += ev.widths_done;
        rep.traces_validated += ev.comparisons;
        if ev.reprint_differs { reprint_differs += 1; }
        if ev.warned { warned += 1; }
        for o in &ev.outcomes { rep.outcome(&format!("D:{o}")); }
        if i % 61 == 0 { rep.sample(json!({"source": "D", "class": c.class, "compile_source_body": c.source.rsplit("script script0").next(), "printed_at_99": ev.t99.rsplit("script script0").next()})); }
        let mut by_sig: BTreeMap<String, Vec<&Fail>> = BTreeMap::new();
        for f in &ev.fails {
            let sig = if f.kind == "nan-bits-lost" { "C08:nan-bits-lost".to_string() } else { format!("C08:{}:{}", f.kind, f.class.split(':').next().unwrap_or("")) };
            rep.outcome(&format!("D:{}", &sig[4..]));
            by_sig.entry(sig).or_default().push(f);
        }
        for (sig, fs) in by_sig {
            let f = fs.iter().find(|f| f.width == 99).unwrap_or(&fs[0]);
            let widths: Vec<usize> = fs.iter().map(|f| f.width).collect();
            *acc.failure_counts.entry(sig.clone()).or_insert(0) += fs.len() as u64 - 1;
            acc.add(sig, c.source.len(), d_detail(c, f, &widths));
        }
    }
    json!({"binaries": cases.len(), "distinct_decompiled_texts": distinct.len(), "texts_whose_reprint_after_reparse_differs (information only: int display formats are not kept by the parser)": reprint_differs,
           "binaries_with_decompiler_warnings": warned, "rejected_sources": rejected})
}

fn replay_d(detail: &Value) -> i32 {
    let kind = match detail["tool"].as_str() { Some("Anm") => Kind::Anm, Some("Ecl") => Kind::Ecl, Some("Msg") => Kind::Msg, Some("Std") => Kind::Std, _ => { println!("unknown tool"); return 2; } };
    let game: &'static str = match detail["game"].as_str() { Some("th12") => "th12", Some("th08") => "th08", Some("th07") => "th07", Some("th06") => "th06", _ => { println!("unknown game"); return 2; } };
    let c = DCase { class: detail["class"].as_str().unwrap_or("?").into(), kind, game, mapfile: detail["mapfile"].as_str().unwrap_or("").into(), source: detail["compile_source"].as_str().unwrap_or("").into(), nan: detail["nan"].as_bool().unwrap_or(false), foldable: detail["foldable"].as_bool().unwrap_or(false) };
    let width = detail["width"].as_u64().unwrap_or(99) as usize;
    println!("--- source compiled to the binary\n{}\n--- width {width}", c.source);
    let ev = eval_d(&c, &[width]);
    if let Some(why) = &ev.discarded { println!("source no longer compiles: {why}"); return 0; }
    println!("--- decompiled at width 99\n{}", ev.t99);
    if ev.fails.is_empty() { println!("--- comparison: parses, recompiles to the same bytes, same AST as width 99"); return 0; }
    for f in &ev.fails { println!("--- FAIL {}:{} at width {}: {}\n{}", f.kind, f.class, f.width, f.note, f.printed.clone().unwrap_or_default()); }
    1
}
