//! C20: a name used in a script compiles to the id its target has in the output file.
//!
//! Bounded exhaustive enumeration of file LAYOUTS (E-DFS over choice vectors, no randomness).  Every
//! layout is rendered to source text, compiled by the real compiler (in process), and the WRITTEN FILE
//! is parsed with the independent M2 walkers.  Reference model M9 (this file, written from the rule
//! in the property; it never asks truth for an expectation):
//!   * sprite id  = explicit `id` (a constant expression) else previous sprite's id + 1, continuing
//!                  across entries, starting at 0;
//!   * ANM script reference = position of the script in file order (over all entries);
//!   * old-ECL sub reference = position of the `void sub()` item in file order;
//!   * timeline slot = explicit index, else the number of earlier implicitly numbered timelines;
//!   * MSG table entry = file offset of the named script (identified by CONTENT: unique marker);
//!   * STD instance = index of the named object.
//! One name with two values, a dangling name, a cyclic id definition or an invalid timeline index set
//! must be rejected with an error diagnostic; layouts M9 considers legal must compile.
#![allow(dead_code)]

use std::collections::{BTreeMap, BTreeSet, HashSet};
use std::hash::{Hash, Hasher};

use serde_json::{json, Value};
use truth::Game;

use crate::common::*;
use crate::drive::{self, CompileOpts, Kind, Tool};
use crate::m2;

// =============================================================================================
// shared types

fn gm(s: &str) -> Game { s.parse::<Game>().expect("game") }

#[derive(Debug, Clone, PartialEq)]
enum Verdict {
    Legal,
    /// (class, kind): class in {dangling, conflict, cycle, invalid}; signature `C20:<class>-accepted:<kind>`
    Error(&'static str, String),
    /// the property and the repository's tests/docs are silent: only "no panic" is required
    Unspecified(String),
}

#[derive(Debug, Clone)]
struct Mismatch { sig: String, msg: String }

trait Layout {
    fn fam(&self) -> &'static str;
    fn tool(&self) -> Tool;
    fn mapfile(&self) -> Option<String>;
    fn render(&self) -> String;
    fn verdict(&self) -> Verdict;
    fn nontrivial(&self) -> bool;
    /// short description of the layout class (used in the `legal-rejected` signature)
    fn class(&self) -> String;
    /// compare the written file with M9; returns (#comparisons, mismatches) or a walker error
    fn check(&self, bytes: &[u8], corrupt: bool) -> Result<(u64, Vec<Mismatch>), String>;
    /// M9's expectations, human readable (for replay / detail)
    fn describe(&self) -> Value;
}

#[derive(Debug, Clone)]
struct Job { fam: &'static str, game: Game, prof: Vec<u32>, choices: Vec<u32> }

fn build(job: &Job) -> Box<dyn Layout> {
    let mut ch = Chooser::new(&job.choices);
    match job.fam {
        "anm" => Box::new(gen_anm(&mut ch, job.game, &job.prof)),
        "msg" => Box::new(gen_msg(&mut ch, job.game, &job.prof)),
        "ecl" => Box::new(gen_ecl(&mut ch, job.game, &job.prof)),
        "std" => Box::new(gen_std(&mut ch, job.game, &job.prof)),
        f => panic!("unknown family {f}"),
    }
}

fn dwords(b: &[u8]) -> Vec<u32> { b.chunks(4).filter(|c| c.len() == 4).map(|c| u32::from_le_bytes([c[0], c[1], c[2], c[3]])).collect() }

struct Cmp { n: u64, mism: Vec<Mismatch> }
impl Cmp {
    fn new() -> Cmp { Cmp { n: 0, mism: vec![] } }
    fn eq<T: PartialEq + std::fmt::Debug>(&mut self, sig: impl FnOnce() -> String, what: impl FnOnce() -> String, observed: T, expected: T) -> bool {
        self.n += 1;
        if observed != expected {
            if self.mism.len() < 16 { self.mism.push(Mismatch { sig: sig(), msg: format!("{}: observed {:?}, M9 expects {:?}", what(), observed, expected) }); }
            false
        } else { true }
    }
    fn fail(&mut self, sig: String, msg: String) { self.n += 1; if self.mism.len() < 16 { self.mism.push(Mismatch { sig, msg }); } }
}

/// Instructions of one script split at separator instructions: returns, per separator ordinal, the
/// LAST instruction of that segment (the use site proper; call sugar may emit helpers before it).
fn segments<'a>(instrs: &'a [m2::Instr], is_sep: impl Fn(&m2::Instr) -> Option<u32>) -> BTreeMap<u32, &'a m2::Instr> {
    let mut out = BTreeMap::new();
    let mut cur: Option<u32> = None;
    for i in instrs {
        if let Some(k) = is_sep(i) { cur = Some(k); continue; }
        if let Some(k) = cur { out.insert(k, i); }
    }
    out
}

fn permutation(n: usize, mut k: usize) -> Vec<usize> {
    // k-th permutation of 0..n in lexicographic order (k = 0 is the identity)
    let mut items: Vec<usize> = (0..n).collect();
    let mut fact: Vec<usize> = vec![1; n + 1];
    for i in 1..=n { fact[i] = fact[i - 1] * i; }
    let mut out = vec![];
    for i in (0..n).rev() {
        let f = fact[i];
        out.push(items.remove(k / f));
        k %= f;
    }
    out
}
fn factorial(n: usize) -> usize { (1..=n).product::<usize>().max(1) }

// =============================================================================================
// ANM

const F_SHAPE: u32 = 1;
const F_IDS: u32 = 2;
const F_NAMES: u32 = 4;
const F_SCRIPTS: u32 = 8;
const F_USES: u32 = 16;
/// ANM: script counts per entry; MSG: table_len; ECL: timeline count and index patterns
const F_X1: u32 = 32;
/// MSG: flags / source order / duplicate script; ECL: timeline targets
const F_X2: u32 = 64;

#[derive(Debug, Clone, PartialEq)]
enum IdSpec { Implicit, Lit(i64), Base(i64), Arith(i64, i64), Rel(String, i64), Expr(&'static str, i64) }

/// constant expressions over every operator class (value computed by hand): the id written to the file and the value of the
/// sprite's name are computed by different evaluators in truth, which must agree
const ID_EXPRS: [(&str, i64); 12] = [("((6 & 4) ? 10 : 20)", 10), ("(2 ? 7 : 9)", 7), ("(0 ? 7 : 9)", 9), ("(((-8) >> 1) + 20)", 16), ("((7 / 2) + 10)", 13), ("((13 % 5) + 8)", 11),
    ("((!(0)) + 11)", 12), ("(~(-15))", 14), ("int(15.9)", 15), ("((3 < 5) + 16)", 17), ("((1 << 4) + 2)", 18), ("((5 ^ 1) | 16)", 20)];

#[derive(Debug, Clone)]
struct SpriteL { name: String, spec: IdSpec, pat: &'static str, marker: u32 }

#[derive(Debug, Clone, Copy, PartialEq, Eq)]
enum AnmUse { ArgSprite, ArgScript, ArgUntyped, Plus1Sprite, Plus1Script, Multi, QualSprite, QualScript, ConstTop, ConstBottom, ConstLocal, RealSprite, RealScript }
const ANM_USE_KINDS: [AnmUse; 13] = [AnmUse::ArgSprite, AnmUse::ArgScript, AnmUse::ArgUntyped, AnmUse::Plus1Sprite, AnmUse::Plus1Script, AnmUse::Multi,
    AnmUse::QualSprite, AnmUse::QualScript, AnmUse::ConstTop, AnmUse::ConstBottom, AnmUse::ConstLocal, AnmUse::RealSprite, AnmUse::RealScript];

#[derive(Debug, Clone)]
struct AnmUseL { kind: AnmUse, name: String, uid: u32 }

#[derive(Debug, Clone)]
struct AnmScriptL { name: String, number: Option<i32>, marker: u32, uses: Vec<AnmUseL> }

#[derive(Debug, Clone)]
struct AnmEntryL { sprites: Vec<SpriteL>, scripts: Vec<AnmScriptL> }

#[derive(Debug, Clone)]
struct AnmLayout { game: Game, entries: Vec<AnmEntryL>,
    /// which definition a reference to a multiply defined sprite name resolves to (the documentation is silent: M9 is evaluated both ways)
    resolve_last: bool }

#[derive(Debug, Clone, PartialEq)]
enum IdErr { Cycle, Dangling(String), Ambiguous(String),
    /// an untyped use of a name that is a sprite and a script with DIFFERENT numbers: "definitions that would give one name two
    /// different values ... are reported as errors"
    TwoValues(String) }

#[derive(Debug, Clone, Copy, PartialEq)]
enum Ctx { Sprite, Script, Untyped, QualSprite, QualScript }

fn gen_anm(ch: &mut Chooser, game: Game, prof: &[u32]) -> AnmLayout {
    let free = prof[0];
    let (max_e, max_spe, max_tot, max_scr) = (prof[1] as usize, prof[2] as usize, prof[3] as usize, prof[4] as usize);
    let c = |f: u32| if free & f != 0 { 0 } else { 1 };
    let ne = 1 + ch.pick_w(max_e, c(F_SHAPE));
    let mut nspr = vec![];
    let mut tot = 0usize;
    for _ in 0..ne {
        let avail: Vec<usize> = [1usize, 0, 2, 3].iter().copied().filter(|&k| k <= max_spe && tot + k <= max_tot).collect();
        let k = avail[ch.pick_w(avail.len(), c(F_SHAPE))];
        nspr.push(k); tot += k;
    }
    let mut nscr = vec![];
    let mut tots = 0usize;
    for e in 0..ne {
        let order: [usize; 3] = if e == ne - 1 { [1, 0, 2] } else { [0, 1, 2] };
        let avail: Vec<usize> = order.iter().copied().filter(|&k| tots + k <= max_scr).collect();
        let k = avail[ch.pick_w(avail.len(), c(F_X1))];
        nscr.push(k); tots += k;
    }
    if tots == 0 { nscr[ne - 1] = 1; tots = 1; }

    // sprite names
    let mut snames: Vec<String> = vec![];
    for k in 0..tot {
        let mut alts = vec![format!("{}spr{k}", ["", "a", "z", "m"][k % 4])]; // (not in alphabetical order)
        for j in 0..k.min(3) { alts.push(snames[j].clone()); }
        alts.push("scr0".to_string());
        let a = ch.pick_w(alts.len(), c(F_NAMES));
        snames.push(alts[a].clone());
    }
    // sprite id specs
    let mut specs: Vec<(IdSpec, &'static str)> = vec![];
    let mut cur: i64 = -1; // generation-time guess of the previous sprite's id (only steers literal values)
    let mut first_guess: i64 = 0;
    for k in 0..tot {
        let p = ch.pick_w(10, c(F_IDS));
        let (spec, pat, guess) = match p {
            0 => (IdSpec::Implicit, "implicit", cur + 1),
            1 => (IdSpec::Lit(cur + 1), "explicit-same-as-auto", cur + 1),
            2 => (IdSpec::Lit(cur + 4), "explicit-gap", cur + 4),
            3 => { let v = (cur - 2).max(0); (IdSpec::Lit(v), "explicit-decreasing", v) },
            4 => { let v = if k == 0 { 5 } else { first_guess }; (IdSpec::Lit(v), if k == 0 { "explicit-first" } else { "duplicate-id" }, v) },
            5 => (IdSpec::Base(k as i64), "const-expr", 10 + k as i64),
            6 => (IdSpec::Arith(k as i64 + 2, -1), "arith-expr", (k as i64 + 2) * 3 - 1),
            7 => (IdSpec::Rel(snames[0].clone(), 2), "rel-first", first_guess + 2),
            9 => { let (t, v) = ID_EXPRS[ch.pick_w(ID_EXPRS.len(), c(F_IDS))]; (IdSpec::Expr(t, v), "operator-expr", v) },
            _ => (IdSpec::Rel(snames[tot - 1].clone(), -1), "rel-last", cur + 1),
        };
        if k == 0 { first_guess = guess; }
        cur = guess;
        specs.push((spec, pat));
    }
    // scripts
    let mut scripts: Vec<AnmScriptL> = vec![];
    for q in 0..tots {
        let mut alts = vec![format!("{}scr{q}", ["", "a", "z"][q % 3])]; // (not in alphabetical order)
        if q > 0 { alts.push(scripts[0].name.clone()); }
        if tot > 0 { alts.push(snames[0].clone()); }
        let a = ch.pick_w(alts.len(), c(F_SCRIPTS));
        let number = [None, Some(7), Some(1), Some(-3)][ch.pick_w(4, c(F_X2))];
        scripts.push(AnmScriptL { name: alts[a].clone(), number, marker: 0x5c00 + q as u32, uses: vec![] });
    }
    // uses
    let mut sprite_names: Vec<String> = vec![];
    for n in &snames { if !sprite_names.contains(n) { sprite_names.push(n.clone()); } }
    let mut script_names: Vec<String> = vec![];
    for s in &scripts { if !script_names.contains(&s.name) { script_names.push(s.name.clone()); } }
    let mut uid = 0u32;
    let host1 = ch.pick_w(tots, c(F_USES));
    for n in &sprite_names { scripts[host1].uses.push(AnmUseL { kind: AnmUse::ArgSprite, name: n.clone(), uid }); uid += 1; }
    for n in &script_names { scripts[host1].uses.push(AnmUseL { kind: AnmUse::ArgScript, name: n.clone(), uid }); uid += 1; }
    let k = ch.pick_w(1 + ANM_USE_KINDS.len(), c(F_USES));
    if k > 0 {
        let mut targets: Vec<String> = sprite_names.clone();
        for n in &script_names { if !targets.contains(n) { targets.push(n.clone()); } }
        targets.push("nosuch".to_string());
        let t = ch.pick_w(targets.len(), c(F_USES));
        let host2 = ch.pick_w(tots, c(F_USES));
        scripts[host2].uses.push(AnmUseL { kind: ANM_USE_KINDS[k - 1], name: targets[t].clone(), uid });
    }
    // assemble
    let mut entries = vec![];
    let (mut si, mut qi) = (0usize, 0usize);
    for e in 0..ne {
        let mut ent = AnmEntryL { sprites: vec![], scripts: vec![] };
        for _ in 0..nspr[e] {
            ent.sprites.push(SpriteL { name: snames[si].clone(), spec: specs[si].0.clone(), pat: specs[si].1, marker: 3 + si as u32 });
            si += 1;
        }
        for _ in 0..nscr[e] { ent.scripts.push(scripts[qi].clone()); qi += 1; }
        entries.push(ent);
    }
    AnmLayout { game, entries, resolve_last: false }
}

struct AnmOps { mark: u16, sep: u16, n: u16, nn: u16, snn: u16, s: u16, real_n: u16, real_nn: Option<u16> }

impl AnmLayout {
    fn ops(&self) -> AnmOps {
        let b: u16 = if self.game >= Game::Th13 { 700 } else { 120 };
        let real_n = if self.game == Game::Th06 { 1 } else if self.game >= Game::Th13 { 300 } else { 3 };
        let real_nn = if self.game >= Game::Th13 { Some(500) } else if self.game >= Game::Th10 { Some(88) } else { None };
        AnmOps { mark: b, sep: b + 1, n: b + 2, nn: b + 3, snn: b + 4, s: b + 5, real_n, real_nn }
    }
    fn sprite_defs(&self) -> Vec<(usize, usize, &SpriteL)> {
        self.entries.iter().enumerate().flat_map(|(e, ent)| ent.sprites.iter().enumerate().map(move |(j, s)| (e, j, s))).collect()
    }
    fn script_defs(&self) -> Vec<(usize, &AnmScriptL)> {
        self.entries.iter().enumerate().flat_map(|(e, ent)| ent.scripts.iter().map(move |s| (e, s))).collect()
    }
    // ---- M9 ----
    fn eval_id(&self, i: usize, defs: &[(usize, usize, &SpriteL)], stack: &mut Vec<usize>, memo: &mut Vec<Option<Result<i64, IdErr>>>) -> Result<i64, IdErr> {
        if let Some(r) = &memo[i] { return r.clone(); }
        if stack.contains(&i) { return Err(IdErr::Cycle); }
        stack.push(i);
        let r = match &defs[i].2.spec {
            IdSpec::Implicit => if i == 0 { Ok(0) } else { self.eval_id(i - 1, defs, stack, memo).map(|v| v + 1) },
            IdSpec::Lit(v) => Ok(*v),
            IdSpec::Base(k) => Ok(10 + k),
            IdSpec::Arith(a, b) => Ok(a * 3 + b),
            IdSpec::Expr(_, v) => Ok(*v),
            IdSpec::Rel(name, k) => self.resolve(Ctx::Untyped, name, defs, stack, memo).map(|v| v + k),
        };
        stack.pop();
        // (a Cycle result is only memoised at the root of the evaluation: members of the cycle all fail anyway)
        if stack.is_empty() || !matches!(r, Err(IdErr::Cycle)) { memo[i] = Some(r.clone()); }
        r
    }
    fn resolve(&self, ctx: Ctx, name: &str, defs: &[(usize, usize, &SpriteL)], stack: &mut Vec<usize>, memo: &mut Vec<Option<Result<i64, IdErr>>>) -> Result<i64, IdErr> {
        let sprite = if self.resolve_last { defs.iter().rposition(|d| d.2.name == name) } else { defs.iter().position(|d| d.2.name == name) };
        let script = self.script_defs().iter().position(|d| d.1.name == name);
        let spr = |s: &Self, stack: &mut Vec<usize>, memo: &mut Vec<Option<Result<i64, IdErr>>>| s.eval_id(sprite.unwrap(), defs, stack, memo);
        match (ctx, sprite.is_some(), script) {
            (Ctx::QualSprite, true, _) => spr(self, stack, memo),
            (Ctx::QualSprite, false, _) => Err(IdErr::Dangling(name.into())),
            (Ctx::QualScript, _, Some(p)) => Ok(p as i64),
            (Ctx::QualScript, _, None) => Err(IdErr::Dangling(name.into())),
            (_, false, None) => Err(IdErr::Dangling(name.into())),
            (Ctx::Sprite, true, _) => spr(self, stack, memo),
            (Ctx::Sprite, false, Some(p)) => Ok(p as i64),
            (Ctx::Script, _, Some(p)) => Ok(p as i64),
            (Ctx::Script, true, None) => spr(self, stack, memo),
            (Ctx::Untyped, true, Some(p)) => match spr(self, stack, memo) {
                Ok(v) if v != p as i64 => Err(IdErr::TwoValues(name.into())),
                _ => Err(IdErr::Ambiguous(name.into())),
            },
            (Ctx::Untyped, true, None) => spr(self, stack, memo),
            (Ctx::Untyped, false, Some(p)) => Ok(p as i64),
        }
    }
    fn ids(&self) -> Vec<Result<i64, IdErr>> {
        let defs = self.sprite_defs();
        let mut memo = vec![None; defs.len()];
        (0..defs.len()).map(|i| { let mut st = vec![]; self.eval_id(i, &defs, &mut st, &mut memo) }).collect()
    }
    /// expected (dword index, value) list of one use
    fn use_expect(&self, u: &AnmUseL) -> Vec<(usize, Result<i64, IdErr>)> {
        let defs = self.sprite_defs();
        let mut memo = vec![None; defs.len()];
        let mut r = |ctx: Ctx| { let mut st = vec![]; self.resolve(ctx, &u.name, &defs, &mut st, &mut memo) };
        match u.kind {
            AnmUse::ArgSprite | AnmUse::RealSprite => vec![(0, r(Ctx::Sprite))],
            AnmUse::ArgScript | AnmUse::RealScript => vec![(0, r(Ctx::Script))],
            AnmUse::ArgUntyped | AnmUse::ConstTop | AnmUse::ConstBottom | AnmUse::ConstLocal => vec![(0, r(Ctx::Untyped))],
            AnmUse::Plus1Sprite => vec![(0, r(Ctx::Sprite).map(|v| v + 1))],
            AnmUse::Plus1Script => vec![(0, r(Ctx::Script).map(|v| v + 1))],
            AnmUse::Multi => vec![(0, Ok(7)), (1, r(Ctx::Sprite)), (2, r(Ctx::Script))],
            AnmUse::QualSprite => vec![(0, r(Ctx::QualSprite))],
            AnmUse::QualScript => vec![(0, r(Ctx::QualScript))],
        }
    }
    fn use_text(&self, u: &AnmUseL) -> (String, String) {
        // (statement(s) inside the script, opcode used)
        let o = self.ops();
        let n = &u.name;
        match u.kind {
            AnmUse::ArgSprite => (format!("ins_{}({n});", o.n), String::new()),
            AnmUse::ArgScript => (format!("ins_{}({n});", o.nn), String::new()),
            AnmUse::ArgUntyped => (format!("ins_{}({n});", o.s), String::new()),
            AnmUse::Plus1Sprite => (format!("ins_{}({n} + 1);", o.n), String::new()),
            AnmUse::Plus1Script => (format!("ins_{}({n} + 1);", o.nn), String::new()),
            AnmUse::Multi => (format!("ins_{}(7, {n}, {n});", o.snn), String::new()),
            AnmUse::QualSprite => (format!("ins_{}(AnmSprite.{n});", o.s), String::new()),
            AnmUse::QualScript => (format!("ins_{}(AnmScript.{n});", o.s), String::new()),
            AnmUse::ConstTop => (format!("ins_{}(KT{});", o.s, u.uid), String::new()),
            AnmUse::ConstBottom => (format!("ins_{}(KB{});", o.s, u.uid), String::new()),
            AnmUse::ConstLocal => (format!("const int KL{} = {n}; ins_{}(KL{});", u.uid, o.s, u.uid), String::new()),
            AnmUse::RealSprite => (format!("ins_{}({n});", o.real_n), String::new()),
            AnmUse::RealScript => (format!("ins_{}({n});", o.real_nn.unwrap_or(o.nn)), String::new()),
        }
    }
    fn all_uses(&self) -> Vec<&AnmUseL> { self.entries.iter().flat_map(|e| e.scripts.iter()).flat_map(|s| s.uses.iter()).collect() }
}

fn id_text(spec: &IdSpec) -> String {
    match spec {
        IdSpec::Implicit => String::new(),
        IdSpec::Lit(v) => format!(", id: {v}"),
        IdSpec::Base(k) => format!(", id: base + {k}"),
        IdSpec::Arith(a, b) => format!(", id: {a} * 3 - {}", -b),
        IdSpec::Expr(t, _) => format!(", id: {t}"),
        IdSpec::Rel(n, k) => if *k >= 0 { format!(", id: {n} + {k}") } else { format!(", id: {n} - {}", -k) },
    }
}

impl AnmLayout {
    fn verdict_inner(&self) -> Verdict {
        let defs = self.sprite_defs();
        let ids = self.ids();
        let mut errors: Vec<(&'static str, String)> = vec![];
        let mut unspec: Vec<String> = vec![];
        for r in &ids {
            match r {
                Err(IdErr::Cycle) => errors.push(("cycle", "anm-sprite-id".into())),
                Err(IdErr::Dangling(_)) => errors.push(("dangling", "anm-sprite-id-expr".into())),
                Err(IdErr::Ambiguous(_)) => unspec.push("ambiguous-name-in-untyped-context".into()),
                Err(IdErr::TwoValues(_)) => errors.push(("conflict", "anm-name-is-sprite-and-script-with-different-numbers".into())),
                Ok(v) if *v < 0 => unspec.push("negative-sprite-id".into()),
                Ok(_) => {},
            }
        }
        for (i, a) in defs.iter().enumerate() {
            for (j, b) in defs.iter().enumerate().skip(i + 1) {
                if a.2.name != b.2.name { continue; }
                let differ = match (&ids[i], &ids[j]) { (Ok(x), Ok(y)) => Some(x != y), _ => None };
                match differ {
                    Some(true) => errors.push(("conflict", if a.0 == b.0 { "anm-sprite-name-same-entry".into() } else { "anm-sprite-name".into() })),
                    Some(false) => if a.0 == b.0 { unspec.push("same-sprite-name-twice-in-one-entry".into()) },
                    None => {},
                }
            }
        }
        let scripts = self.script_defs();
        for (i, a) in scripts.iter().enumerate() {
            if scripts.iter().skip(i + 1).any(|b| b.1.name == a.1.name) { errors.push(("conflict", "anm-script-name".into())); }
        }
        for u in self.all_uses() {
            for (_, r) in self.use_expect(u) {
                match r {
                    Err(IdErr::Dangling(_)) => errors.push(("dangling", format!("anm-{:?}", u.kind))),
                    Err(IdErr::Ambiguous(_)) => unspec.push("ambiguous-name-in-untyped-context".into()),
                    Err(IdErr::TwoValues(_)) => errors.push(("conflict", "anm-name-is-sprite-and-script-with-different-numbers".into())),
                    Err(IdErr::Cycle) => errors.push(("cycle", "anm-sprite-id".into())),
                    Ok(_) => {},
                }
            }
        }
        if let Some((c, k)) = errors.into_iter().next() { return Verdict::Error(c, k); }
        if let Some(u) = unspec.into_iter().next() { return Verdict::Unspecified(u); }
        Verdict::Legal
    }
}

impl Layout for AnmLayout {
    fn fam(&self) -> &'static str { "anm" }
    fn tool(&self) -> Tool { Tool::new(Kind::Anm, self.game) }
    fn mapfile(&self) -> Option<String> {
        let o = self.ops();
        Some(format!("!anmmap\n!ins_signatures\n{} S\n{} S\n{} n\n{} N\n{} SnN\n{} S\n", o.mark, o.sep, o.n, o.nn, o.snn, o.s))
    }
    fn render(&self) -> String {
        let o = self.ops();
        let mut s = String::new();
        for u in self.all_uses() { if u.kind == AnmUse::ConstTop { s += &format!("const int KT{} = {};\n", u.uid, u.name); } }
        for (ei, e) in self.entries.iter().enumerate() {
            s += &format!("entry {{\n    path: \"e{ei}.png\", has_data: false, img_width: 8, img_height: 8, img_format: 3, memory_priority: 0,\n    sprites: {{\n");
            for sp in &e.sprites { s += &format!("        {}: {{x: {}.0, y: 0.0, w: 1.0, h: 1.0{}}},\n", sp.name, sp.marker, id_text(&sp.spec)); }
            s += "    },\n}\n";
            for sc in &e.scripts {
                let num = sc.number.map(|n| format!("{n} ")).unwrap_or_default();
                s += &format!("script {num}{} {{\n    ins_{}({});\n", sc.name, o.mark, sc.marker);
                for u in &sc.uses { s += &format!("    ins_{}({});\n    {}\n", o.sep, u.uid, self.use_text(u).0); }
                s += "}\n";
            }
        }
        s += "const int base = 10;\n";
        for u in self.all_uses() { if u.kind == AnmUse::ConstBottom { s += &format!("const int KB{} = {};\n", u.uid, u.name); } }
        s
    }
    fn verdict(&self) -> Verdict {
        if !self.resolve_last {
            let mut other = self.clone();
            other.resolve_last = true;
            let same = self.ids() == other.ids() && self.all_uses().iter().all(|u| self.use_expect(u) == other.use_expect(u));
            if !same {
                // conflicts are errors under either reading; anything else depends on an undocumented choice
                let (a, b) = (self.verdict_inner(), other.verdict_inner());
                return match (&a, &b) { (Verdict::Error("conflict", _), Verdict::Error("conflict", _)) => a, _ => Verdict::Unspecified("reference-to-multiply-defined-name".into()) };
            }
        }
        self.verdict_inner()
    }
    fn nontrivial(&self) -> bool {
        let defs = self.sprite_defs();
        let scripts = self.script_defs();
        let explicit = defs.iter().any(|d| d.2.spec != IdSpec::Implicit) || scripts.iter().any(|s| s.1.number.is_some());
        let mut names: Vec<&str> = defs.iter().map(|d| d.2.name.as_str()).chain(scripts.iter().map(|s| s.1.name.as_str())).collect();
        let total = names.len();
        names.sort(); names.dedup();
        (defs.len() >= 2 || scripts.len() >= 2) && (explicit || names.len() < total)
    }
    fn class(&self) -> String {
        let mut pats: Vec<&str> = self.sprite_defs().iter().map(|d| d.2.pat).collect();
        pats.sort(); pats.dedup();
        format!("entries={}:{}", self.entries.len(), pats.join("+"))
    }
    fn check(&self, bytes: &[u8], corrupt: bool) -> Result<(u64, Vec<Mismatch>), String> {
        let o = self.ops();
        let w = m2::walk_anm(bytes, self.game)?;
        let mut c = Cmp::new();
        let defs = self.sprite_defs();
        let mut ids: Vec<i64> = self.ids().into_iter().map(|r| r.unwrap_or(-999)).collect();
        if corrupt && ids.len() >= 2 { let l = ids.len() - 1; ids[l] += 1; }
        if !c.eq(|| "C20:anm:entry-count".into(), || "number of entries".into(), w.len(), self.entries.len()) { return Ok((c.n, c.mism)); }
        let mut file_scripts: Vec<&m2::AnmScript> = vec![];
        let mut k = 0usize;
        for (ei, (we, le)) in w.iter().zip(&self.entries).enumerate() {
            if !c.eq(|| "C20:anm:sprite-count".into(), || format!("entry {ei} sprite count"), we.sprites.len(), le.sprites.len()) { return Ok((c.n, c.mism)); }
            for (j, (ws, ls)) in we.sprites.iter().zip(&le.sprites).enumerate() {
                c.eq(|| "C20:anm:sprite-record-order".into(), || format!("entry {ei} sprite {j} ('{}') content marker x", ls.name), ws.x, ls.marker as f32);
                let later = if ei > 0 { "@later-entry" } else { "" };
                c.eq(|| format!("C20:anm:sprite-id:{}{later}", ls.pat), || format!("entry {ei} sprite {j} ('{}', {}) id field in the sprite table", ls.name, ls.pat), ws.id as i64, ids[k]);
                k += 1;
            }
            if !c.eq(|| "C20:anm:script-count".into(), || format!("entry {ei} script count"), we.scripts.len(), le.scripts.len()) { return Ok((c.n, c.mism)); }
            for s in &we.scripts { file_scripts.push(s); }
        }
        let lscripts = self.script_defs();
        for (p, (fs, (_, ls))) in file_scripts.iter().zip(&lscripts).enumerate() {
            let got = fs.instrs.first().filter(|i| i.opcode == o.mark).map(|i| dwords(&i.args)).and_then(|d| d.first().copied());
            c.eq(|| "C20:anm:script-order".into(), || format!("script at file position {p} ('{}') content marker", ls.name), got, Some(ls.marker));
        }
        // use sites
        for (p, (fs, (_, ls))) in file_scripts.iter().zip(&lscripts).enumerate() {
            let segs = segments(&fs.instrs, |i| if i.opcode == o.sep { dwords(&i.args).first().copied() } else { None });
            for u in &ls.uses {
                let Some(ins) = segs.get(&u.uid) else { c.fail(format!("C20:anm:use-site-missing:{:?}", u.kind), format!("script {p}: no instruction found for use {} ({:?} {})", u.uid, u.kind, u.name)); continue };
                let d = dwords(&ins.args);
                for (idx, exp) in self.use_expect(u) {
                    let exp = exp.unwrap_or(-999);
                    let got = d.get(idx).map(|&x| x as i32 as i64);
                    let ok = c.eq(|| format!("C20:anm:arg:{:?}", u.kind), || format!("script '{}' use {} `{}` argument dword {idx}", ls.name, u.uid, self.use_text(u).0), got, Some(exp));
                    if !ok { continue; }
                    // cross-check against the tables of the same file (independent of M9's numbers)
                    let plus = matches!(u.kind, AnmUse::Plus1Sprite | AnmUse::Plus1Script) as i64;
                    if u.kind == AnmUse::Multi && idx == 0 { continue; }
                    let ctx = match (u.kind, idx) {
                        (AnmUse::ArgSprite | AnmUse::RealSprite | AnmUse::Plus1Sprite, _) | (AnmUse::Multi, 1) => Ctx::Sprite,
                        (AnmUse::ArgScript | AnmUse::RealScript | AnmUse::Plus1Script, _) | (AnmUse::Multi, _) => Ctx::Script,
                        (AnmUse::QualSprite, _) => Ctx::QualSprite,
                        (AnmUse::QualScript, _) => Ctx::QualScript,
                        _ => Ctx::Untyped,
                    };
                    let is_sprite = defs.iter().any(|d| d.2.name == u.name);
                    let is_script = lscripts.iter().any(|s| s.1.name == u.name);
                    let as_sprite = match ctx { Ctx::Sprite | Ctx::QualSprite => is_sprite, Ctx::Script | Ctx::QualScript => !is_script, Ctx::Untyped => is_sprite };
                    let v = got.unwrap() - plus;
                    if as_sprite {
                        // every sprite record carrying the marker of a sprite with this name has id == v
                        let markers: Vec<u32> = defs.iter().filter(|d| d.2.name == u.name).map(|d| d.2.marker).collect();
                        let recs: Vec<i64> = w.iter().flat_map(|e| e.sprites.iter()).filter(|s| markers.iter().any(|&m| s.x == m as f32)).map(|s| s.id as i64).collect();
                        if !corrupt { c.eq(|| format!("C20:anm:arg-vs-file-sprite-table:{:?}", u.kind), || format!("id fields of the sprite records named '{}' vs argument {v}", u.name), recs.iter().all(|&r| r == v) && !recs.is_empty(), true); }
                    } else {
                        let marker = lscripts.iter().find(|s| s.1.name == u.name).map(|s| s.1.marker);
                        let got_marker = usize::try_from(v).ok().and_then(|v| file_scripts.get(v)).and_then(|s| s.instrs.first()).and_then(|i| dwords(&i.args).first().copied());
                        c.eq(|| format!("C20:anm:arg-vs-file-script-order:{:?}", u.kind), || format!("content marker of the script at file position {v} (argument naming '{}')", u.name), got_marker, marker);
                    }
                }
            }
        }
        Ok((c.n, c.mism))
    }
    fn describe(&self) -> Value {
        let defs = self.sprite_defs();
        let ids = self.ids();
        json!({
            "sprites": defs.iter().zip(&ids).map(|(d, r)| json!({"entry": d.0, "name": d.2.name, "pattern": d.2.pat, "expected_id": format!("{:?}", r)})).collect::<Vec<_>>(),
            "scripts": self.script_defs().iter().enumerate().map(|(p, s)| json!({"entry": s.0, "name": s.1.name, "explicit_number": s.1.number, "expected_reference_value": p})).collect::<Vec<_>>(),
            "uses": self.all_uses().iter().map(|u| json!({"uid": u.uid, "kind": format!("{:?}", u.kind), "name": u.name, "expected": format!("{:?}", self.use_expect(u))})).collect::<Vec<_>>(),
        })
    }
}

// =============================================================================================
// MSG

#[derive(Debug, Clone, PartialEq)]
enum MsgTgt { Script(String), Zero }

#[derive(Debug, Clone)]
struct MsgLayout {
    game: Game,
    /// script names in FILE order
    scripts: Vec<String>,
    meta_pos: usize,
    /// (index, target) in SOURCE order
    table: Vec<(u32, MsgTgt)>,
    default: Option<MsgTgt>,
    table_len: Option<u32>,
    len_pat: &'static str,
    flags: bool,
    dup_script: bool,
}

const MSG_NAMES: [&str; 4] = ["mid", "zeta", "alpha", "beta"];
fn msg_marker(name: &str) -> u32 { 0x40 + MSG_NAMES.iter().position(|n| *n == name).unwrap_or(60) as u32 }

fn gen_msg(ch: &mut Chooser, game: Game, prof: &[u32]) -> MsgLayout {
    let free = prof[0];
    let (max_scripts, max_len) = (prof[1] as usize, prof[2] as usize);
    let c = |f: u32| if free & f != 0 { 0 } else { 1 };
    let ns = 1 + ch.pick_w(max_scripts, c(F_SHAPE));
    let perm = permutation(ns, ch.pick_w(factorial(ns), c(F_SCRIPTS)));
    let scripts: Vec<String> = perm.iter().map(|&i| MSG_NAMES[i].to_string()).collect();
    let meta_pos = ch.pick_w(ns + 1, c(F_SCRIPTS));
    let mut table = vec![];
    for idx in 0..max_len {
        // alternatives: hole, each script, literal 0, dangling name  (index 0 defaults to the first script)
        let mut alts: Vec<Option<MsgTgt>> = vec![None];
        for i in 0..ns { alts.push(Some(MsgTgt::Script(MSG_NAMES[i].to_string()))); }
        alts.push(Some(MsgTgt::Zero));
        alts.push(Some(MsgTgt::Script("nosuch".into())));
        if idx == 0 { alts.swap(0, 1); }
        if let Some(t) = alts[ch.pick_w(alts.len(), c(F_IDS))].clone() { table.push((idx as u32, t)); }
    }
    let mut dalts: Vec<Option<MsgTgt>> = vec![None];
    for i in 0..ns { dalts.push(Some(MsgTgt::Script(MSG_NAMES[i].to_string()))); }
    dalts.push(Some(MsgTgt::Zero));
    dalts.push(Some(MsgTgt::Script("nosuch".into())));
    let default = dalts[ch.pick_w(dalts.len(), c(F_NAMES))].clone();
    let implicit = table.iter().map(|e| e.0 + 1).max().unwrap_or(0);
    let (table_len, len_pat) = match ch.pick_w(4, c(F_X1)) {
        0 => (None, "implicit"),
        1 => (Some(implicit), "explicit-equal"),
        2 => (Some(implicit + 2), "longer"),
        _ => (Some(implicit.saturating_sub(1)), "shorter"),
    };
    let flags = ch.pick_w(2, c(F_X2)) == 1;
    if ch.pick_w(2, c(F_X2)) == 1 { table.reverse(); }
    let dup_script = ch.pick_w(2, c(F_X2)) == 1;
    MsgLayout { game, scripts, meta_pos, table, default, table_len, len_pat, flags, dup_script }
}

impl MsgLayout {
    fn implicit_len(&self) -> u32 { self.table.iter().map(|e| e.0 + 1).max().unwrap_or(0) }
    fn dense(&self) -> Vec<MsgTgt> {
        let len = self.table_len.unwrap_or(self.implicit_len());
        (0..len).map(|i| self.table.iter().find(|e| e.0 == i).map(|e| e.1.clone()).or(self.default.clone()).unwrap_or(MsgTgt::Zero)).collect()
    }
    fn defined(&self, name: &str) -> bool { self.scripts.iter().any(|s| s == name) }
}

impl Layout for MsgLayout {
    fn fam(&self) -> &'static str { "msg" }
    fn tool(&self) -> Tool { Tool::new(Kind::Msg, self.game) }
    fn mapfile(&self) -> Option<String> { None }
    fn render(&self) -> String {
        let tgt = |t: &MsgTgt| match t { MsgTgt::Script(n) => format!("\"{n}\""), MsgTgt::Zero => "0".to_string() };
        let mut meta = String::from("meta {\n");
        if let Some(l) = self.table_len { meta += &format!("    table_len: {l},\n"); }
        meta += "    table: {\n";
        for (i, t) in &self.table {
            let fl = if self.flags { format!(", flags: {}", i + 1) } else { String::new() };
            meta += &format!("        {i}: {{script: {}{fl}}},\n", tgt(t));
        }
        if let Some(d) = &self.default { meta += &format!("        default: {{script: {}}},\n", tgt(d)); }
        meta += "    },\n}\n";
        let mut s = String::new();
        for (k, name) in self.scripts.iter().enumerate() {
            if k == self.meta_pos { s += &meta; }
            s += &format!("script {name} {{\n    ins_4(@blob=\"{:02x}000000\");\n}}\n", msg_marker(name));
        }
        if self.meta_pos >= self.scripts.len() { s += &meta; }
        if self.dup_script { s += &format!("script {} {{\n    ins_4(@blob=\"7f000000\");\n}}\n", self.scripts[0]); }
        s
    }
    fn verdict(&self) -> Verdict {
        if self.dup_script { return Verdict::Error("conflict", "msg-script-name".into()); }
        let short = self.table_len.map_or(false, |l| l < self.implicit_len());
        let dense = self.dense();
        let dangling_used = dense.iter().any(|t| matches!(t, MsgTgt::Script(n) if !self.defined(n)));
        if dangling_used && !short {
            let via_default = !self.table.iter().any(|e| matches!(&e.1, MsgTgt::Script(n) if !self.defined(n)));
            return Verdict::Error("dangling", if via_default { "msg-table-default".into() } else { "msg-table".into() });
        }
        if short { return Verdict::Unspecified("table_len-shorter-than-entries".into()); }
        let dangling_anywhere = self.table.iter().map(|e| &e.1).chain(self.default.iter()).any(|t| matches!(t, MsgTgt::Script(n) if !self.defined(n)));
        if dangling_anywhere { return Verdict::Unspecified("dangling-default-never-used".into()); }
        if dense.is_empty() { return Verdict::Unspecified("empty-table".into()); }
        Verdict::Legal
    }
    fn nontrivial(&self) -> bool {
        let dense = self.dense();
        let names: Vec<&String> = dense.iter().filter_map(|t| if let MsgTgt::Script(n) = t { Some(n) } else { None }).collect();
        let distinct: BTreeSet<&String> = names.iter().copied().collect();
        self.scripts.len() >= 2 && (distinct.len() < names.len() || self.default.is_some() || (self.table.len() as u32) < self.implicit_len())
    }
    fn class(&self) -> String {
        format!("scripts={}:entries={}:default={}:len={}", self.scripts.len(), self.table.len(), self.default.is_some(), self.len_pat)
    }
    fn check(&self, bytes: &[u8], corrupt: bool) -> Result<(u64, Vec<Mismatch>), String> {
        let w = m2::walk_msg(bytes, self.game, false)?;
        let mut c = Cmp::new();
        let mut dense = self.dense();
        if corrupt && self.scripts.len() >= 2 {
            // shift one expectation: the last named entry is expected to point at the NEXT script name
            if let Some(MsgTgt::Script(n)) = dense.iter_mut().rev().find(|t| matches!(t, MsgTgt::Script(_))) {
                let k = self.scripts.iter().position(|s| s == n).unwrap();
                *n = self.scripts[(k + 1) % self.scripts.len()].clone();
            }
        }
        let class = format!("{}{}", self.len_pat, if self.default.is_some() { "+default" } else { "" });
        if !c.eq(|| format!("C20:msg:table-len:{class}"), || "table length".into(), w.table.len(), dense.len()) { return Ok((c.n, c.mism)); }
        for (i, (e, t)) in w.table.iter().zip(&dense).enumerate() {
            let explicit = self.table.iter().any(|x| x.0 == i as u32);
            let how = if explicit { "explicit" } else if self.default.is_some() { "default" } else { "hole" };
            match t {
                MsgTgt::Zero => { c.eq(|| format!("C20:msg:table-offset:{how}-zero"), || format!("table[{i}] ({how}) offset"), e.script_offset, 0); },
                MsgTgt::Script(n) => {
                    let sc = w.scripts.iter().find(|s| s.0 == e.script_offset as usize && e.script_offset != 0);
                    let got = sc.and_then(|s| s.1.first()).filter(|i| i.opcode == 4).and_then(|i| dwords(&i.args).first().copied());
                    c.eq(|| format!("C20:msg:table-offset:{how}-script"), || format!("table[{i}] ({how}, script '{n}') -> content marker of the script at offset {:#x}", e.script_offset), got, Some(msg_marker(n)));
                },
            }
        }
        Ok((c.n, c.mism))
    }
    fn describe(&self) -> Value {
        json!({"scripts_in_file_order": self.scripts, "dense_table_expected": self.dense().iter().map(|t| format!("{t:?}")).collect::<Vec<_>>(),
               "markers": self.scripts.iter().map(|s| json!({"name": s, "marker": msg_marker(s)})).collect::<Vec<_>>()})
    }
}

// =============================================================================================
// old ECL (TH06, TH07, TH08)

#[derive(Debug, Clone, Copy, PartialEq, Eq)]
enum EclUse { Call, ArgE, Plus1E, ArgTwo, ArgUntyped, Qual, ConstTop, ConstBottom, ConstLocal, ByteEnum, RawCall }
const ECL_USE_KINDS: [EclUse; 11] = [EclUse::Call, EclUse::ArgE, EclUse::Plus1E, EclUse::ArgTwo, EclUse::ArgUntyped, EclUse::Qual,
    EclUse::ConstTop, EclUse::ConstBottom, EclUse::ConstLocal, EclUse::ByteEnum, EclUse::RawCall];

#[derive(Debug, Clone)]
struct EclUseL { kind: EclUse, name: String, uid: u32 }
#[derive(Debug, Clone)]
struct EclSubL { name: String, marker: u32, params: u8, uses: Vec<EclUseL> }
#[derive(Debug, Clone)]
struct EclTlL { name: String, index: Option<i32>, pat: &'static str, marker: u32, target: String }
#[derive(Debug, Clone)]
struct EclLayout { game: Game, subs: Vec<EclSubL>, tls: Vec<EclTlL>, tl_pos: usize,
    /// TH06: the user mapfile re-declares the call opcode with the sub id ('E') in another position (0 = builtin `ESf`, 1 = `SEf`, 2 = `SfE`; the int operand stays in front of the float one, which the intrinsic requires);
    /// call sugar must put the sub's position into the slot the signature declares, wherever it sits
    call_sig: u8 }

const ECL_NAMES: [&str; 4] = ["mid", "zeta", "alpha", "beta"];

fn gen_ecl(ch: &mut Chooser, game: Game, prof: &[u32]) -> EclLayout {
    let free = prof[0];
    let (max_subs, max_tl) = (prof[1] as usize, prof[2] as usize);
    let c = |f: u32| if free & f != 0 { 0 } else { 1 };
    let nsub = 1 + ch.pick_w(max_subs, c(F_SHAPE));
    let tl_alts: Vec<usize> = if game == Game::Th06 { vec![1, 0] } else { [1usize, 0, 2, 3].iter().copied().filter(|&k| k <= max_tl).collect() };
    let ntl = tl_alts[ch.pick_w(tl_alts.len(), c(F_X1))];
    let mut subs: Vec<EclSubL> = (0..nsub).map(|k| EclSubL { name: ECL_NAMES[k].to_string(), marker: 0x70 + k as u32, params: 0, uses: vec![] }).collect();
    if nsub >= 2 && ch.pick_w(2, c(F_NAMES)) == 1 { subs[nsub - 1].name = subs[0].name.clone(); }
    for s in subs.iter_mut() { s.params = ch.pick_w(4, c(F_SCRIPTS)) as u8; }
    let mut tls = vec![];
    for t in 0..ntl {
        let (index, pat) = match ch.pick_w(4, c(F_X1)) {
            0 => (None, "implicit"),
            1 => (Some(t as i32), "explicit-own-position"),
            2 => (Some((ntl - 1 - t) as i32), "explicit-reversed"),
            _ => (Some(t as i32 + 1), "explicit-shifted"),
        };
        let mut targets: Vec<String> = (0..nsub).map(|k| subs[(t + k) % nsub].name.clone()).collect();
        targets.push("nosuch".into());
        let target = targets[ch.pick_w(targets.len(), c(F_X2))].clone();
        tls.push(EclTlL { name: format!("tl{t}"), index, pat, marker: 0x30 + t as u32, target });
    }
    let tl_pos = ch.pick_w(nsub + 1, c(F_SCRIPTS));
    let mut names: Vec<String> = vec![];
    for s in &subs { if !names.contains(&s.name) { names.push(s.name.clone()); } }
    let mut uid = 0u32;
    let host1 = ch.pick_w(nsub, c(F_USES));
    for n in &names {
        subs[host1].uses.push(EclUseL { kind: EclUse::Call, name: n.clone(), uid }); uid += 1;
        subs[host1].uses.push(EclUseL { kind: EclUse::ArgE, name: n.clone(), uid }); uid += 1;
    }
    let k = ch.pick_w(1 + ECL_USE_KINDS.len(), c(F_USES));
    if k > 0 {
        let mut targets = names.clone();
        targets.push("nosuch".into());
        let t = ch.pick_w(targets.len(), c(F_USES));
        let host2 = ch.pick_w(nsub, c(F_USES));
        subs[host2].uses.push(EclUseL { kind: ECL_USE_KINDS[k - 1], name: targets[t].clone(), uid });
    }
    let call_sig = if game == Game::Th06 { ch.pick_w(3, c(F_USES)) as u8 } else { 0 };
    EclLayout { game, subs, tls, tl_pos, call_sig }
}

impl EclLayout {
    fn sub_index(&self, name: &str) -> Option<i64> { self.subs.iter().position(|s| s.name == name).map(|p| p as i64) }
    fn call_slot(&self) -> usize { self.call_sig as usize }
    fn call_opcode(&self) -> u16 { match self.game { Game::Th06 => 35, Game::Th07 => 41, _ => 52 } }
    /// (statement text, expected opcode of the use instruction, dword index of the id or None = first BYTE)
    fn use_text(&self, u: &EclUseL) -> (String, u16, Option<usize>) {
        let n = &u.name;
        let g = self.game;
        let arg_e: u16 = match g { Game::Th06 => 108, Game::Th07 => 113, _ => 52 };
        match u.kind {
            EclUse::Call => {
                let params = self.subs.iter().find(|s| &s.name == n).map_or(0, |s| s.params);
                let args = ["", "5", "1.5", "5, 1.5"][params as usize];
                (format!("{n}({args});"), self.call_opcode(), Some(self.call_slot()))
            },
            EclUse::ArgE => (format!("ins_{arg_e}({n});"), arg_e, Some(0)),
            EclUse::Plus1E => (format!("ins_{arg_e}({n} + 1);"), arg_e, Some(0)),
            EclUse::ArgTwo => match g {
                Game::Th06 => (format!("ins_109({n}, 3);"), 109, Some(0)),
                Game::Th07 => (format!("ins_108({n}, 3);"), 108, Some(0)),
                _ => (format!("ins_135(3, {n});"), 135, Some(1)),
            },
            EclUse::ArgUntyped => (format!("ins_900({n});"), 900, Some(0)),
            EclUse::Qual => (format!("ins_900(EclSub.{n});"), 900, Some(0)),
            EclUse::ConstTop => (format!("ins_900(KT{});", u.uid), 900, Some(0)),
            EclUse::ConstBottom => (format!("ins_900(KB{});", u.uid), 900, Some(0)),
            EclUse::ConstLocal => (format!("const int KL{} = {n}; ins_900(KL{});", u.uid, u.uid), 900, Some(0)),
            EclUse::ByteEnum => if g == Game::Th07 { (format!("ins_107({n});"), 107, None) } else { (format!("ins_{arg_e}({n});"), arg_e, Some(0)) },
            EclUse::RawCall => if g == Game::Th06 { (match self.call_sig { 0 => format!("ins_35({n}, 0, 0.0);"), 1 => format!("ins_35(0, {n}, 0.0);"), _ => format!("ins_35(0, 0.0, {n});") }, 35, Some(self.call_slot())) } else { (format!("ins_{}({n});", self.call_opcode()), self.call_opcode(), Some(0)) },
        }
    }
    fn use_expect(&self, u: &EclUseL) -> Option<i64> {
        self.sub_index(&u.name).map(|v| if u.kind == EclUse::Plus1E { v + 1 } else { v })
    }
    /// M9: slot of every timeline, or None if the index set is invalid
    fn tl_slots(&self) -> Option<Vec<usize>> {
        let mut auto = 0usize;
        let mut slots = vec![];
        for t in &self.tls {
            match t.index { Some(i) if i < 0 => return None, Some(i) => slots.push(i as usize), None => { slots.push(auto); auto += 1; } }
        }
        let set: BTreeSet<usize> = slots.iter().copied().collect();
        if set.len() != slots.len() || set.iter().next_back().map_or(false, |&m| m + 1 != slots.len()) { return None; }
        Some(slots)
    }
    fn all_uses(&self) -> Vec<&EclUseL> { self.subs.iter().flat_map(|s| s.uses.iter()).collect() }
    fn tl_text(&self, t: &EclTlL) -> String {
        let num = t.index.map(|i| format!("{i} ")).unwrap_or_default();
        let spawn = if self.game == Game::Th08 { format!("ins_0({}, 0.0, 0.0, 0, 0, 0);", t.target) } else { format!("ins_0({}, 0.0, 0.0, 0.0, 0, 0, 0);", t.target) };
        format!("script {num}{} {{\n    ins_900({}, 0);\n    {spawn}\n}}\n", t.name, t.marker)
    }
}

impl Layout for EclLayout {
    fn fam(&self) -> &'static str { "ecl" }
    fn tool(&self) -> Tool { Tool::new(Kind::Ecl, self.game) }
    fn mapfile(&self) -> Option<String> {
        let call = match self.call_sig { 0 => "", 1 => "35 S(imm)E(imm)f(imm)\n", _ => "35 S(imm)f(imm)E(imm)\n" };
        Some(format!("!eclmap\n!ins_signatures\n900 S\n901 SS\n{call}!timeline_ins_signatures\n900 SS\n"))
    }
    fn render(&self) -> String {
        let mut s = String::new();
        for u in self.all_uses() { if u.kind == EclUse::ConstTop { s += &format!("const int KT{} = {};\n", u.uid, u.name); } }
        for (k, sub) in self.subs.iter().enumerate() {
            if k == self.tl_pos { for t in &self.tls { s += &self.tl_text(t); } }
            let params = ["", "int a", "float x", "int a, float x"][sub.params as usize];
            s += &format!("void {}({params}) {{\n    ins_901({}, 0);\n", sub.name, sub.marker);
            for u in &sub.uses { s += &format!("    ins_901({}, 1);\n    {}\n", u.uid, self.use_text(u).0); }
            s += "}\n";
        }
        if self.tl_pos >= self.subs.len() { for t in &self.tls { s += &self.tl_text(t); } }
        for u in self.all_uses() { if u.kind == EclUse::ConstBottom { s += &format!("const int KB{} = {};\n", u.uid, u.name); } }
        s
    }
    fn verdict(&self) -> Verdict {
        for (i, a) in self.subs.iter().enumerate() {
            if self.subs.iter().skip(i + 1).any(|b| b.name == a.name) { return Verdict::Error("conflict", "ecl-sub-name".into()); }
        }
        for u in self.all_uses() { if self.use_expect(u).is_none() { return Verdict::Error("dangling", format!("ecl-{:?}", u.kind)); } }
        for t in &self.tls { if self.sub_index(&t.target).is_none() { return Verdict::Error("dangling", "ecl-timeline-arg".into()); } }
        if self.tl_slots().is_none() { return Verdict::Error("invalid", "ecl-timeline-index-set".into()); }
        Verdict::Legal
    }
    fn nontrivial(&self) -> bool {
        let explicit = self.tls.iter().any(|t| t.index.is_some());
        let mut names: Vec<&str> = self.subs.iter().map(|s| s.name.as_str()).collect();
        let total = names.len();
        names.sort(); names.dedup();
        let shared_ref = self.all_uses().len() > 2 * names.len();
        (self.subs.len() >= 2 || self.tls.len() >= 2) && (explicit || names.len() < total || shared_ref)
    }
    fn class(&self) -> String {
        let mut pats: Vec<&str> = self.tls.iter().map(|t| t.pat).collect();
        pats.sort(); pats.dedup();
        format!("subs={}:timelines={}:{}", self.subs.len(), self.tls.len(), pats.join("+"))
    }
    fn check(&self, bytes: &[u8], corrupt: bool) -> Result<(u64, Vec<Mismatch>), String> {
        let w = m2::walk_ecl(bytes, self.game)?;
        let mut c = Cmp::new();
        if !c.eq(|| "C20:ecl:sub-count".into(), || "number of subs".into(), w.subs.len(), self.subs.len()) { return Ok((c.n, c.mism)); }
        let marker_of = |instrs: &Vec<m2::Instr>, op: u16| instrs.first().filter(|i| i.opcode == op).and_then(|i| dwords(&i.args).first().copied());
        for (p, (fs, ls)) in w.subs.iter().zip(&self.subs).enumerate() {
            c.eq(|| "C20:ecl:sub-order".into(), || format!("sub at file position {p} ('{}') content marker", ls.name), marker_of(fs, 901), Some(ls.marker));
        }
        let last_uid = self.all_uses().iter().map(|u| u.uid).max();
        for (fs, ls) in w.subs.iter().zip(&self.subs) {
            let segs = segments(fs, |i| if i.opcode == 901 { let d = dwords(&i.args); if d.get(1) == Some(&1) { d.first().copied() } else { None } } else { None });
            for u in &ls.uses {
                let (text, opcode, idx) = self.use_text(u);
                let Some(ins) = segs.get(&u.uid) else { c.fail(format!("C20:ecl:use-site-missing:{:?}", u.kind), format!("sub '{}': no instruction for use {} `{text}`", ls.name, u.uid)); continue };
                let mut exp = self.use_expect(u).unwrap_or(-999);
                if corrupt && Some(u.uid) == last_uid && self.subs.len() >= 2 { exp += 1; }
                let got = match idx { Some(k) => dwords(&ins.args).get(k).map(|&x| x as i32 as i64), None => ins.args.first().map(|&b| b as i8 as i64) };
                let ok = c.eq(|| format!("C20:ecl:arg:{:?}", u.kind), || format!("sub '{}' use {} `{text}` (opcode {}) sub id", ls.name, u.uid, ins.opcode), (ins.opcode, got), (opcode, Some(exp)));
                if ok && !corrupt {
                    let v = got.unwrap() - (u.kind == EclUse::Plus1E) as i64;
                    let want = self.subs.iter().find(|s| s.name == u.name).map(|s| s.marker);
                    let got_marker = usize::try_from(v).ok().and_then(|v| w.subs.get(v)).and_then(|s| marker_of(s, 901));
                    c.eq(|| format!("C20:ecl:arg-vs-file-sub-order:{:?}", u.kind), || format!("content marker of the sub at file position {v} (argument naming '{}')", u.name), got_marker, want);
                }
            }
        }
        // timelines
        if !c.eq(|| "C20:ecl:timeline-count".into(), || "number of timelines".into(), w.timelines.len(), self.tls.len()) { return Ok((c.n, c.mism)); }
        let slots = self.tl_slots().unwrap_or_default();
        for (t, &slot) in self.tls.iter().zip(&slots) {
            let ft = &w.timelines[slot];
            c.eq(|| format!("C20:ecl:timeline-slot:{}", t.pat), || format!("timeline '{}' ({}) expected in slot {slot}: content marker there", t.name, t.pat), marker_of(ft, 900), Some(t.marker));
            let exp = self.sub_index(&t.target).unwrap_or(-999);
            let spawn = ft.iter().find(|i| i.opcode == 0);
            let got = spawn.and_then(|i| if self.game == Game::Th08 { dwords(&i.args).first().map(|&x| x as i32 as i64) } else { i.extra_arg.map(|x| x as i64) });
            let ok = c.eq(|| "C20:ecl:timeline-arg".into(), || format!("timeline '{}' ins_0({}, ...) sub id", t.name, t.target), got, Some(exp));
            if ok {
                let want = self.subs.iter().find(|s| s.name == t.target).map(|s| s.marker);
                let got_marker = usize::try_from(got.unwrap()).ok().and_then(|v| w.subs.get(v)).and_then(|s| marker_of(s, 901));
                c.eq(|| "C20:ecl:timeline-arg-vs-file-sub-order".into(), || format!("content marker of the sub the timeline '{}' refers to", t.name), got_marker, want);
            }
        }
        Ok((c.n, c.mism))
    }
    fn describe(&self) -> Value {
        json!({
            "subs": self.subs.iter().enumerate().map(|(p, s)| json!({"name": s.name, "expected_id": p, "marker": s.marker})).collect::<Vec<_>>(),
            "timelines": self.tls.iter().map(|t| json!({"name": t.name, "index": t.index, "target": t.target})).collect::<Vec<_>>(),
            "timeline_slots_expected": format!("{:?}", self.tl_slots()),
            "call_signature_variant": self.call_sig, "mapfile": self.mapfile(),
            "uses": self.all_uses().iter().map(|u| json!({"uid": u.uid, "kind": format!("{:?}", u.kind), "name": u.name, "expected": self.use_expect(u)})).collect::<Vec<_>>(),
        })
    }
}

// =============================================================================================
// STD

#[derive(Debug, Clone)]
struct StdLayout { game: Game, objects: Vec<String>, instances: Vec<String> }

const STD_NAMES: [&str; 4] = ["mid", "zeta", "alpha", "beta"];

fn gen_std(ch: &mut Chooser, game: Game, prof: &[u32]) -> StdLayout {
    let free = prof[0];
    let (max_obj, max_inst) = (prof[1] as usize, prof[2] as usize);
    let c = |f: u32| if free & f != 0 { 0 } else { 1 };
    let no = 1 + ch.pick_w(max_obj, c(F_SHAPE));
    let perm = permutation(no, ch.pick_w(factorial(no), c(F_NAMES)));
    let objects: Vec<String> = perm.iter().map(|&i| STD_NAMES[i].to_string()).collect();
    let ni_alts: Vec<usize> = [1usize, 0, 2, 3, 4].iter().copied().filter(|&k| k <= max_inst).collect();
    let ni = ni_alts[ch.pick_w(ni_alts.len(), c(F_SHAPE))];
    let mut instances = vec![];
    for k in 0..ni {
        let mut alts: Vec<String> = (0..no).map(|j| objects[(k + j) % no].clone()).collect();
        alts.push("nosuch".into());
        instances.push(alts[ch.pick_w(alts.len(), c(F_USES))].clone());
    }
    StdLayout { game, objects, instances }
}

impl StdLayout {
    fn layer(&self, p: usize) -> u16 { 11 + p as u16 }
}

impl Layout for StdLayout {
    fn fam(&self) -> &'static str { "std" }
    fn tool(&self) -> Tool { Tool::new(Kind::Std, self.game) }
    fn mapfile(&self) -> Option<String> { None }
    fn render(&self) -> String {
        let mut s = String::from("meta {\n    unknown: 0,\n");
        if m2::std_is_06_format(self.game) {
            s += "    stage_name: \"dm\",\n    bgm: [\n        {path: \"a.mid\", name: \"a\"},\n        {path: \"b.mid\", name: \"b\"},\n        {path: \" \", name: \" \"},\n        {path: \" \", name: \" \"},\n    ],\n";
        } else { s += "    anm_path: \"stage01.anm\",\n"; }
        s += "    objects: {\n";
        for (p, o) in self.objects.iter().enumerate() {
            s += &format!("        {o}: {{layer: {}, pos: [0.0, 0.0, 0.0], size: [1.0, 1.0, 1.0], quads: [rect {{anm_script: {p}, pos: [0.0, 0.0, 0.0], size: [1.0, 1.0]}}]}},\n", self.layer(p));
        }
        s += "    },\n    instances: [\n";
        for (k, i) in self.instances.iter().enumerate() { s += &format!("        {i} {{pos: [{}.0, 0.0, 0.0]}},\n", k + 1); }
        s += "    ],\n}\nscript main {}\n";
        s
    }
    fn verdict(&self) -> Verdict {
        if self.instances.iter().any(|i| !self.objects.contains(i)) { return Verdict::Error("dangling", "std-instance-object".into()); }
        Verdict::Legal
    }
    fn nontrivial(&self) -> bool {
        let distinct: BTreeSet<&String> = self.instances.iter().collect();
        self.objects.len() >= 2 && !self.instances.is_empty() && (distinct.len() < self.instances.len() || self.instances.len() >= 2)
    }
    fn class(&self) -> String { format!("objects={}:instances={}", self.objects.len(), self.instances.len()) }
    fn check(&self, bytes: &[u8], corrupt: bool) -> Result<(u64, Vec<Mismatch>), String> {
        let w = m2::walk_std(bytes, self.game)?;
        let mut c = Cmp::new();
        if !c.eq(|| "C20:std:object-count".into(), || "number of objects".into(), w.objects.len(), self.objects.len()) { return Ok((c.n, c.mism)); }
        for (p, o) in w.objects.iter().enumerate() {
            c.eq(|| "C20:std:object-order".into(), || format!("object at table position {p} ('{}') content marker (layer)", self.objects[p]), o.layer, self.layer(p));
            c.eq(|| "C20:std:object-id-field".into(), || format!("object at table position {p} id field"), o.id as usize, p);
        }
        if !c.eq(|| "C20:std:instance-count".into(), || "number of instances".into(), w.instances.len(), self.instances.len()) { return Ok((c.n, c.mism)); }
        for (k, (fi, name)) in w.instances.iter().zip(&self.instances).enumerate() {
            let mut exp = self.objects.iter().position(|o| o == name).map(|p| p as i64).unwrap_or(-999);
            if corrupt && k + 1 == self.instances.len() && self.objects.len() >= 2 { exp += 1; }
            let ok = c.eq(|| "C20:std:instance-object".into(), || format!("instance {k} (object '{name}') object id"), fi.object_id as i64, exp);
            c.eq(|| "C20:std:instance-order".into(), || format!("instance {k} position marker"), fi.pos[0], (k + 1) as f32);
            if ok {
                let got_layer = w.objects.get(fi.object_id as usize).map(|o| o.layer);
                c.eq(|| "C20:std:instance-vs-file-object-table".into(), || format!("content marker of the object instance {k} ('{name}') refers to"), got_layer, Some(self.layer(exp as usize)));
            }
        }
        Ok((c.n, c.mism))
    }
    fn describe(&self) -> Value {
        json!({"objects_in_file_order": self.objects,
               "instances": self.instances.iter().map(|i| json!({"object": i, "expected_object_id": self.objects.iter().position(|o| o == i)})).collect::<Vec<_>>()})
    }
}

// =============================================================================================
// evaluation of one case

struct Eval {
    src: String,
    outcome: String,
    cmps: u64,
    nontrivial: bool,
    /// (signature, message) — all mismatches of this case
    mismatches: Vec<Mismatch>,
    diag_head: String,
}

fn evaluate(l: &dyn Layout, corrupt: bool) -> Eval {
    let src = l.render();
    let map = l.mapfile();
    let mut opts = CompileOpts::default();
    if let Some(m) = &map { opts.mapfiles.push(m.as_str()); }
    let out = drive::compile(l.tool(), src.as_bytes(), &opts);
    let verdict = l.verdict();
    let diag_head: String = out.diag.lines().filter(|x| x.starts_with("error") || x.starts_with("bug") || x.starts_with("warning")).take(4).collect::<Vec<_>>().join(" | ");
    let mut ev = Eval { src, outcome: String::new(), cmps: 0, nontrivial: l.nontrivial(), mismatches: vec![], diag_head };
    if let Some(p) = &out.panic {
        ev.outcome = "panic".into();
        ev.mismatches.push(Mismatch { sig: format!("C20:{}", p.signature()), msg: format!("compiler panicked: {}", p.text) });
        return ev;
    }
    let compiled = out.bytes.is_some();
    let has_err = drive::has_error(&out.diag);
    match verdict {
        Verdict::Legal => match &out.bytes {
            None => {
                ev.outcome = "legal-but-rejected".into();
                ev.mismatches.push(Mismatch { sig: format!("C20:legal-rejected:{}:{}", l.fam(), l.class()), msg: format!("M9 considers the layout legal but the compiler rejected it: {}", ev.diag_head) });
            },
            Some(bytes) => match catch(|| l.check(bytes, corrupt)) {
                Ok(Ok((n, mism))) => {
                    ev.cmps = n;
                    ev.outcome = if mism.is_empty() { format!("ok:{}", l.fam()) } else { "id-mismatch".into() };
                    ev.mismatches = mism;
                },
                Ok(Err(e)) => {
                    ev.outcome = "walker-error".into();
                    ev.mismatches.push(Mismatch { sig: format!("C20:walker-error:{}", l.fam()), msg: format!("M2 walker cannot parse the written file: {e}") });
                },
                Err(p) => {
                    ev.outcome = "checker-panic".into();
                    ev.mismatches.push(Mismatch { sig: format!("C20:machinery:checker-panic:{}", l.fam()), msg: p.text });
                },
            },
        },
        Verdict::Error(class, kind) => {
            ev.cmps = 1;
            if compiled || !has_err {
                ev.outcome = format!("{class}-accepted");
                ev.mismatches.push(Mismatch { sig: format!("C20:{class}-accepted:{kind}"), msg: format!("M9: {class} ({kind}) must be reported as an error; compiled={compiled} error_diagnostic={has_err}: {}", ev.diag_head) });
            } else {
                ev.outcome = format!("error-expected:{class}");
            }
        },
        Verdict::Unspecified(k) => {
            ev.outcome = format!("unspecified:{k}:{}", if compiled { "compiled" } else { "rejected" });
            if !compiled && !has_err {
                ev.mismatches.push(Mismatch { sig: format!("C20:silent-failure:{}", l.fam()), msg: "no output and no error diagnostic".into() });
            }
        },
    }
    ev
}

fn hash2(tool: Tool, s: &str) -> (u64, u64) {
    let mut a = std::collections::hash_map::DefaultHasher::new();
    (tool.name(), s).hash(&mut a);
    let mut b = std::collections::hash_map::DefaultHasher::new();
    (0x9e3779b97f4a7c15u64, s, tool.name()).hash(&mut b);
    (a.finish(), b.finish())
}

fn job_json(job: &Job) -> Value { json!({"family": job.fam, "game": job.game.as_str(), "profile": job.prof, "choices": job.choices}) }

fn job_from_json(v: &Value) -> Option<Job> {
    let fam = match v["family"].as_str()? { "anm" => "anm", "msg" => "msg", "ecl" => "ecl", "std" => "std", _ => return None };
    let game = v["game"].as_str()?.parse::<Game>().ok()?;
    let prof = v["profile"].as_array()?.iter().map(|x| x.as_u64().unwrap_or(0) as u32).collect();
    let choices = v["choices"].as_array()?.iter().map(|x| x.as_u64().unwrap_or(0) as u32).collect();
    Some(Job { fam, game, prof, choices })
}

// =============================================================================================
// plans

struct Plan { label: &'static str, fam: &'static str, games: Vec<(&'static str, u32)>, prof: Vec<u32>, max_cases: u64 }

fn plans(thorough: bool) -> Vec<Plan> {
    let t = thorough;
    // ANM profile: [free mask, max entries, max sprites/entry, max sprites total, max scripts]
    // MSG profile: [free mask, max scripts, max table index count];  ECL: [free, max subs, max timelines];  STD: [free, max objects, max instances]
    // games: (game, deviation bound for the non-free choice points)
    let g = |list: &[(&'static str, u32, u32)]| -> Vec<(&'static str, u32)> { list.iter().map(|&(n, q, th)| (n, if t { th } else { q })).collect() };
    const SKIP: u32 = u32::MAX; // game not run in this tier
    let plans = vec![
        Plan { label: "anm sprite ids: sprite shape x id pattern per sprite (full product)", fam: "anm",
               games: g(&[("th12", 0, 0), ("th06", 0, 0), ("th08", 0, 0), ("th17", SKIP, 0)]),
               prof: vec![F_SHAPE | F_IDS, 3, 3, if t { 4 } else { 3 }, 2], max_cases: 4_000_000 },
        Plan { label: "anm sprite ids (<= 3 sprites): shape x id pattern (full product) + 1 deviation", fam: "anm",
               games: g(&[("th12", SKIP, 1)]),
               prof: vec![F_SHAPE | F_IDS, 3, 3, 3, 2], max_cases: 4_000_000 },
        Plan { label: "anm shared/clashing sprite names (full product) + deviations", fam: "anm",
               games: g(&[("th12", 2, 3), ("th07", 2, 3), ("th06", SKIP, 2), ("th17", SKIP, 2)]),
               prof: vec![F_NAMES, 3, 3, if t { 4 } else { 3 }, 3], max_cases: 4_000_000 },
        Plan { label: "anm script shape x use host/kind/target (full product) + deviations", fam: "anm",
               games: g(&[("th12", 1, 2), ("th10", 0, 1), ("th17", 0, 1), ("th06", 0, 1), ("th07", SKIP, 1), ("th08", SKIP, 1)]),
               prof: vec![F_USES | F_X1, 3, 2, 3, if t { 3 } else { 2 }], max_cases: 4_000_000 },
        Plan { label: "anm script shape x script names x explicit numbers (full product) + deviations", fam: "anm",
               games: g(&[("th12", 1, 2), ("th06", 0, 1), ("th17", SKIP, 1)]),
               prof: vec![F_SCRIPTS | F_X2 | F_X1, 3, 2, 3, 3], max_cases: 4_000_000 },
        Plan { label: "anm names shared between sprites and scripts x use host/kind/target (full product) + deviations in shape / id pattern", fam: "anm",
               games: g(&[("th12", 2, 3), ("th07", SKIP, 2)]),
               prof: vec![F_NAMES | F_SCRIPTS | F_USES | F_X1, 2, 2, 2, 2], max_cases: 4_000_000 },
        Plan { label: "anm all choice points, deviation-bounded", fam: "anm",
               games: g(&[("th12", 3, 4), ("th06", SKIP, 3), ("th07", SKIP, 3), ("th08", SKIP, 3), ("th10", SKIP, 3), ("th17", SKIP, 3)]),
               prof: vec![0, 3, 3, 4, 3], max_cases: 4_000_000 },
        Plan { label: "msg table contents x default (full product) + deviations", fam: "msg",
               games: g(&[("th06", 1, 1), ("th09", 1, 1), ("th12", 0, 0), ("th08", SKIP, 0), ("th17", SKIP, 0)]),
               prof: vec![F_IDS | F_NAMES, if t { 4 } else { 3 }, if t { 5 } else { 4 }], max_cases: 4_000_000 },
        Plan { label: "msg script count x file order x meta position (full product) + deviations", fam: "msg",
               games: g(&[("th06", 1, 2), ("th09", 1, 2), ("th12", 0, 1)]),
               prof: vec![F_SHAPE | F_SCRIPTS, 4, 5], max_cases: 4_000_000 },
        Plan { label: "msg table_len x flags x source order x duplicate script (full product) + deviations", fam: "msg",
               games: g(&[("th06", 2, 3), ("th09", 2, 3), ("th12", 1, 2)]),
               prof: vec![F_X1 | F_X2, 4, 5], max_cases: 4_000_000 },
        Plan { label: "ecl sub count x use host/kind/target (full product) + deviations", fam: "ecl",
               games: g(&[("th06", 1, 1), ("th07", 1, 1), ("th08", 1, 2)]),
               prof: vec![F_SHAPE | F_USES, if t { 4 } else { 3 }, 3], max_cases: 4_000_000 },
        Plan { label: "ecl sub count x timeline count x index pattern x timeline target (full product)", fam: "ecl",
               games: g(&[("th06", 1, 2), ("th07", 0, 1), ("th08", 0, 1)]),
               prof: vec![F_SHAPE | F_X1 | F_X2, 3, 3], max_cases: 4_000_000 },
        Plan { label: "ecl all choice points, deviation-bounded", fam: "ecl",
               games: g(&[("th06", 3, 4), ("th07", 3, 4), ("th08", 3, 4)]),
               prof: vec![0, 4, 3], max_cases: 4_000_000 },
        Plan { label: "std objects x name order x instances (full product)", fam: "std",
               games: g(&[("th06", 0, 0), ("th12", 0, 0), ("th08", SKIP, 0), ("th095", SKIP, 0)]),
               prof: vec![F_SHAPE | F_NAMES | F_USES, 4, if t { 4 } else { 3 }], max_cases: 4_000_000 },
    ];
    plans.into_iter().map(|mut p| { p.games.retain(|g| g.1 != SKIP); p }).collect()
}

// =============================================================================================
// run / replay

struct CaseOut { hash: (u64, u64), outcome: String, cmps: u64, nontrivial: bool, fails: Vec<(String, usize, Value)> }

pub fn run(tier: &str) -> Report {
    let mut rep = Report::new("C20", tier, "model_checking");
    let thorough = rep.is_thorough();
    let corrupt = std::env::var("VERIF_C20_SELFTEST_CORRUPT").map_or(false, |v| v == "1");
    let deadline = rep.deadline();
    rep.rule = "a layout with >= 2 named things of the same kind (sprites+scripts / MSG scripts / subs or timelines / STD objects) and >= 1 explicit id, explicit \
                script or timeline number, default/hole in a MSG table, or a name that is shared (defined or referenced more than once)".into();

    // 1. enumerate choice vectors
    let mut jobs: Vec<Job> = vec![];
    let mut plan_stats = vec![];
    let mut any_capped = false;
    for plan in plans(thorough) {
        for &(gname, bound) in &plan.games {
            let game = gm(gname);
            let before = jobs.len();
            let fam = plan.fam;
            let prof = plan.prof.clone();
            let gen = |ch: &mut Chooser| { let job = Job { fam, game, prof: prof.clone(), choices: vec![] }; let _ = job; match fam {
                "anm" => { gen_anm(ch, game, &prof); }, "msg" => { gen_msg(ch, game, &prof); }, "ecl" => { gen_ecl(ch, game, &prof); }, _ => { gen_std(ch, game, &prof); } } };
            let mut local: Vec<Job> = vec![];
            let st = explore_dfs(bound, plan.max_cases, &gen, &mut |choices, _| {
                local.push(Job { fam, game, prof: plan.prof.clone(), choices: choices.to_vec() });
            });
            if st.capped { any_capped = true; }
            jobs.extend(local);
            plan_stats.push(json!({"plan": plan.label, "game": gname, "deviation_bound": bound, "generated": jobs.len() - before, "capped": st.capped}));
        }
    }
    rep.transitions = jobs.len() as u64;

    // 2. distinct source texts
    let hashes = par_map(&jobs, Some(deadline), |_, job| { let l = build(job); hash2(l.tool(), &l.render()) });
    let mut seen: HashSet<(u64, u64)> = HashSet::new();
    let mut distinct: Vec<Job> = vec![];
    let mut not_hashed = 0u64;
    for (job, h) in jobs.iter().zip(hashes) {
        match h { Some(h) => if seen.insert(h) { distinct.push(job.clone()); }, None => not_hashed += 1 }
    }
    drop(jobs);
    rep.states = distinct.len() as u64;

    // 3. compile + compare
    let results = par_map(&distinct, Some(deadline), |_, job| {
        let l = build(job);
        let ev = evaluate(&*l, corrupt);
        let fails: Vec<(String, usize, Value)> = if ev.mismatches.is_empty() { vec![] } else {
            let mut by_sig: BTreeMap<String, Vec<String>> = BTreeMap::new();
            for m in &ev.mismatches { by_sig.entry(m.sig.clone()).or_default().push(m.msg.clone()); }
            by_sig.into_iter().map(|(sig, msgs)| {
                let detail = json!({"job": job_json(job), "tool": l.tool().name(), "source": ev.src, "mapfile": l.mapfile(), "verdict": format!("{:?}", l.verdict()),
                                    "model": l.describe(), "mismatches": msgs, "diagnostics": ev.diag_head, "corrupt_selftest": corrupt});
                (sig, ev.src.len(), detail)
            }).collect()
        };
        CaseOut { hash: (0, 0), outcome: ev.outcome, cmps: ev.cmps, nontrivial: ev.nontrivial, fails }
    });
    let mut best: BTreeMap<String, (usize, Value)> = BTreeMap::new();
    let mut counts: BTreeMap<String, u64> = BTreeMap::new();
    let mut not_run = not_hashed;
    let mut per_family: BTreeMap<String, u64> = BTreeMap::new();
    for (job, r) in distinct.iter().zip(results) {
        let Some(r) = r else { not_run += 1; continue };
        rep.evaluations += 1;
        rep.traces_validated += r.cmps;
        if r.nontrivial { rep.nontrivial += 1; }
        rep.outcome(&r.outcome);
        *per_family.entry(format!("{}/{}", job.fam, job.game.as_str())).or_insert(0) += 1;
        if rep.samples.len() < 8 && (rep.evaluations % 9973 == 1) {
            let l = build(job);
            rep.sample(json!({"tool": l.tool().name(), "source": l.render(), "verdict": format!("{:?}", l.verdict()), "outcome": r.outcome}));
        }
        for (sig, len, detail) in r.fails {
            *counts.entry(sig.clone()).or_insert(0) += 1;
            match best.get(&sig) { Some((l, _)) if *l <= len => {}, _ => { best.insert(sig, (len, detail)); } }
        }
    }
    for (sig, (_, detail)) in best {
        if sig.starts_with("C20:machinery:") { rep.machinery_errors.push(format!("{sig}: {}", detail["mismatches"])); continue; }
        rep.fail(sig, detail);
    }
    rep.extra.insert("failure_counts".into(), json!(counts));
    rep.extra.insert("plans".into(), json!(plan_stats));
    rep.extra.insert("evaluations_per_family".into(), json!(per_family));
    if not_run > 0 { rep.cap_hit = Some(format!("wall clock: {not_run} generated layouts not evaluated")); }
    else if any_capped { rep.cap_hit = Some("a plan hit its max_cases cap".into()); }
    rep.exhaustive = not_run == 0 && !any_capped;
    rep.bound_completed = format!("all plans listed in coverage.plans (tier {tier}): every choice vector within each plan's deviation bound; free choice points are full products");
    rep.assumptions = vec![
        "M2 walkers parse the written containers correctly (cross-checked against truth's readers by `m2-selftest`)".into(),
        "layouts M9 cannot classify from the property text or the repository's tests (ambiguous sprite/script name in an untyped context, negative ids, table_len shorter than the table, never-used dangling default, same sprite name twice in one entry with equal ids) are 'unspecified': only absence of panics is required".into(),
        "ANM script references are positions in file order over all entries (tests/integration/anm_consts.rs::script_ids); the id field written for `script N name` is not asserted".into(),
    ];
    rep.explanation = "E-DFS over layout choice vectors of four generators (ANM entries/sprites/scripts/use sites, MSG tables, old-ECL subs/timelines, STD objects/instances); \
        each distinct source text is compiled in process by the real compiler and the written file is parsed by the independent M2 walkers; sprite id fields, script/sub/timeline/object \
        order (identified by content markers), MSG offsets and every argument dword naming a sprite/script/sub are compared with M9; conflicting, cyclic or dangling names must produce an error diagnostic".into();
    if corrupt { rep.explanation += " [VERIF_C20_SELFTEST_CORRUPT=1: one expected id per layout is shifted by one; violations are expected]"; }
    rep
}

pub fn replay(detail: &Value) -> i32 {
    let Some(job) = job_from_json(&detail["job"]) else { println!("C20 replay: detail has no usable job descriptor"); return 2 };
    let corrupt = detail["corrupt_selftest"].as_bool().unwrap_or(false) || std::env::var("VERIF_C20_SELFTEST_CORRUPT").map_or(false, |v| v == "1");
    let l = build(&job);
    let src = l.render();
    println!("C20 replay: {} layout {}", l.tool().name(), job_json(&job));
    if let Some(stored) = detail["source"].as_str() {
        if stored != src { println!("NOTE: regenerated source differs from the stored one (generator changed?); using the regenerated layout.\n--- stored ---\n{stored}"); }
    }
    println!("--- source ---\n{src}--- mapfile ---\n{}", l.mapfile().unwrap_or_default());
    println!("--- M9 ---\nverdict: {:?}\n{}", l.verdict(), serde_json::to_string_pretty(&l.describe()).unwrap_or_default());
    let ev = evaluate(&*l, corrupt);
    println!("--- observed ---\noutcome: {}\ncomparisons: {}\ndiagnostics: {}", ev.outcome, ev.cmps, ev.diag_head);
    for m in &ev.mismatches { println!("MISMATCH [{}] {}", m.sig, m.msg); }
    if ev.mismatches.is_empty() { println!("no mismatch: passes now"); 0 } else { 1 }
}
