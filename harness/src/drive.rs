//! In-process drivers for whole-file compile / decompile, mirroring the (private) `cli_def::*::run`
//! functions through the public `Truth` API, entirely in memory.

use std::io::Cursor;

use truth::{Game, LanguageKey, Truth};
use truth::io::{BinReader, BinWriter};
use truth::llir::DecompileOptions;

use crate::common::{catch, Panic};

#[derive(Debug, Clone, Copy, PartialEq, Eq, PartialOrd, Ord, Hash)]
pub enum Kind { Anm, Std, Msg, End, Mission, Ecl }

#[derive(Debug, Clone, Copy, PartialEq, Eq, PartialOrd, Ord, Hash)]
pub struct Tool { pub kind: Kind, pub game: Game }

impl Tool {
    pub fn new(kind: Kind, game: Game) -> Tool { Tool { kind, game } }
    pub fn languages(&self) -> Vec<LanguageKey> {
        match self.kind {
            Kind::Anm => vec![LanguageKey::Anm],
            Kind::Std => vec![LanguageKey::Std],
            Kind::Msg => vec![LanguageKey::Msg],
            Kind::End => vec![LanguageKey::End],
            Kind::Mission => vec![],
            Kind::Ecl => vec![LanguageKey::Ecl, LanguageKey::Timeline],
        }
    }
    pub fn name(&self) -> String { format!("{:?}/{}", self.kind, self.game.as_str()) }
    /// argv prefix for the real CLI
    pub fn cli(&self, verb: &str) -> Vec<String> {
        let (tool, extra): (&str, Vec<&str>) = match self.kind {
            Kind::Anm => ("truanm", vec![]), Kind::Std => ("trustd", vec![]), Kind::Msg => ("trumsg", vec![]),
            Kind::End => ("trumsg", vec!["--ending"]), Kind::Mission => ("trumsg", vec!["--mission"]), Kind::Ecl => ("truecl", vec![]),
        };
        let mut v = vec![tool.to_string(), verb.to_string(), "-g".to_string(), self.game.as_str().to_string()];
        v.extend(extra.into_iter().map(String::from));
        v
    }
}

#[derive(Debug, Clone)]
pub struct CompileOut {
    pub bytes: Option<Vec<u8>>,
    pub diag: String,
    pub panic: Option<Panic>,
    pub debug_info: Option<String>,
}

impl CompileOut {
    pub fn has_error_diag(&self) -> bool { has_error(&self.diag) }
    pub fn has_warning(&self) -> bool { self.diag.lines().any(|l| l.starts_with("warning")) }
}

pub fn has_error(diag: &str) -> bool {
    diag.lines().any(|l| l.starts_with("error") || l.starts_with("bug"))
}

fn load_core(truth: &mut Truth, tool: Tool) {
    for lang in tool.languages() {
        let m = truth::verif_hooks::core_mapfile(truth.ctx().emitter, tool.game, lang);
        truth.apply_mapfile(&m, tool.game).expect("failed to apply core mapfile!?");
    }
}

#[derive(Debug, Clone, Default)]
pub struct CompileOpts<'a> {
    pub mapfiles: Vec<&'a str>,
    pub debug_info: bool,
    /// ANM image sources (raw ANM files), applied in order
    pub image_sources: Vec<&'a [u8]>,
    pub no_builtin: bool,
}

pub fn compile(tool: Tool, src: &[u8], opts: &CompileOpts) -> CompileOut {
    let mut scope = truth::Builder::new().capture_diagnostics(true).build();
    let mut truth = scope.truth();
    let r = catch(|| compile_inner(&mut truth, tool, src, opts));
    let diag = catch(|| truth.get_captured_diagnostics().unwrap_or_default()).unwrap_or_else(|p| format!("<diagnostic rendering panicked: {}>", p.text));
    match r {
        Ok(Ok((bytes, dbg))) => CompileOut { bytes: Some(bytes), diag, panic: None, debug_info: dbg },
        Ok(Err(())) => CompileOut { bytes: None, diag, panic: None, debug_info: None },
        Err(p) => CompileOut { bytes: None, diag, panic: Some(p), debug_info: None },
    }
}

fn compile_inner(truth: &mut Truth, tool: Tool, src: &[u8], opts: &CompileOpts) -> Result<(Vec<u8>, Option<String>), ()> {
    macro_rules! t { ($e:expr) => { match $e { Ok(v) => v, Err(e) => { let e: truth::ErrorReported = e; e.ignore(); return Err(()); } } } }
    let game = tool.game;
    // order mirrors cli_def: (msg reads the script first; the others load mapfiles first)
    if tool.kind != Kind::Mission && !opts.no_builtin && !matches!(tool.kind, Kind::Msg | Kind::End) { load_core(truth, tool); }
    if !matches!(tool.kind, Kind::Msg | Kind::End | Kind::Mission) {
        for m in &opts.mapfiles { t!(truth.apply_mapfile_str(m, game)); }
    }
    let ast = t!(truth.parse::<truth::ast::ScriptFile>("<input>", src)).value;
    if tool.kind != Kind::Anm { t!(truth.expect_no_image_sources(&ast)); }
    if matches!(tool.kind, Kind::Msg | Kind::End) {
        if !opts.no_builtin { load_core(truth, tool); }
        for m in &opts.mapfiles { t!(truth.apply_mapfile_str(m, game)); }
    }
    // (pragma mapfiles are not loaded: generated sources never use them)
    let emitter = truth.ctx().emitter;
    let mut out = Cursor::new(Vec::<u8>::new());
    {
        let mut tv = t!(truth.validate_defs());
        let mut w = BinWriter::from_writer(emitter, "<output>", &mut out);
        match tool.kind {
            Kind::Anm => {
                let mut compiled = t!(tv.compile_anm(game, &ast));
                for src_bytes in &opts.image_sources {
                    let mut r = BinReader::from_reader(emitter, "<image source>", Cursor::new(src_bytes.to_vec()));
                    let anm = t!(truth::AnmFile::read_from_stream(&mut r, game, true));
                    let fs = tv.fs();
                    t!(compiled.apply_image_source(truth::anm::ImageSource::Anm(anm), &fs));
                }
                let done = t!(tv.finalize_anm(game, compiled));
                t!(truth::AnmFile::write_to_stream(&done, &mut w, game));
            },
            Kind::Std => { let f = t!(tv.compile_std(game, &ast)); t!(truth::StdFile::write_to_stream(&f, &mut w, game)); },
            Kind::Msg => { let f = t!(tv.compile_msg(game, LanguageKey::Msg, &ast)); t!(truth::MsgFile::write_to_stream(&f, &mut w, game, LanguageKey::Msg)); },
            Kind::End => { let f = t!(tv.compile_msg(game, LanguageKey::End, &ast)); t!(truth::MsgFile::write_to_stream(&f, &mut w, game, LanguageKey::End)); },
            Kind::Mission => { let f = t!(tv.compile_mission(game, &ast)); t!(truth::MissionMsgFile::write_to_stream(&f, &mut w, game)); },
            Kind::Ecl => { let f = t!(tv.compile_ecl(game, &ast)); t!(truth::EclFile::write_to_stream(&f, &mut w, game)); },
        }
    }
    let dbg = if opts.debug_info {
        let ctx = truth.ctx();
        let di = truth::debug_info::DebugInfo {
            version: truth::debug_info::Version::default(),
            source_files: ctx.emitter.files.debug_info(),
            exported_scripts: ctx.script_debug_info.clone(),
            consts: ctx.consts.debug_info(&ctx.defs),
        };
        Some(serde_json::to_string(&di).expect("debug info serializes"))
    } else { None };
    Ok((out.into_inner(), dbg))
}

#[derive(Debug, Clone)]
pub struct DecompileOut {
    pub text: Option<String>,
    pub diag: String,
    pub panic: Option<Panic>,
}

impl DecompileOut {
    pub fn has_error_diag(&self) -> bool { has_error(&self.diag) }
}

#[derive(Debug, Clone)]
pub struct DecompOpts<'a> {
    pub options: DecompileOptions,
    pub width: usize,
    pub mapfiles: Vec<&'a str>,
    pub display_name: &'a str,
}

impl<'a> Default for DecompOpts<'a> {
    fn default() -> Self { DecompOpts { options: Default::default(), width: 80, mapfiles: vec![], display_name: "<input file>" } }
}

/// The decompile options as bits: 1=no-blocks 2=no-intrinsics 4=no-arguments 8=no-diff-switches 16=no-calls 32=show-instr-offsets
pub fn options_from_bits(bits: u32) -> DecompileOptions {
    DecompileOptions {
        blocks: bits & 1 == 0, intrinsics: bits & 2 == 0, arguments: bits & 4 == 0,
        diff_switches: bits & 8 == 0, calls: bits & 16 == 0, show_instr_offsets: bits & 32 != 0,
    }
}
pub fn flags_from_bits(bits: u32) -> Vec<&'static str> {
    let mut v = vec![];
    if bits & 1 != 0 { v.push("--no-blocks"); }
    if bits & 2 != 0 { v.push("--no-intrinsics"); }
    if bits & 4 != 0 { v.push("--no-arguments"); }
    if bits & 8 != 0 { v.push("--no-diff-switches"); }
    if bits & 16 != 0 { v.push("--no-calls"); }
    if bits & 32 != 0 { v.push("--show-instr-offsets"); }
    v
}

pub fn decompile(tool: Tool, bytes: &[u8], opts: &DecompOpts) -> DecompileOut {
    let mut scope = truth::Builder::new().capture_diagnostics(true).build();
    let mut truth = scope.truth();
    let r = catch(|| decompile_inner(&mut truth, tool, bytes, opts));
    let diag = catch(|| truth.get_captured_diagnostics().unwrap_or_default()).unwrap_or_else(|p| format!("<diagnostic rendering panicked: {}>", p.text));
    match r {
        Ok(Ok(text)) => DecompileOut { text: Some(text), diag, panic: None },
        Ok(Err(())) => DecompileOut { text: None, diag, panic: None },
        Err(p) => DecompileOut { text: None, diag, panic: Some(p) },
    }
}

fn decompile_inner(truth: &mut Truth, tool: Tool, bytes: &[u8], opts: &DecompOpts) -> Result<String, ()> {
    macro_rules! t { ($e:expr) => { match $e { Ok(v) => v, Err(e) => { let e: truth::ErrorReported = e; e.ignore(); return Err(()); } } } }
    let game = tool.game;
    if tool.kind != Kind::Mission {
        load_core(truth, tool);
        for m in &opts.mapfiles { t!(truth.apply_mapfile_str(m, game)); }
    }
    let emitter = truth.ctx().emitter;
    let ast = {
        let mut tv = t!(truth.validate_defs());
        let mut r = BinReader::from_reader(emitter, opts.display_name, Cursor::new(bytes.to_vec()));
        match tool.kind {
            Kind::Anm => { let f = t!(truth::AnmFile::read_from_stream(&mut r, game, false)); t!(tv.decompile_anm(game, &f, &opts.options)) },
            Kind::Std => { let f = t!(truth::StdFile::read_from_stream(&mut r, game)); t!(tv.decompile_std(game, &f, &opts.options)) },
            Kind::Msg => { let f = t!(truth::MsgFile::read_from_stream(&mut r, game, LanguageKey::Msg)); t!(tv.decompile_msg(game, LanguageKey::Msg, &f, &opts.options)) },
            Kind::End => { let f = t!(truth::MsgFile::read_from_stream(&mut r, game, LanguageKey::End)); t!(tv.decompile_msg(game, LanguageKey::End, &f, &opts.options)) },
            Kind::Mission => { let f = t!(truth::MissionMsgFile::read_from_stream(&mut r, game)); t!(tv.decompile_mission(game, &f)) },
            Kind::Ecl => { let f = t!(truth::EclFile::read_from_stream(&mut r, game)); t!(tv.decompile_ecl(game, &f, &opts.options)) },
        }
    };
    let mut out = vec![];
    {
        let cfg = truth::fmt::Config::new().max_columns(opts.width);
        let mut f = truth::Formatter::with_config(&mut out, cfg);
        if let Err(e) = f.fmt(&ast) { panic!("formatter error: {:#}", e); }
    }
    Ok(String::from_utf8(out).expect("formatter output is utf-8"))
}

/// Run the real CLI (this binary in as-truth-core mode) in a subprocess.
pub struct CliOut { pub status: i32, pub stdout: Vec<u8>, pub stderr: Vec<u8> }

/// A private copy of this executable (a concurrent `cargo build` may replace the original while we run).
pub fn exe_snapshot() -> std::path::PathBuf {
    static SNAP: std::sync::OnceLock<std::path::PathBuf> = std::sync::OnceLock::new();
    SNAP.get_or_init(|| {
        let dest = scratch_dir().join("truth-verif-snapshot");
        match std::fs::copy("/proc/self/exe", &dest) {
            Ok(_) => dest,
            Err(_) => std::env::current_exe().expect("current_exe"),
        }
    }).clone()
}

pub fn run_cli(args: &[String], env: &[(&str, String)]) -> CliOut {
    let exe = exe_snapshot();
    let mut cmd = std::process::Command::new(exe);
    cmd.arg("as-truth-core").args(args);
    cmd.env_remove("TRUTH_MAP_PATH").env_remove("_TRUTH_DEBUG__TEST").env("RUST_BACKTRACE", "0");
    for (k, v) in env { cmd.env(k, v); }
    let out = cmd.output().expect("spawn cli");
    CliOut { status: out.status.code().unwrap_or(-1), stdout: out.stdout, stderr: out.stderr }
}

/// Scratch directory for this process (tmpfs if available), removed by `cleanup_scratch`.
pub fn scratch_dir() -> std::path::PathBuf {
    let base = if std::path::Path::new("/dev/shm").is_dir() { std::path::PathBuf::from("/dev/shm") } else { std::env::temp_dir() };
    let d = base.join(format!("truth-verif-{}", std::process::id()));
    let _ = std::fs::create_dir_all(&d);
    d
}
pub fn cleanup_scratch() { let _ = std::fs::remove_dir_all(scratch_dir()); }
