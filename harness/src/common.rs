//! Shared machinery: panic capture, parallel case execution, deviation-bounded choice
//! exploration (E-DFS), reports/evidence, known-findings matching.

use std::cell::RefCell;
use std::collections::{BTreeMap, BTreeSet};
use std::panic::{catch_unwind, AssertUnwindSafe};
use std::sync::atomic::{AtomicUsize, Ordering};
use std::sync::Mutex;
use std::time::Instant;

use serde_json::{json, Value};

// =============================================================================================
// panic capture

thread_local! {
    static LAST_PANIC: RefCell<Option<String>> = RefCell::new(None);
}

pub fn install_panic_hook() {
    std::panic::set_hook(Box::new(|info| {
        let msg = if let Some(s) = info.payload().downcast_ref::<&str>() { s.to_string() }
            else if let Some(s) = info.payload().downcast_ref::<String>() { s.clone() }
            else { "<non-string panic>".to_string() };
        let loc = info.location().map(|l| format!("{}:{}", l.file(), l.line())).unwrap_or_default();
        LAST_PANIC.with(|p| *p.borrow_mut() = Some(format!("{loc}: {msg}")));
    }));
}

#[derive(Debug, Clone)]
pub struct Panic { pub text: String }

impl Panic {
    /// line-number-free, digit-free signature "panic:<file>:<message>"
    pub fn signature(&self) -> String {
        // text = "path/file.rs:LINE: message"
        let mut parts = self.text.splitn(3, ':');
        let file = parts.next().unwrap_or("");
        let _line = parts.next();
        let msg = parts.next().unwrap_or("").trim();
        let file = file.rsplit("/src/").next().unwrap_or(file);
        let msg: String = msg.lines().next().unwrap_or("").chars().take(100)
            .map(|c| if c.is_ascii_digit() { 'N' } else { c }).collect();
        let mut squashed = String::new();
        for c in msg.chars() { if !(c == 'N' && squashed.ends_with('N')) { squashed.push(c); } }
        format!("panic:{}:{}", file, squashed)
    }
}

pub fn catch<T>(f: impl FnOnce() -> T) -> Result<T, Panic> {
    LAST_PANIC.with(|p| *p.borrow_mut() = None);
    match catch_unwind(AssertUnwindSafe(f)) {
        Ok(v) => Ok(v),
        Err(_) => {
            let text = LAST_PANIC.with(|p| p.borrow_mut().take()).unwrap_or_else(|| "<unknown panic>".into());
            Err(Panic { text })
        }
    }
}

// =============================================================================================
// parallel execution

pub fn n_threads() -> usize {
    std::env::var("VERIF_THREADS").ok().and_then(|s| s.parse().ok()).unwrap_or(16)
}

/// Run `f` over all items on worker threads with 64 MiB stacks.  Results are returned in item order,
/// so the outcome is independent of scheduling.  `stop` may cut the run short (wall cap): items
/// not run yield None.
pub fn par_map<T: Sync, R: Send>(items: &[T], deadline: Option<Instant>, f: impl Fn(usize, &T) -> R + Sync) -> Vec<Option<R>> {
    let next = AtomicUsize::new(0);
    let results: Mutex<Vec<Option<R>>> = Mutex::new((0..items.len()).map(|_| None).collect());
    std::thread::scope(|s| {
        for _ in 0..n_threads().min(items.len().max(1)) {
            std::thread::Builder::new().stack_size(64 << 20).spawn_scoped(s, || {
                let mut local: Vec<(usize, R)> = vec![];
                loop {
                    let i = next.fetch_add(1, Ordering::Relaxed);
                    if i >= items.len() { break; }
                    if let Some(d) = deadline { if i % 64 == 0 && Instant::now() > d { break; } }
                    local.push((i, f(i, &items[i])));
                    if local.len() >= 1024 {
                        let mut g = results.lock().unwrap();
                        for (i, r) in local.drain(..) { g[i] = Some(r); }
                    }
                }
                let mut g = results.lock().unwrap();
                for (i, r) in local.drain(..) { g[i] = Some(r); }
            }).unwrap();
        }
    });
    results.into_inner().unwrap()
}

// =============================================================================================
// E-DFS: deviation-bounded choice-sequence exploration

pub struct Chooser<'a> {
    prefix: &'a [u32],
    pos: usize,
    /// (choice taken, number of alternatives, cost of a non-default choice)
    pub trace: Vec<(u32, u32, u32)>,
}

impl<'a> Chooser<'a> {
    pub fn new(prefix: &'a [u32]) -> Self { Chooser { prefix, pos: 0, trace: vec![] } }
    /// Pick one of n alternatives; alternative 0 is the default, any other costs `cost` deviations.
    pub fn pick_w(&mut self, n: usize, cost: u32) -> usize {
        assert!(n >= 1);
        let c = if self.pos < self.prefix.len() {
            let c = self.prefix[self.pos];
            assert!((c as usize) < n, "E-DFS divergence: replayed choice {} out of range {} at point {}", c, n, self.pos);
            c
        } else { 0 };
        self.pos += 1;
        self.trace.push((c, n as u32, cost));
        c as usize
    }
    pub fn pick(&mut self, n: usize) -> usize { self.pick_w(n, 1) }
    /// A choice that is free (does not count as a deviation): used for full products.
    pub fn pick_free(&mut self, n: usize) -> usize { self.pick_w(n, 0) }
    pub fn choices(&self) -> Vec<u32> { self.trace.iter().map(|t| t.0).collect() }
}

pub struct DfsStats { pub runs: u64, pub capped: bool }

/// Enumerate every case reachable with at most `bound` deviations.  `gen` must be deterministic.
/// `visit(choices, case)`.  `max_cases` is a safety cap (reported as capped).
pub fn explore_dfs<C>(bound: u32, max_cases: u64, gen: &dyn Fn(&mut Chooser) -> C, visit: &mut dyn FnMut(&[u32], C)) -> DfsStats {
    let mut stats = DfsStats { runs: 0, capped: false };
    let mut stack: Vec<Vec<u32>> = vec![vec![]];
    while let Some(prefix) = stack.pop() {
        if stats.runs >= max_cases { stats.capped = true; break; }
        let mut ch = Chooser::new(&prefix);
        let case = gen(&mut ch);
        stats.runs += 1;
        let trace = ch.trace;
        let choices: Vec<u32> = trace.iter().map(|t| t.0).collect();
        visit(&choices, case);
        // cost of the prefix part
        let mut cost: u32 = 0;
        for (i, &(c, _, w)) in trace.iter().enumerate() {
            if i < prefix.len() { if c != 0 { cost += w; } continue; }
            // branch on later points
            let (_, n, w) = trace[i];
            if cost + w <= bound {
                for alt in (1..n).rev() {
                    let mut p = choices[..i].to_vec();
                    p.push(alt);
                    stack.push(p);
                }
            }
        }
    }
    stats
}

// =============================================================================================
// Reports and evidence

#[derive(Debug, Clone)]
pub struct Failure {
    pub signature: String,
    pub detail: Value,
}

pub struct Report {
    pub id: String,
    pub tier: String,
    pub level: &'static str,
    pub start: Instant,
    pub evaluations: u64,
    pub states: u64,
    pub transitions: u64,
    pub traces_validated: u64,
    pub nontrivial: u64,
    pub rule: String,
    pub outcomes: BTreeMap<String, u64>,
    pub discarded: BTreeMap<String, u64>,
    pub samples: Vec<Value>,
    pub failures: Vec<Failure>,
    pub exhaustive: bool,
    pub bound_completed: String,
    pub cap_hit: Option<String>,
    pub assumptions: Vec<String>,
    pub explanation: String,
    pub extra: BTreeMap<String, Value>,
    pub machinery_errors: Vec<String>,
}

impl Report {
    pub fn new(id: &str, tier: &str, level: &'static str) -> Self {
        Report {
            id: id.into(), tier: tier.into(), level, start: Instant::now(),
            evaluations: 0, states: 0, transitions: 0, traces_validated: 0, nontrivial: 0,
            rule: String::new(), outcomes: BTreeMap::new(), discarded: BTreeMap::new(),
            samples: vec![], failures: vec![], exhaustive: false, bound_completed: String::new(),
            cap_hit: None, assumptions: vec![], explanation: String::new(), extra: BTreeMap::new(),
            machinery_errors: vec![],
        }
    }
    pub fn outcome(&mut self, k: &str) { *self.outcomes.entry(k.to_string()).or_insert(0) += 1; }
    pub fn outcome_n(&mut self, k: &str, n: u64) { *self.outcomes.entry(k.to_string()).or_insert(0) += n; }
    pub fn discard(&mut self, k: &str) { *self.discarded.entry(k.to_string()).or_insert(0) += 1; }
    pub fn sample(&mut self, v: Value) { if self.samples.len() < 12 { self.samples.push(v); } }
    pub fn fail(&mut self, signature: impl Into<String>, detail: Value) {
        self.failures.push(Failure { signature: signature.into(), detail });
    }
    pub fn deadline(&self) -> Instant {
        let cap: u64 = std::env::var("VERIF_WALL_S").ok().and_then(|s| s.parse().ok())
            .unwrap_or(if self.tier == "thorough" { 900 } else { 100 });
        self.start + std::time::Duration::from_secs(cap)
    }
    pub fn is_thorough(&self) -> bool { self.tier == "thorough" }
}

pub fn verif_root() -> std::path::PathBuf {
    std::env::var("VERIF_ROOT").map(Into::into).unwrap_or_else(|_| "/verif".into())
}

#[derive(Debug, Clone)]
pub struct KnownFinding { pub property: String, pub signature: String, pub what: String }

pub fn load_known_findings() -> Vec<KnownFinding> {
    let path = verif_root().join("known_findings.jsonl");
    let mut out = vec![];
    if let Ok(text) = std::fs::read_to_string(&path) {
        for line in text.lines() {
            let line = line.trim();
            if line.is_empty() || line.starts_with("//") { continue; }
            let v: Value = match serde_json::from_str(line) { Ok(v) => v, Err(e) => { eprintln!("bad known_findings line: {e}: {line}"); std::process::exit(2) } };
            if v["status"] == "known" {
                out.push(KnownFinding {
                    property: v["property"].as_str().unwrap_or("").to_string(),
                    signature: v["signature"].as_str().unwrap_or("").to_string(),
                    what: v["what"].as_str().unwrap_or("").to_string(),
                });
            }
        }
    }
    out
}

/// Finish a run: classify failures against the known-findings file, write replay artefacts and
/// the evidence file, print the contract lines, and return the process exit code.
pub fn finish(mut r: Report) -> i32 {
    let root = verif_root();
    let known = load_known_findings();
    let mut known_seen: BTreeMap<String, (String, u64)> = BTreeMap::new();
    let mut violations: Vec<&Failure> = vec![];
    let mut seen_sigs: BTreeSet<String> = BTreeSet::new();
    for f in &r.failures {
        if let Some(k) = known.iter().find(|k| k.property == r.id && k.signature == f.signature) {
            let e = known_seen.entry(k.signature.clone()).or_insert((k.what.clone(), 0));
            e.1 += 1;
        } else {
            violations.push(f);
        }
    }
    for (sig, (what, n)) in &known_seen {
        println!("KNOWN-FINDING: property={} {} [signature={} occurrences={}]", r.id, what, sig, n);
    }
    for k in known.iter().filter(|k| k.property == r.id) {
        if !known_seen.contains_key(&k.signature) {
            println!("KNOWN-FINDING-NOT-REACHED: property={} signature={} (information only; this tier did not reproduce it)", r.id, k.signature);
        }
    }
    let replay_dir = root.join("out/replay").join(&r.id);
    let _ = std::fs::remove_dir_all(&replay_dir);   // no stale artefacts from earlier runs
    let _ = std::fs::create_dir_all(&replay_dir);
    let mut n_written = 0;
    let mut violation_sigs: BTreeMap<String, u64> = BTreeMap::new();
    for f in &violations {
        *violation_sigs.entry(f.signature.clone()).or_insert(0) += 1;
        if seen_sigs.insert(f.signature.clone()) && n_written < 50 {
            let path = replay_dir.join(format!("{}.json", n_written));
            let doc = json!({"property": r.id, "signature": f.signature, "detail": f.detail});
            let _ = std::fs::write(&path, serde_json::to_string_pretty(&doc).unwrap());
            println!("VIOLATION property={} replay={}", r.id, path.display());
            println!("  signature: {}", f.signature);
            n_written += 1;
        }
    }
    let wall = r.start.elapsed().as_secs_f64();
    let seed: i64 = std::env::var("VERIF_SEED").ok().and_then(|s| s.parse().ok()).unwrap_or(0);
    if r.samples.is_empty() { r.samples.push(json!("<no samples recorded>")); }
    let mut coverage = serde_json::Map::new();
    coverage.insert("evaluations".into(), json!(r.evaluations));
    coverage.insert("distinct_nontrivial".into(), json!(r.nontrivial));
    coverage.insert("rule".into(), json!(r.rule));
    coverage.insert("samples".into(), json!(r.samples));
    coverage.insert("states".into(), json!(r.states));
    coverage.insert("transitions".into(), json!(r.transitions));
    coverage.insert("traces_validated_against_impl".into(), json!(r.traces_validated));
    coverage.insert("exhaustive".into(), json!(r.exhaustive && r.cap_hit.is_none()));
    coverage.insert("bound_completed".into(), json!(r.bound_completed));
    coverage.insert("cap_hit".into(), json!(r.cap_hit));
    coverage.insert("distinct_outcomes".into(), json!(r.outcomes.len()));
    coverage.insert("outcomes".into(), json!(r.outcomes));
    coverage.insert("discarded".into(), json!(r.discarded));
    coverage.insert("explanation".into(), json!(r.explanation));
    coverage.insert("known_findings_seen".into(), json!(known_seen.iter().map(|(k, v)| json!({"signature": k, "occurrences": v.1})).collect::<Vec<_>>()));
    // (bounded: a broken tree can produce hundreds of thousands of distinct signatures, and the evidence file must stay small)
    let n_sigs = violation_sigs.len();
    let shown: BTreeMap<String, u64> = violation_sigs.iter().take(100).map(|(k, v)| (k.chars().take(300).collect::<String>(), *v)).collect();
    coverage.insert("violation_signatures".into(), json!(shown));
    coverage.insert("violation_signatures_total".into(), json!(n_sigs));
    for (k, v) in &r.extra { coverage.insert(k.clone(), v.clone()); }
    // keep the evidence file small whatever the tree did: any single field above 256 KiB is replaced by a note
    let big: Vec<String> = coverage.iter().filter(|(_, v)| serde_json::to_string(v).map(|s| s.len()).unwrap_or(0) > 256 * 1024).map(|(k, _)| k.clone()).collect();
    for k in big {
        let len = serde_json::to_string(&coverage[&k]).map(|s| s.len()).unwrap_or(0);
        coverage.insert(k.clone(), json!(format!("<omitted: {len} bytes; see the run's output and replay files>")));
    }
    let doc = json!({
        "property_id": r.id,
        "tier": r.tier,
        "seed": seed,
        "level": r.level,
        "coverage": Value::Object(coverage),
        "assumptions": r.assumptions,
        "wall_s": wall,
        "violations": violations.len(),
    });
    let evdir = root.join("evidence");
    let _ = std::fs::create_dir_all(&evdir);
    let evpath = evdir.join(format!("{}.json", r.id));
    std::fs::write(&evpath, serde_json::to_string_pretty(&doc).unwrap() + "\n").expect("write evidence");
    println!("[{}] tier={} evaluations={} states={} transitions={} nontrivial={} outcomes={} known_findings={} violations={} wall={:.1}s{}",
        r.id, r.tier, r.evaluations, r.states, r.transitions, r.nontrivial, r.outcomes.len(), known_seen.len(), violations.len(), wall,
        r.cap_hit.as_ref().map(|c| format!(" CAP-HIT({c})")).unwrap_or_default());
    if !r.machinery_errors.is_empty() {
        for e in &r.machinery_errors { println!("MACHINERY-ERROR: {e}"); }
        return 2;
    }
    if violations.is_empty() { 0 } else { 1 }
}

/// Helper: dedupe strings, counting distinct
pub fn distinct_count<I: IntoIterator<Item = String>>(it: I) -> u64 {
    it.into_iter().collect::<BTreeSet<_>>().len() as u64
}

pub fn f32_bits_eq(a: f32, b: f32) -> bool {
    (a.is_nan() && b.is_nan()) || a.to_bits() == b.to_bits()
}
