//! C02 (behaviour preservation of lowering) and C05 (scratch registers), sharing executions.

use std::collections::{BTreeMap, BTreeSet};
use serde_json::json;

use crate::common::*;
use crate::gen::{G, Model};
use crate::tl::{self, *};

#[derive(Clone)]
pub struct Case { pub body: String, pub model: Model, pub choices: Vec<u32> }

pub struct CaseResult {
    pub outcome: String,
    pub nontrivial: bool,
    pub failures: Vec<Failure>,
    pub executions: u64,
    pub traces: u64,
    pub discards: Vec<String>,
}

pub fn gen_cases(table: &Table, bound: u32, max_stmts: usize, depth: u32, cap: u64) -> (Vec<Case>, DfsStats) {
    let mut cases = vec![];
    let mut seen = BTreeSet::new();
    let stats = explore_dfs(bound, cap, &|ch| {
        let mut g = G::new(ch, table);
        g.max_depth = depth;
        let body = g.body(max_stmts);
        (body, g.model)
    }, &mut |choices, (body, model)| {
        if seen.insert(body.clone()) { cases.push(Case { body, model, choices: choices.to_vec() }); }
    });
    (cases, stats)
}

/// registers mentioned (as raw registers, after aliases_to_raw) anywhere in a block
pub fn regs_mentioned(block: &truth::ast::Block) -> BTreeSet<i32> {
    struct V(BTreeSet<i32>);
    impl truth::ast::Visit for V {
        fn visit_var(&mut self, v: &truth::Sp<truth::ast::Var>) {
            if let truth::ast::VarName::Reg { reg, .. } = &v.name { self.0.insert(reg.0); }
        }
    }
    let mut v = V(BTreeSet::new());
    truth::ast::Visit::visit_block(&mut v, block);
    v.0
}

/// Check one body under one (table, pool).  `c05` adds the register-set oracle failures.
/// Does some float comparison in the body have an operand that evaluates to NaN under this valuation (operands
/// evaluated from the initial register state)?  Used only to *classify* a behavioural difference as the known finding
/// "a negated float comparison (unless / if-block / while) is compiled as the complementary operator, which differs
/// when an operand is NaN".
fn float_cmp_with_nan_operand(truth: &mut truth::Truth, stmts: &[truth::Sp<truth::ast::Stmt>], val: &Valuation) -> bool {
    use truth::ast;
    fn walk<'b>(stmts: &'b [truth::Sp<ast::Stmt>], out: &mut Vec<&'b truth::Sp<ast::Expr>>) {
        for s in stmts {
            match &s.kind {
                ast::StmtKind::Assignment { value, .. } => out.push(value),
                ast::StmtKind::Declaration { vars, .. } => for v in vars { if let Some(e) = &v.value.1 { out.push(e); } },
                ast::StmtKind::Expr(e) => { if let ast::Expr::Call(c) = &e.value { for a in &c.args { out.push(a); } } },
                ast::StmtKind::Block(b) => walk(&b.0, out),
                ast::StmtKind::Loop { block, .. } => walk(&block.0, out),
                ast::StmtKind::While { block, cond, .. } => { out.push(cond); walk(&block.0, out) },
                ast::StmtKind::Times { block, count, .. } => { out.push(count); walk(&block.0, out) },
                ast::StmtKind::CondJump { cond, .. } => out.push(cond),
                ast::StmtKind::CondChain(chain) => {
                    for cb in &chain.cond_blocks { out.push(&cb.cond); walk(&cb.block.0, out); }
                    if let Some(b) = &chain.else_block { walk(&b.0, out); }
                },
                _ => {},
            }
        }
    }
    fn subexprs<'b>(e: &'b truth::Sp<ast::Expr>, out: &mut Vec<&'b truth::Sp<ast::Expr>>) {
        out.push(e);
        match &e.value {
            ast::Expr::BinOp(a, _, b) => { subexprs(a, out); subexprs(b, out); },
            ast::Expr::UnOp(_, a) => subexprs(a, out),
            ast::Expr::Ternary { cond, left, right, .. } => { subexprs(cond, out); subexprs(left, out); subexprs(right, out); },
            ast::Expr::DiffSwitch(cases) => for c in cases.iter().flatten() { subexprs(c, out); },
            _ => {},
        }
    }
    let mut tops = vec![]; walk(stmts, &mut tops);
    let mut all = vec![]; for t in tops { subexprs(t, &mut all); }
    let ctx = truth.ctx();
    for e in all {
        let ast::Expr::BinOp(a, op, b) = &e.value else { continue; };
        if !matches!(op.value, ast::BinOpKind::Lt | ast::BinOpKind::Le | ast::BinOpKind::Gt | ast::BinOpKind::Ge | ast::BinOpKind::Eq | ast::BinOpKind::Ne) { continue; }
        for side in [a, b] {
            let mut vm = truth::vm::AstVm::new().with_max_iterations(100).with_difficulty(0);
            for (&r, v) in val { vm.set_reg(truth::RegId(r), v.to_scalar()); }
            if let Ok(truth::ScalarValue::Float(x)) = catch(|| vm.eval(&side.value, &ctx.resolutions)) { if x.is_nan() { return true; } }
        }
    }
    false
}

pub fn check_case(table: &Table, mapfile: &str, case: &Case, pool: (usize, usize), vals: &[Valuation], which: &str) -> CaseResult {
    let mut res = CaseResult { outcome: String::new(), nontrivial: false, failures: vec![], executions: 0, traces: 0, discards: vec![] };
    let detail = |extra: serde_json::Value| json!({"family": "tl-body", "body": case.body, "table": table.cfg.name(), "pool": [pool.0, pool.1], "choices": case.choices, "info": extra});
    let r = catch(|| with_truth(mapfile, |truth| {
        let block = match front_end(truth, &case.body, true) {
            Ok(b) => b,
            Err((stage, diag)) => { if std::env::var("VERIF_DEBUG").is_ok() { eprintln!("REJECT {stage}: {}\n{}", case.body, diag.lines().take(6).collect::<Vec<_>>().join("\n")); } return (format!("rejected:{stage}"), None, diag) },
        };
        // as the real format pipelines do: evaluate consts + const-simplify, validate difficulty, then desugar.
        // (the *source* side below still runs the unsimplified block, so folding bugs show up as behaviour changes)
        let mut simplified = block.clone();
        if let Err(d) = tl::const_simplify(truth, &mut simplified) { return ("rejected:const_simplify".into(), None, d); }
        let regs_after_folding = regs_mentioned(&simplified);
        let hooks = make_language(&Pool { ints: pool.0, floats: pool.1 }, true);
        if let Err(d) = tl::validate_difficulty(truth, &hooks, &simplified) { return ("rejected:validate_difficulty".into(), None, d); }
        let desugared = match desugar(truth, &simplified) { Ok(b) => b, Err(d) => return ("rejected:desugar".into(), None, d) };
        let (instrs, _) = match tl::lower(truth, &hooks, &desugared.0, false) { Ok(x) => x, Err(d) => return ("rejected:lower".into(), None, d) };
        let warnings = truth.get_captured_diagnostics().unwrap_or_default();
        if !warnings.is_empty() { return ("compiled-with-warnings".into(), None, warnings); }
        // raise for the second comparison
        let raised = tl::raise(truth, &hooks, &instrs, &Default::default());
        let mut runs = vec![];
        // difficulties the shortest switch has a position for (AstVm rejects the others as undefined)
        let diffs: Vec<u32> = if case.model.uses_switch { (0..4u32).filter(|&d| case.model.min_switch_len == 0 || (d as usize) < case.model.min_switch_len).collect() } else { vec![0] };
        for (vi, val) in vals.iter().enumerate() {
            for &d in &diffs {
                let src = run_astvm(truth, &block.0, val, d);
                let rz = match &raised { Ok(b) => Some(run_astvm(truth, &b.0, val, d)), Err(_) => None };
                runs.push((vi, d, src, rz));
            }
        }
        let nan_by_val: Vec<bool> = vals.iter().map(|v| float_cmp_with_nan_operand(truth, &block.0, v)).collect();
        ("compiled".into(), Some((instrs, raised.err(), runs, regs_after_folding, nan_by_val)), String::new())
    }));
    let (outcome, data, diag) = match r {
        Ok(x) => x,
        Err(p) => { res.outcome = format!("compile-panic"); res.discards.push(p.signature()); return res; }
    };
    res.outcome = outcome.clone();
    let Some((instrs, raise_err, runs, regs_after_folding, nan_by_val)) = data else {
        if outcome == "rejected:lower" {
            // classify
            let class = if diag.contains("too complex") || diag.contains("no more registers") || diag.contains("scratch") { "lower:no-registers" }
                else if diag.contains("not supported") { "lower:unsupported" } else { "lower:other" };
            res.outcome = class.to_string();
        }
        return res;
    };
    let regs_used = match regs_in_instrs(table, &instrs) {
        Ok(r) => r,
        Err(e) => { res.failures.push(Failure { signature: format!("{which}:undecodable-output:{}", case.body), detail: detail(json!({"error": e, "instrs": fmt_instrs(&instrs)})) }); return res; }
    };
    let scratch: Vec<i32> = regs_used.iter().copied().filter(|r| !case.model.regs.contains(r)).collect();
    res.nontrivial = instrs.len() >= 2 || !scratch.is_empty();
    // ---- C05 oracle
    if which == "C05" {
        let pool_regs: Vec<i32> = POOL_INTS[..pool.0].iter().chain(POOL_FLOATS[..pool.1].iter()).copied().collect();
        for &r in &scratch {
            if !pool_regs.contains(&r) {
                res.failures.push(Failure { signature: format!("C05:scratch-outside-pool:{}", case.body), detail: detail(json!({"reg": r, "pool": pool_regs, "instrs": fmt_instrs(&instrs)})) });
            }
        }
        // (scratch ∩ mentioned = ∅ holds by construction of `scratch`; a collision shows as: a mentioned register
        //  being *written* by an instruction the source did not ask for -> caught by the behavioural comparison below)
    }
    if let Some(e) = raise_err {
        res.failures.push(Failure { signature: format!("{which}:raise-failed:{}", case.body), detail: detail(json!({"diag": e})) });
    }
    // registers to compare: everything mentioned + everything not available as scratch
    let pool_regs: BTreeSet<i32> = POOL_INTS[..pool.0].iter().chain(POOL_FLOATS[..pool.1].iter()).copied().collect();
    let cmp_regs: Vec<i32> = REGS.iter().map(|r| r.id).filter(|r| case.model.regs.contains(r) || !pool_regs.contains(r)).collect();
    // a jump with an explicit time (`goto L @ t`, t != time of L) leaves the clock off the label clock; compiler-generated
    // jumps (ternaries, blocks) then carry *label* times in their `t` argument while AstVm executes no jump there: the same
    // AstVm artefact as in C07, so for such bodies calls and registers are compared, clocks are not
    // (M1 marks the point from which its clock and AstVm's follow different rules; see Trace::clock_unreliable_from)
    let time_observable = table.cfg.jump_order != JumpOrder::O;
    for (vi, d, src, rz) in runs {
        res.executions += 1;
        if let Some(s) = &src.stopped { if s.starts_with("vm-panic") { res.discards.push(format!("source-undefined:{s}")); continue; } }
        let m1 = run_m1(table, &instrs, &vals[vi], d, 4);
        // the raised form is the same instruction stream: AstVm executing it is subject to the same clock caveat
        let clock_mark = m1.as_ref().ok().and_then(|t| t.clock_unreliable_from);
        res.traces += 1;
        match m1 {
            Err(e) if e.starts_with("UNDEFINED") && src.stopped.is_some() => { res.discards.push("both-undefined".into()); },
            Err(e) => {
                res.failures.push(Failure { signature: format!("{which}:m1-error:{}", case.body), detail: detail(json!({"valuation": vi, "difficulty": d, "error": e, "instrs": fmt_instrs(&instrs)})) });
                break;
            },
            Ok(m1) => {
                if let Some(diff) = compare_traces_ex(&src, &m1, &cmp_regs, time_observable, time_observable) {
                    // a register the source mentions only in code that constant folding removes (the dead arm of `1 ? a : b`) is not
                    // seen by the scratch allocator: a separate, narrowly identified finding
                    let folded_away = diff.strip_prefix("register ").and_then(|r| r.split(' ').next()).and_then(|r| r.parse::<i32>().ok())
                        .map(|r| case.model.regs.contains(&r) && !regs_after_folding.contains(&r)).unwrap_or(false);
                    // `unless (a < b)` / `if (a < b) {..}` / `while (a < b)` jump on the complementary operator (`a >= b`), which is
                    // not the negation when an operand is NaN: a separate, narrowly identified finding
                    let sig = if folded_away { format!("{which}:scratch-register-mentioned-only-in-constant-folded-code") }
                        else if nan_by_val[vi] { format!("{which}:negated-float-comparison-with-nan-operand") } else { format!("{which}:behaviour:{}", case.body) };
                    res.failures.push(Failure { signature: sig, detail: detail(json!({"valuation": vi, "difficulty": d, "diff": diff, "oracle": "AstVm(source) vs M1(emitted)", "instrs": fmt_instrs(&instrs), "registers_mentioned_after_constant_folding": regs_after_folding})) });
                    break;
                }
            }
        }
        if let Some(mut rz) = rz {
            rz.clock_unreliable_from = clock_mark;
            res.traces += 1;
            if let Some(s) = &rz.stopped { if s.contains("not implemented") { res.discards.push("raised-form-not-executable-by-AstVm".into()); continue; } }
            if let Some(s) = &rz.stopped { if s.starts_with("vm-panic") {
                res.failures.push(Failure { signature: format!("{which}:raised-undefined:{}", case.body), detail: detail(json!({"valuation": vi, "difficulty": d, "stopped": s})) });
                break;
            } }
            if let Some(diff) = compare_traces_ex(&src, &rz, &cmp_regs, time_observable, time_observable) {
                let folded_away = diff.strip_prefix("register ").and_then(|r| r.split(' ').next()).and_then(|r| r.parse::<i32>().ok())
                    .map(|r| case.model.regs.contains(&r) && !regs_after_folding.contains(&r)).unwrap_or(false);
                res.failures.push(Failure { signature: if folded_away { format!("{which}:scratch-register-mentioned-only-in-constant-folded-code") } else if nan_by_val[vi] { format!("{which}:negated-float-comparison-with-nan-operand") } else { format!("{which}:behaviour-raised:{}", case.body) }, detail: detail(json!({"valuation": vi, "difficulty": d, "diff": diff, "oracle": "AstVm(source) vs AstVm(raise(emitted))", "instrs": fmt_instrs(&instrs)})) });
                break;
            }
        }
    }
    res
}

pub fn run(id: &str, tier: &str) -> Report {
    let mut rep = Report::new(id, tier, "model_checking");
    let thorough = tier == "thorough";
    let (bound, depth, max_stmts) = if thorough { (4, 3, 3) } else { (3, 2, 2) };
    let tables: Vec<TableCfg> = if thorough || id == "C02" { TableCfg::variants() } else { TableCfg::variants().into_iter().take(4).chain(TableCfg::variants().into_iter().skip(8).take(1)).collect() };
    let pools: Vec<(usize, usize)> = if id == "C05" {
        if thorough { (0..=4).flat_map(|i| (0..=4).map(move |f| (i, f))).collect() } else { vec![(0, 0), (1, 1), (2, 1), (2, 2), (4, 4)] }
    } else if thorough { vec![(4, 4), (2, 2), (1, 1), (3, 1), (1, 3), (0, 0)] } else { vec![(4, 4), (2, 2), (1, 1)] };
    let vals = valuations();
    let deadline = rep.deadline();
    let mut total_cases = 0u64;
    let mut completed_tables = 0;
    let mut first = true;
    for cfg in &tables {
        let table = Table::new(cfg);
        let mapfile = table.mapfile_text(REGS);
        let (cases, stats) = gen_cases(&table, bound, max_stmts, depth, if thorough { 3_000_000 } else { 400_000 });
        if stats.capped { rep.cap_hit = Some(format!("generator cap at {} runs for table {}", stats.runs, cfg.name())); }
        rep.transitions += stats.runs;
        rep.states += cases.len() as u64;
        total_cases += cases.len() as u64;
        // work items = case x pool
        let items: Vec<(usize, (usize, usize))> = (0..cases.len()).flat_map(|c| pools.iter().map(move |&p| (c, p))).collect();
        let results = par_map(&items, Some(deadline), |_, &(c, p)| check_case(&table, &mapfile, &cases[c], p, &vals, id));
        let mut nontrivial_cases = BTreeSet::new();
        let mut incomplete = false;
        // monotonicity (C05): success with pool k implies success with larger pools (pools are ordered by inclusion only when both coords >=)
        let mut compiled_by_case: BTreeMap<usize, Vec<((usize, usize), bool)>> = BTreeMap::new();
        for (i, r) in results.into_iter().enumerate() {
            let Some(r) = r else { incomplete = true; continue; };
            let (c, p) = items[i];
            rep.evaluations += 1 + r.executions;
            rep.traces_validated += r.traces;
            rep.outcome(&r.outcome);
            for d in r.discards { rep.discard(&d); }
            if r.nontrivial { nontrivial_cases.insert(c); }
            let ok = r.outcome == "compiled" || r.outcome == "compiled-with-warnings";
            if r.outcome == "compiled" || r.outcome == "lower:no-registers" { compiled_by_case.entry(c).or_default().push((p, ok)); }
            for f in r.failures { rep.failures.push(f); }
            if first && r.outcome == "compiled" && cases[c].model.features.len() >= 2 && rep.samples.len() < 6 {
                rep.sample(json!({"body": cases[c].body, "table": cfg.name(), "pool": [p.0, p.1], "outcome": r.outcome}));
            }
        }
        if id == "C05" {
            for (c, v) in &compiled_by_case {
                for &(p1, ok1) in v { for &(p2, ok2) in v {
                    if p1.0 <= p2.0 && p1.1 <= p2.1 && ok1 && !ok2 {
                        rep.fail(format!("C05:non-monotone-pool:{}", cases[*c].body), json!({"family": "tl-body", "body": cases[*c].body, "table": cfg.name(), "ok_pool": [p1.0, p1.1], "fails_pool": [p2.0, p2.1]}));
                    }
                }}
            }
        }
        rep.nontrivial += nontrivial_cases.len() as u64;
        first = false;
        if incomplete { rep.cap_hit = Some(format!("wall cap during table {} ({} of {} tables complete)", cfg.name(), completed_tables, tables.len())); break; }
        completed_tables += 1;
        if let Some(c) = cases.last() { rep.sample(json!({"body": c.body, "table": cfg.name()})); }
    }
    if id == "C05" { c05_extra(&mut rep, thorough); c05_game_facts(&mut rep); c05_single_mentions(&mut rep); }
    if id == "C02" { c02_real(&mut rep, thorough); }
    rep.exhaustive = true;
    rep.bound_completed = format!("deviations<={bound}, expr depth<={depth}, stmts<={max_stmts}; {completed_tables}/{} intrinsic tables; pools {:?}; {} valuations; difficulties 0-3 where a switch/label occurs", tables.len(), pools, vals.len());
    rep.rule = "E-DFS over G-stmt/G-expr choice sequences (alternative 0 = simplest production, every other alternative costs one deviation); distinct = distinct rendered body text per table; non-trivial = lowering emitted >= 2 instructions or allocated >= 1 scratch register".into();
    rep.assumptions = vec![
        "truth::vm::AstVm is the source-level reference interpreter".into(),
        "M1 (harness-owned RawInstr machine) defines the meaning of the harness-written intrinsic table".into(),
        "register valuations are a fixed boundary set of 6, not all 2^32n states".into(),
    ];
    rep.explanation = format!("{total_cases} distinct bodies; every (body, table, pool) compiled by the real parser/passes/Lowerer; emitted RawInstrs executed by M1 and re-raised+executed by AstVm, compared with AstVm(source)");
    rep
}

pub fn replay(detail: &serde_json::Value, id: &str) -> i32 {
    let body = detail["body"].as_str().unwrap().to_string();
    let pool = (detail["pool"][0].as_u64().unwrap_or(4) as usize, detail["pool"][1].as_u64().unwrap_or(4) as usize);
    let tname = detail["table"].as_str().unwrap();
    let cfg = TableCfg::variants().into_iter().find(|c| c.name() == tname).expect("unknown table");
    let table = Table::new(&cfg);
    // recompute model by scanning the text for register names (replay only)
    let mut model = Model::default();
    for r in REGS { if let Some(n) = r.name { if body.split(|c: char| !c.is_alphanumeric() && c != '_').any(|w| w == n) { model.regs.insert(r.id); } } if body.contains(&format!("REG[{}]", r.id)) { model.regs.insert(r.id); } }
    model.uses_switch = body.contains(':');
    model.min_switch_len = 2;
    let case = Case { body: body.clone(), model, choices: vec![] };
    let r = check_case(&table, &table.mapfile_text(REGS), &case, pool, &valuations(), id);
    println!("outcome: {}", r.outcome);
    for f in &r.failures { println!("FAIL {}\n{}", f.signature, serde_json::to_string_pretty(&f.detail).unwrap()); }
    if r.failures.is_empty() { 0 } else { 1 }
}


// ---------------------------------------------------------------------------------------------
// C05 extra families

/// (1) anti-scratch instruction: a body that needs a temporary or a local together with the anti-scratch
///     opcode must be rejected with an error; bodies that need no scratch must still compile.
/// (2) real register files: generated bodies compiled as ANM th12 scripts and th07/th08 ECL subs with
///     0..4 int and float parameters; every register in the written file that the source did not mention
///     must belong to that language's general-purpose list (which excludes the parameter registers).
fn c05_extra(rep: &mut Report, thorough: bool) {
    use crate::drive::{self, CompileOpts};
    let deadline = rep.deadline();
    // ---- (1)
    let cfg = TableCfg::FULL;
    let table = Table::new(&cfg);
    let mapfile = table.mapfile_text(REGS);
    let (cases, _) = gen_cases(&table, if thorough { 3 } else { 2 }, 1, 2, 300_000);
    let items: Vec<(usize, u8)> = (0..cases.len()).flat_map(|c| [(c, 0u8), (c, 1), (c, 2)]).collect();
    let results = par_map(&items, Some(deadline), |_, &(c, pos)| {
        let body = &cases[c].body;
        let inner = body.trim().strip_prefix('{').and_then(|b| b.strip_suffix('}')).unwrap_or(body);
        let text = match pos { 0 => format!("{{ {inner} }}"), 1 => format!("{{ antiscratch(); {inner} }}"), _ => format!("{{ {inner} antiscratch(); }}") };
        let r = catch(|| with_truth(&mapfile, |truth| {
            let block = front_end(truth, &text, true).map_err(|(s, d)| (format!("rejected:{s}"), d))?;
            let des = desugar(truth, &block).map_err(|d| ("rejected:desugar".to_string(), d))?;
            let hooks = make_language(&Pool { ints: 4, floats: 4 }, true);
            let (instrs, _) = tl::lower(truth, &hooks, &des.0, false).map_err(|d| ("rejected:lower".to_string(), d))?;
            Ok::<_, (String, String)>(instrs)
        }));
        (text, r)
    });
    // group by case: base outcome decides the expectation
    let mut base: BTreeMap<usize, Option<Vec<i32>>> = BTreeMap::new(); // scratch regs used by the plain body (None = did not compile)
    for (i, r) in results.iter().enumerate() {
        let Some((_, r)) = r else { continue; };
        let (c, pos) = items[i];
        if pos == 0 { base.insert(c, match r { Ok(Ok(instrs)) => regs_in_instrs(&table, instrs).ok().map(|rs| rs.into_iter().filter(|x| !cases[c].model.regs.contains(x)).collect()), _ => None }); }
    }
    for (i, r) in results.into_iter().enumerate() {
        let Some((text, r)) = r else { rep.cap_hit = Some("wall cap in C05 anti-scratch family".into()); continue; };
        let (c, pos) = items[i];
        if pos == 0 { continue; }
        rep.evaluations += 1; rep.states += 1;
        let Some(Some(scratch)) = base.get(&c) else { rep.outcome("antiscratch:base-rejected"); continue; };
        let needs_scratch = !scratch.is_empty();
        if needs_scratch { rep.nontrivial += 1; }
        match r {
            Err(p) => { rep.outcome("antiscratch:panic"); rep.fail(format!("C05:{}", p.signature()), json!({"family": "antiscratch", "body": text, "panic": p.text})); },
            Ok(Ok(_)) => {
                if needs_scratch { rep.outcome("antiscratch:ACCEPTED-WITH-SCRATCH"); rep.fail(format!("C05:antiscratch-ignored:{text}"), json!({"family": "antiscratch", "body": text, "scratch_regs_of_plain_body": scratch})); }
                else { rep.outcome("antiscratch:ok-no-scratch-needed"); }
            },
            Ok(Err((class, diag))) => {
                if !drive::has_error(&diag) { rep.fail(format!("C05:antiscratch-rejected-without-error:{text}"), json!({"family": "antiscratch", "body": text, "diag": diag})); }
                if needs_scratch { rep.outcome("antiscratch:rejected-as-required"); }
                else { rep.outcome(&format!("antiscratch:REJECTED-THOUGH-NO-SCRATCH:{class}")); rep.fail(format!("C05:antiscratch-overcautious:{text}"), json!({"family": "antiscratch", "body": text, "diag": diag})); }
            },
        }
    }
    // ---- (2) real register files
    let hosts: Vec<crate::c01::Host> = crate::c01::hosts().into_iter().filter(|h| ["anm12", "ecl06", "ecl07", "ecl08"].contains(&h.name)).collect();
    // EoSD: arguments are registers by *value*; its two parameter registers I0 / F0 belong to the general-purpose
    // list, so "not a parameter register of the enclosing sub" has to be checked against the sub's parameter list
    let eosd_regs: BTreeSet<i32> = { let t = Table::from_core("th06".parse().unwrap(), truth::LanguageKey::Ecl, &[], true); t.regs_by_value.clone().unwrap_or_default() };
    let gp: BTreeMap<&str, Vec<i32>> = [
        ("anm12", vec![10000, 10001, 10002, 10003, 10008, 10009, 10004, 10005, 10006, 10007]),
        ("ecl06", vec![-10001, -10002, -10003, -10004, -10009, -10010, -10011, -10012, -10005, -10006, -10007, -10008]),
        ("ecl07", vec![10000, 10001, 10002, 10003, 10012, 10013, 10014, 10015, 10004, 10005, 10006, 10007, 10008, 10009, 10010, 10011, 10072, 10074]),
        ("ecl08", vec![10000, 10001, 10002, 10003, 10004, 10005, 10006, 10007, 10036, 10037, 10038, 10039, 10016, 10017, 10018, 10019, 10020, 10021, 10022, 10023, 10094, 10095]),
    ].into_iter().collect();
    let (cases2, _) = gen_cases(&table, if thorough { 3 } else { 2 }, 2, 2, 300_000);
    for host in &hosts {
        let um = host.user_mapfile();
        let param_sets: Vec<&str> = if host.name == "ecl06" { vec!["", "int", "float", "int, float", "float, int", "int pa", "float px", "int pa, float px", "int, float px"] }
            else if host.tool.kind == drive::Kind::Ecl { vec!["", "int pa", "int", "int pa, float px", "int, float", "int pa, int pb, float px, float py", "int, int, float, float", "int pa, int pb, int pc, int pd, float px, float py, float pz, float pw"] } else { vec![""] };
        let items: Vec<(usize, usize)> = (0..cases2.len()).flat_map(|c| (0..param_sets.len()).map(move |p| (c, p))).collect();
        let (ints, floats) = host.regs.unwrap();
        let name_to_reg: BTreeMap<i32, i32> = [(R_A, ints[0]), (R_B, ints[1]), (R_C, ints[2]), (R_D, ints[3]), (R_P, ints[4]), (R_COUNT, ints[5]), (R_X, floats[0]), (R_Y, floats[1]), (R_R, floats[2]), (R_W, floats[3])].into_iter().collect();
        let results = par_map(&items, Some(deadline), |_, &(c, p)| {
            let body = &cases2[c].body;
            if body.contains("{\"") && host.tool.kind != drive::Kind::Ecl { return None; }
            if crate::c01::has_switch(body) && host.tool.kind != drive::Kind::Ecl { return None; }
            let src = if host.tool.kind == drive::Kind::Ecl {
                let inner = body.trim().strip_prefix('{').and_then(|b| b.strip_suffix('}')).unwrap_or(body)
                    .replace("REG[1002]", &format!("REG[{}]", ints[2])).replace("REG[1005]", &format!("REG[{}]", floats[1]));
                format!("void sub0({}) {{ {inner} }}\nscript timeline0 {{ }}\n", param_sets[p])
            } else { host.wrap(body) };
            let out = drive::compile(host.tool, src.as_bytes(), &CompileOpts { mapfiles: vec![&um], ..Default::default() });
            Some((src, out))
        });
        for (i, r) in results.into_iter().enumerate() {
            let Some(r) = r else { rep.cap_hit = Some(format!("wall cap in C05 real-register family ({})", host.name)); continue; };
            let Some((src, out)) = r else { continue; };
            let (c, pidx) = items[i];
            rep.evaluations += 1; rep.states += 1;
            if let Some(p) = out.panic { rep.outcome(&format!("{}:panic", host.name)); rep.fail(format!("C05:{}:{}", host.name, p.signature()), json!({"family": "real", "host": host.name, "source": src, "panic": p.text})); continue; }
            let Some(bytes) = out.bytes else { rep.outcome(&format!("{}:rejected", host.name)); continue; };
            // registers in the written file: every masked dword of every instruction of the first script/sub
            let instrs: Vec<crate::m2::Instr> = match host.tool.kind {
                drive::Kind::Ecl => crate::m2::walk_ecl(&bytes, host.tool.game).map(|w| w.subs.get(0).cloned().unwrap_or_default()).unwrap_or_default(),
                _ => crate::m2::walk_anm(&bytes, host.tool.game).ok().and_then(|e| e.get(0).and_then(|e| e.scripts.get(0).map(|s| s.instrs.clone()))).unwrap_or_default(),
            };
            let mut used: BTreeSet<i32> = BTreeSet::new();
            for ins in &instrs {
                for (k, w) in ins.args.chunks(4).enumerate() {
                    if w.len() < 4 { continue; }
                    let raw = u32::from_le_bytes([w[0], w[1], w[2], w[3]]);
                    let as_int = raw as i32;
                    if host.name == "ecl06" {
                        // by value: an int dword equal to a register id, or a float dword that is integral and equal to one
                        let f = f32::from_bits(raw);
                        if eosd_regs.contains(&as_int) { used.insert(as_int); }
                        else if f == f.round() && f.abs() < 1.0e6 && f != 0.0 && eosd_regs.contains(&(f as i32)) { used.insert(f as i32); }
                        continue;
                    }
                    if k >= 16 || ins.param_mask >> k & 1 == 0 { continue; }
                    let id = if (9000..11000).contains(&as_int) { as_int } else { f32::from_bits(raw) as i32 };
                    used.insert(id);
                }
            }
            let mentioned: BTreeSet<i32> = cases2[c].model.regs.iter().filter_map(|r| name_to_reg.get(r).copied()).collect();
            let picked: Vec<i32> = used.iter().copied().filter(|r| !mentioned.contains(r)).collect();
            rep.traces_validated += 1;
            if !picked.is_empty() { rep.nontrivial += 1; }
            // parameter registers of this sub (EoSD: I0 for an int parameter, F0 for a float parameter, named or not)
            let param_regs: Vec<i32> = if host.name == "ecl06" {
                let ps = param_sets[pidx];
                let mut v = vec![]; if ps.contains("int") { v.push(-10001); } if ps.contains("float") { v.push(-10005); } v
            } else { vec![] };
            let bad: Vec<i32> = picked.iter().copied().filter(|r| !gp[host.name].contains(r) || param_regs.contains(r)).collect();
            if bad.is_empty() { rep.outcome(&format!("{}:ok", host.name)); }
            else { rep.outcome(&format!("{}:SCRATCH-OUTSIDE-GP", host.name)); rep.fail(format!("C05:{}:scratch-outside-general-purpose-set:{}", host.name, cases2[c].body), json!({"family": "real", "host": host.name, "source": src, "picked": picked, "not_gp": bad})); }
        }
    }
}


/// (4) single-mention positions: each scratch-pool register is mentioned in EXACTLY ONE syntactic position of the body
///     (operand, either sigil, raw REG[n], assignment target, call argument, jump condition, `times` count / counter,
///     predecrement, a case of a difficulty switch, a case of a switch nested in a switch, a ternary arm, a cast operand),
///     next to a local with a sentinel value and an expression that needs a temporary.  With pools of every size the
///     mentioned register is the first candidate the allocator would otherwise hand out, so a mention the allocator does
///     not see shows as a behaviour change (the local overwrites the register, or the register is read back changed).
fn c05_single_mentions(rep: &mut Report) {
    let table = Table::new(&TableCfg::FULL);
    let mapfile = table.mapfile_text(REGS);
    let vals = valuations();
    let int_regs: [(&str, i32); 4] = [("A", R_A), ("B", R_B), ("C", R_C), ("D", R_D)];
    let float_regs: [(&str, i32); 4] = [("X", R_X), ("Y", R_Y), ("Z", R_Z), ("W", R_W)];
    // (position name, template with @R@ for the register, is the register written?, uses a switch (min length))
    let int_pos: Vec<(&str, &str, usize)> = vec![
        ("operand", "mS(@R@ + 1);", 0), ("call-arg", "mS(@R@);", 0), ("sigil-as-float", "mf(%@R@);", 0), ("raw-reg", "mS($REG[@N@]);", 0), ("raw-reg-float-sigil", "mf(%REG[@N@]);", 0),
        ("assign-target", "@R@ = 5; mS(@R@);", 0), ("assign-op-target", "@R@ += 1;", 0), ("jump-cond", "if (@R@ == 0) goto LE; mS(1);", 0), ("jump-cond-truthy", "if (@R@) goto LE; mS(1);", 0),
        ("times-count", "times(@R@ & 1) { mS(2); }", 0), ("times-counter", "times(@R@ = 2) { mS(2); }", 0), ("predecrement", "if (--@R@) goto LE; mS(1);", 0),
        ("switch-case", "mS((1:@R@:3:4));", 4), ("switch-first-case", "mS((@R@:2));", 2), ("switch-after-hole", "mS((1::@R@));", 3), ("nested-switch-case", "mS((2:(9:@R@:9:9):6:7));", 4),
        ("nested-switch-first", "mS(((@R@:8):5));", 2), ("switch-case-expr", "mS((1:(@R@ + 1)));", 2), ("switch-in-assign", "P = (1:@R@:3:4); mS(P);", 4), ("nested-switch-in-assign", "P = (2:(9:@R@:9:9):6:7); mS(P);", 4),
        ("ternary-cond", "mS(@R@ ? 1 : 2);", 0), ("ternary-arm", "mS(P ? @R@ : 2);", 0), ("ternary-other-arm", "mS(P ? 1 : @R@);", 0), ("cast-operand", "mf(_f(@R@));", 0), ("real-cast-operand", "mf(float(@R@));", 0),
        ("unary", "mS(-(@R@));", 0), ("deep-operand", "mS((1 + (2 * (3 - @R@))));", 0), ("second-call-arg", "mSS(1, @R@);", 0), ("local-init", "int q = @R@; mS(q);", 0),
    ];
    let float_pos: Vec<(&str, &str, usize)> = vec![
        ("operand", "mf(@R@ + 1.0);", 0), ("call-arg", "mf(@R@);", 0), ("sigil-as-int", "mS($@R@);", 0), ("raw-reg", "mf(%REG[@N@]);", 0), ("assign-target", "@R@ = 5.5; mf(@R@);", 0),
        ("jump-cond", "if (@R@ == 0.0) goto LE; mS(1);", 0), ("switch-case", "mf((1.0:@R@:3.0:4.0));", 4), ("nested-switch-case", "mf((2.0:(9.0:@R@:9.0:9.0):6.0:7.0));", 4),
        ("switch-in-assign", "R = (1.0:@R@:3.0:4.0); mf(R);", 4), ("nested-switch-in-assign", "R = (2.0:(9.0:@R@:9.0:9.0):6.0:7.0); mf(R);", 4),
        ("ternary-arm", "mf(P ? @R@ : 2.0);", 0), ("cast-operand", "mS(_S(@R@));", 0), ("sin-operand", "mf(sin(@R@));", 0), ("local-init", "float q = @R@; mf(q);", 0),
    ];
    // competitors for scratch: a local (int / float), a temporary, both; before or after the mention
    let competitors: [(&str, &str, &str); 4] = [
        ("int-local", "int zz = 777;", "mS(zz);"), ("float-local", "float zf = 777.5;", "mf(zf);"),
        ("int-temp", "", "mS((P + 1) * (P + 2));"), ("float-temp", "", "mf((R + 1.0) * (R + 2.0));"),
    ];
    let mut cases: Vec<(Case, String)> = vec![];
    for (float, regs, pos) in [(false, &int_regs[..], &int_pos), (true, &float_regs[..], &float_pos)] {
        for (rname, rid) in regs { for (pname, tpl, swlen) in pos.iter() { for (cname, decl, use_) in &competitors { for order in 0..2 {
            let stmt = tpl.replace("@R@", rname).replace("@N@", &rid.to_string());
            let body = if order == 0 { format!("{{ {decl} {stmt} {use_} LE: mS(9); }}") } else { format!("{{ {decl} {use_} {stmt} LE: mS(9); }}") };
            let mut model = crate::gen::Model::default();
            model.regs.insert(*rid);
            if stmt.contains("P ") || stmt.contains("P)") || stmt.contains("P;") || use_.contains('P') { model.regs.insert(R_P); }
            if stmt.contains("R ") || stmt.contains("R)") || stmt.contains("R;") || use_.contains("R +") { model.regs.insert(R_R); }
            model.uses_switch = *swlen > 0; model.min_switch_len = *swlen;
            let _ = float;
            cases.push((Case { body, model, choices: vec![] }, format!("{}:{pname}:{cname}", if float { "float" } else { "int" })));
        }}}}
    }
    let pools: [(usize, usize); 4] = [(4, 4), (1, 1), (2, 2), (3, 3)];
    let items: Vec<(usize, usize)> = (0..cases.len()).flat_map(|c| (0..pools.len()).map(move |p| (c, p))).collect();
    let results = par_map(&items, Some(rep.deadline()), |_, &(c, p)| check_case(&table, &mapfile, &cases[c].0, pools[p], &vals, "C05"));
    for (k, r) in results.into_iter().enumerate() {
        let Some(r) = r else { rep.cap_hit = Some("wall cap in C05 single-mention family".into()); continue; };
        let (c, _) = items[k];
        rep.evaluations += 1 + r.executions; rep.states += 1; rep.traces_validated += r.traces;
        if r.nontrivial { rep.nontrivial += 1; }
        rep.outcome(&format!("mention:{}", r.outcome));
        for mut f in r.failures {
            if f.signature.starts_with("C05:behaviour:") { f.signature = format!("C05:single-mention-not-seen:{}", cases[c].1); }
            rep.failures.push(f);
        }
    }
    rep.extra.insert("single_mention_cases".into(), json!(items.len()));
}

/// (3) per-game scratch facts, for EVERY game of every register language (reference data below, from the games'
///     documentation: general-purpose registers by type, and the instruction that forbids scratch use with its scope):
///     (a) n simultaneously live locals of one type, n = 1 ..= |GP| + 1: n <= |GP| must compile to n distinct registers
///         of that type's GP list; n = |GP| + 1 must be rejected with an error; the same with a mentioned GP register;
///     (b) the anti-scratch instruction in every position relative to a statement that needs scratch (same script
///         before / after, another script before / after): must be rejected within its documented scope (whole file for
///         ECL's call-stack switch, the one script for ANM's copyParentVars) and accepted outside it; games without
///         such an instruction compile the same layouts.
fn c05_game_facts(rep: &mut Report) {
    use crate::drive::{self, CompileOpts, Kind, Tool};
    struct GameFacts { kind: Kind, game: &'static str, ints: Vec<i32>, floats: Vec<i32>, anti: Option<(u16, &'static str, bool /*whole file*/)> }
    let anm_ints = vec![10000, 10001, 10002, 10003, 10008, 10009];
    let anm_floats = vec![10004, 10005, 10006, 10007];
    let mut facts: Vec<GameFacts> = vec![
        GameFacts { kind: Kind::Ecl, game: "th06", ints: vec![-10001, -10002, -10003, -10004, -10009, -10010, -10011, -10012], floats: vec![-10005, -10006, -10007, -10008], anti: Some((130, "ins_130(1);", true)) },
        GameFacts { kind: Kind::Ecl, game: "th07", ints: vec![10000, 10001, 10002, 10003, 10012, 10013, 10014, 10015], floats: vec![10004, 10005, 10006, 10007, 10008, 10009, 10010, 10011, 10072, 10074], anti: Some((130, "ins_130(1);", true)) },
        GameFacts { kind: Kind::Ecl, game: "th08", ints: vec![10000, 10001, 10002, 10003, 10004, 10005, 10006, 10007, 10036, 10037, 10038, 10039], floats: vec![10016, 10017, 10018, 10019, 10020, 10021, 10022, 10023, 10094, 10095], anti: Some((151, "ins_151(1);", true)) },
        GameFacts { kind: Kind::Ecl, game: "th09", ints: vec![10000, 10001, 10002, 10003, 10004, 10005, 10006, 10007, 10036, 10037, 10038, 10039], floats: vec![10016, 10017, 10018, 10019, 10020, 10021, 10022, 10023, 10094, 10095], anti: Some((151, "ins_151(1);", true)) },
        GameFacts { kind: Kind::Ecl, game: "th095", ints: vec![10000, 10001, 10002, 10003, 10004, 10005, 10006, 10007, 10020, 10021, 10022, 10023], floats: vec![10008, 10009, 10010, 10011, 10012, 10013, 10014, 10015, 10077, 10078, 10079, 10080], anti: Some((126, "ins_126(1);", true)) },
    ];
    for g in ["th07", "th08", "th09", "th095", "th10", "alcostg", "th11", "th12", "th125", "th128", "th13"] {
        facts.push(GameFacts { kind: Kind::Anm, game: g, ints: anm_ints.clone(), floats: anm_floats.clone(), anti: None });
    }
    for g in ["th14", "th143", "th15", "th16", "th165", "th17", "th18", "th185"] {
        facts.push(GameFacts { kind: Kind::Anm, game: g, ints: anm_ints.clone(), floats: anm_floats.clone(), anti: Some((509, "ins_509();", false)) });
    }
    const ENTRY: &str = "entry {\n    path: \"subdir/file.png\", has_data: false, img_width: 512, img_height: 512, img_format: 3,\n    sprites: {sprite0: {id: 0, x: 0.0, y: 0.0, w: 512.0, h: 480.0}},\n}\n";
    let file_of = |f: &GameFacts, scripts: &[String]| -> (String, String) {
        let magic = if f.kind == Kind::Ecl { "!eclmap" } else { "!anmmap" };
        let map = format!("{magic}\n!ins_signatures\n2000 S\n2001 f\n!ins_names\n2000 mS\n2001 mf\n");
        let mut src = String::new();
        if f.kind == Kind::Anm { src += ENTRY; }
        for (i, b) in scripts.iter().enumerate() {
            if f.kind == Kind::Ecl { src += &format!("void sub{i}() {{\n{b}}}\n"); } else { src += &format!("script script{i} {{\n{b}}}\n"); }
        }
        if f.kind == Kind::Ecl { src += "script timeline0 { }\n"; }
        (src, map)
    };
    // registers that appear in the first script of the written file
    let regs_used = |f: &GameFacts, tool: Tool, bytes: &[u8], all: &BTreeSet<i32>| -> Result<BTreeSet<i32>, String> {
        let instrs: Vec<crate::m2::Instr> = match f.kind {
            Kind::Ecl => crate::m2::walk_ecl(bytes, tool.game)?.subs.get(0).cloned().unwrap_or_default(),
            _ => crate::m2::walk_anm(bytes, tool.game)?.get(0).and_then(|e| e.scripts.get(0).map(|s| s.instrs.clone())).unwrap_or_default(),
        };
        let mut used = BTreeSet::new();
        for ins in &instrs { for (k, w) in ins.args.chunks(4).enumerate() {
            if w.len() < 4 { continue; }
            let raw = u32::from_le_bytes([w[0], w[1], w[2], w[3]]);
            if f.game == "th06" && f.kind == Kind::Ecl {
                let fl = f32::from_bits(raw);
                if all.contains(&(raw as i32)) { used.insert(raw as i32); } else if fl == fl.round() && fl.abs() < 1.0e6 && all.contains(&(fl as i32)) { used.insert(fl as i32); }
                continue;
            }
            if k >= 16 || ins.param_mask >> k & 1 == 0 { continue; }
            let as_int = raw as i32;
            used.insert(if (9000..11000).contains(&as_int) { as_int } else { f32::from_bits(raw) as i32 });
        } }
        Ok(used)
    };
    struct Out { key: String, fails: Vec<Failure>, evals: u64, nontrivial: bool }
    let work: Vec<usize> = (0..facts.len()).collect();
    let results = par_map(&work, Some(rep.deadline()), |_, &fi| {
        let f = &facts[fi];
        let tool = Tool::new(f.kind, f.game.parse().unwrap());
        let host = format!("{}-{}", if f.kind == Kind::Ecl { "ecl" } else { "anm" }, f.game);
        let mut out = Out { key: host.clone(), fails: vec![], evals: 0, nontrivial: true };
        let all: BTreeSet<i32> = f.ints.iter().chain(f.floats.iter()).copied().collect();
        let mut fail = |out: &mut Out, sig: String, d: serde_json::Value| out.fails.push(Failure { signature: format!("C05:game-facts:{host}:{sig}"), detail: d });
        // ---- (a) exhaustion per type, with 0 or 1 GP register mentioned by the source
        for (ty, sigil, marker, gp) in [("int", "$", "mS", &f.ints), ("float", "%", "mf", &f.floats)] {
            for mention in [false, true] {
                let avail = gp.len() - mention as usize;
                for n in 1..=avail + 1 {
                    let mut b = String::new();
                    for i in 0..n { b += &format!("    {ty} v{i} = {};\n", if ty == "int" { format!("{}", 100 + i) } else { format!("{}.5", 100 + i) }); }
                    if mention { b += &format!("    {marker}({sigil}REG[{}]);\n", gp[gp.len() / 2]); }
                    for i in 0..n { b += &format!("    {marker}(v{i});\n"); }
                    let (src, map) = file_of(f, &[b]);
                    let c = drive::compile(tool, src.as_bytes(), &CompileOpts { mapfiles: vec![&map], ..Default::default() });
                    out.evals += 1;
                    let d = |extra: serde_json::Value| json!({"family": "game-facts", "host": host, "source": src, "mapfile": map, "info": extra});
                    if let Some(p) = &c.panic { fail(&mut out, format!("panic:{}", p.signature()), d(json!({"panic": p.text}))); continue; }
                    match (&c.bytes, n <= avail) {
                        (Some(bytes), true) => {
                            match regs_used(f, tool, bytes, &all) {
                                Err(e) => fail(&mut out, "unreadable-output".into(), d(json!({"error": e}))),
                                Ok(used) => {
                                    let mentioned: BTreeSet<i32> = if mention { [gp[gp.len() / 2]].into_iter().collect() } else { BTreeSet::new() };
                                    let picked: Vec<i32> = used.iter().copied().filter(|r| !mentioned.contains(r)).collect();
                                    let outside: Vec<i32> = picked.iter().copied().filter(|r| !gp.contains(r)).collect();
                                    if !outside.is_empty() { fail(&mut out, format!("{ty}-local-outside-gp-set"), d(json!({"picked": picked, "outside": outside, "gp": gp}))); }
                                    else if picked.len() != n { fail(&mut out, format!("{ty}-locals-share-a-register:n={n}"), d(json!({"picked": picked, "n": n}))); }
                                },
                            }
                        },
                        (Some(_), false) => fail(&mut out, format!("{ty}-locals-beyond-gp-set-accepted:mention={mention}"), d(json!({"n": n, "gp": gp}))),
                        (None, true) => fail(&mut out, format!("{ty}-locals-within-gp-set-rejected:n={n}:mention={mention}"), d(json!({"diag": c.diag.chars().take(600).collect::<String>()}))),
                        (None, false) => { if !drive::has_error(&c.diag) { fail(&mut out, "rejected-without-error".into(), d(json!({"diag": c.diag}))); } },
                    }
                }
            }
        }
        // ---- (b) anti-scratch layouts
        let r0 = f.ints[0]; let r1 = f.ints[1];
        let users: [(&str, String); 2] = [("local", "    int x = 5;\n    mS(x);\n".to_string()), ("temporary", format!("    $REG[{r0}] = ($REG[{r0}] + 1) * ($REG[{r1}] + 2);\n"))];
        let plain = format!("    $REG[{r0}] = $REG[{r1}];\n    mS(3);\n");
        let (anti_stmt, whole_file) = match f.anti { Some((_, st, wf)) => (format!("    {st}\n"), wf), None => ("    mS(7);\n".to_string(), false) };
        let has_anti = f.anti.is_some();
        for (uname, user) in &users {
            // (layout name, scripts, scratch use inside the forbidding scope?)
            let layouts: Vec<(&str, Vec<String>, bool)> = vec![
                ("control-no-anti", vec![user.clone(), plain.clone()], false),
                ("anti-alone", vec![format!("{anti_stmt}{plain}"), plain.clone()], false),
                ("same-script-anti-first", vec![format!("{anti_stmt}{user}")], has_anti),
                ("same-script-anti-last", vec![format!("{user}{anti_stmt}")], has_anti),
                ("other-script-anti-first", vec![format!("{anti_stmt}{plain}"), user.clone()], has_anti && whole_file),
                ("other-script-anti-last", vec![user.clone(), format!("{plain}{anti_stmt}")], has_anti && whole_file),
                ("three-scripts-anti-middle", vec![user.clone(), format!("{anti_stmt}"), plain.clone()], has_anti && whole_file),
            ];
            for (lname, scripts, must_fail) in layouts {
                let (src, map) = file_of(f, &scripts);
                let c = drive::compile(tool, src.as_bytes(), &CompileOpts { mapfiles: vec![&map], ..Default::default() });
                out.evals += 1;
                let d = json!({"family": "game-facts", "host": host, "source": src, "mapfile": map, "layout": lname, "diag": c.diag.chars().take(600).collect::<String>()});
                if let Some(p) = &c.panic { fail(&mut out, format!("panic:{}", p.signature()), d); continue; }
                match (c.bytes.is_some(), must_fail) {
                    (true, true) => fail(&mut out, format!("antiscratch-ignored:{uname}:{lname}"), d),
                    (false, false) => fail(&mut out, format!("rejected-outside-antiscratch-scope:{uname}:{lname}"), d),
                    (false, true) => { if !drive::has_error(&c.diag) { fail(&mut out, "rejected-without-error".into(), d); } },
                    (true, false) => {},
                }
            }
        }
        out
    });
    for r in results {
        let Some(o) = r else { rep.cap_hit = Some("wall cap in C05 game-facts family".into()); continue; };
        rep.evaluations += o.evals; rep.states += o.evals; rep.traces_validated += o.evals; rep.nontrivial += o.evals;
        rep.outcome(&format!("game-facts:{}:{}", o.key, if o.fails.is_empty() { "ok" } else { "VIOLATION" }));
        rep.failures.extend(o.fails);
    }
}

// ---------------------------------------------------------------------------------------------
// C02 on real register files: the same generated bodies are compiled as whole files for real games
// (ANM th12, old ECL th06/th07/th08), the written binary is read back by M2 and executed by M1 with a table
// built from the game's built-in mapfile data; AstVm runs the source (through the test-language front end).

pub struct RealOut { pub outcome: String, pub failure: Option<Failure>, pub execs: u64, pub nontrivial: bool }

pub fn check_real(host: &crate::c01::Host, host_table: &Table, test_table: &Table, test_mapfile: &str, case: &Case, vals: &[Valuation]) -> RealOut {
    use crate::drive::{self, CompileOpts, Kind};
    let mut out = RealOut { outcome: String::new(), failure: None, execs: 0, nontrivial: false };
    let um = host.user_mapfile();
    let src = host.wrap(&case.body);
    let detail = |extra: serde_json::Value| json!({"family": "real", "host": host.name, "body": case.body, "source": src, "info": extra});
    let c = drive::compile(host.tool, src.as_bytes(), &CompileOpts { mapfiles: vec![&um], ..Default::default() });
    if let Some(p) = c.panic { out.outcome = "compile-panic".into(); out.failure = Some(Failure { signature: format!("C02:{}:{}", host.name, p.signature()), detail: detail(json!({"panic": p.text})) }); return out; }
    let Some(bytes) = c.bytes else { out.outcome = "rejected".into(); return out; };
    if !c.diag.is_empty() { out.outcome = "compiled-with-warnings".into(); return out; }
    let m2instrs: Vec<crate::m2::Instr> = match host.tool.kind {
        Kind::Ecl => crate::m2::walk_ecl(&bytes, host.tool.game).map(|w| w.subs.get(0).cloned().unwrap_or_default()).unwrap_or_default(),
        _ => crate::m2::walk_anm(&bytes, host.tool.game).ok().and_then(|e| e.get(0).and_then(|e| e.scripts.get(0).map(|s| s.instrs.clone()))).unwrap_or_default(),
    };
    let header = match host.tool.kind { Kind::Ecl => 12, _ => 8 };
    let instrs: Vec<truth::llir::RawInstr> = m2instrs.iter().map(|i| truth::llir::RawInstr { time: i.time, opcode: i.opcode, param_mask: i.param_mask, difficulty: i.difficulty, args_blob: i.args.clone(), ..truth::llir::RawInstr::DEFAULTS }).collect();
    out.nontrivial = instrs.len() >= 2;
    // source side: the test-language front end gives the AST for AstVm
    let (ints, floats) = host.regs.unwrap();
    let map: [(i32, i32); 10] = [(R_A, ints[0]), (R_B, ints[1]), (R_C, ints[2]), (R_D, ints[3]), (R_P, ints[4]), (R_COUNT, ints[5]), (R_X, floats[0]), (R_Y, floats[1]), (R_R, floats[2]), (R_W, floats[3])];
    let r = catch(|| with_truth(test_mapfile, |truth| {
        let block = front_end(truth, &case.body, true).map_err(|(s, _)| s.to_string())?;
        let diffs: Vec<u32> = if case.model.uses_switch { (0..4u32).filter(|&d| case.model.min_switch_len == 0 || (d as usize) < case.model.min_switch_len).collect() } else { vec![0] };
        let mut runs = vec![];
        for (vi, val) in vals.iter().enumerate() { for &d in &diffs { runs.push((vi, d, run_astvm(truth, &block.0, val, d))); } }
        Ok::<_, String>(runs)
    }));
    let runs = match r { Ok(Ok(r)) => r, _ => { out.outcome = "source-front-end-rejected".into(); return out; } };
    let name_of_host_op: BTreeMap<u16, String> = host_table.entries.iter().filter_map(|e| e.name.clone().map(|n| (e.opcode, n))).collect();
    let name_of_test_op: BTreeMap<u16, String> = test_table.entries.iter().filter_map(|e| e.name.clone().map(|n| (e.opcode, n))).collect();
    let mentioned: Vec<i32> = map.iter().filter(|(t, _)| case.model.regs.contains(t)).map(|(t, _)| *t).collect();
    for (vi, d, src_trace) in runs {
        out.execs += 1;
        if src_trace.stopped.as_deref().map(|s| s.starts_with("vm-panic")).unwrap_or(false) { continue; }
        let hval: Valuation = map.iter().filter_map(|(t, h)| vals[vi].get(t).map(|v| (*h, v.clone()))).collect();
        let m1 = run_m1_ex(host_table, &instrs, &hval, d, header, host.tool.kind == Kind::Ecl);
        let m1 = match m1 {
            Err(e) if e.starts_with("UNDEFINED") && src_trace.stopped.is_some() => continue,
            Err(e) if e.contains("does not know signature letter") || e.contains("unknown opcode") => { out.outcome = "m1-unsupported-instruction".into(); return out; },
            Err(e) => { out.outcome = "m1-error".into(); out.failure = Some(Failure { signature: format!("C02:{}:m1-error:{}", host.name, case.body), detail: detail(json!({"valuation": vi, "difficulty": d, "error": e, "instrs": fmt_instrs(&instrs)})) }); return out; },
            Ok(t) => t,
        };
        // translate the M1 trace into test-language terms
        let mut t2 = m1.clone();
        for c in &mut t2.log { let n = name_of_host_op.get(&c.opcode).cloned().unwrap_or_default(); c.opcode = name_of_test_op.iter().find(|(_, v)| **v == n).map(|(k, _)| *k).unwrap_or(0xFFFF); }
        t2.regs = map.iter().filter_map(|(t, h)| m1.regs.get(h).map(|v| (*t, v.clone()))).collect();
        if let Some(diff) = compare_traces(&src_trace, &t2, &mentioned, true) {
            out.outcome = "mismatch".into();
            out.failure = Some(Failure { signature: format!("C02:{}:behaviour:{}", host.name, case.body), detail: detail(json!({"valuation": vi, "difficulty": d, "diff": diff, "oracle": "AstVm(source) vs M1(written binary, table from the game's built-in mapfile data)", "instrs": fmt_instrs(&instrs)})) });
            return out;
        }
    }
    out.outcome = "compiled".into();
    out
}

fn c02_real(rep: &mut Report, thorough: bool) {
    use crate::drive::Kind;
    let deadline = rep.deadline();
    let test_table = Table::new(&TableCfg::FULL);
    let test_mapfile = test_table.mapfile_text(REGS);
    let vals = valuations();
    let (cases, _) = gen_cases(&test_table, if thorough { 3 } else { 2 }, 2, 2, 400_000);
    let n_full = crate::c01::hosts().len();
    for (hi, host) in crate::c01::hosts().into_iter().chain(crate::c01::all_game_hosts()).enumerate().filter(|(_, h)| h.regs.is_some()) {
        // the all-games hosts (every other game with a register language) take every 8th generated body
        let reduced = hi >= n_full;
        let lang = if host.tool.kind == Kind::Ecl { truth::LanguageKey::Ecl } else { truth::LanguageKey::Anm };
        let extra: Vec<(u16, &str, &str)> = [("m0", ""), ("mS", "S"), ("mf", "f"), ("mSS", "SS"), ("mSf", "Sf"), ("mfS", "fS"), ("mff", "ff"), ("mSSS", "SSS"), ("mfff", "fff"), ("mSfSf", "SfSf")].iter().enumerate().map(|(i, (n, s))| (host.op_base + i as u16, *n, *s)).collect();
        let host_table = Table::from_core(host.tool.game, lang, &extra, host.name == "ecl06");
        let usable: Vec<&Case> = cases.iter().enumerate().filter(|(i, _)| !reduced || i % 8 == 0).map(|(_, c)| c).filter(|c| host.has_difficulty || !(c.body.contains("{\"") || crate::c01::has_switch(&c.body))).collect();
        let results = par_map(&usable, Some(deadline), |_, c| check_real(&host, &host_table, &test_table, &test_mapfile, c, &vals));
        for (i, r) in results.into_iter().enumerate() {
            let Some(o) = r else { rep.cap_hit = Some(format!("wall cap in real-language family ({})", host.name)); continue; };
            rep.evaluations += 1 + o.execs; rep.traces_validated += o.execs; rep.states += 1;
            rep.outcome(&format!("real:{}:{}", host.name, o.outcome));
            if o.nontrivial && o.outcome == "compiled" { rep.nontrivial += 1; }
            if let Some(f) = o.failure { rep.failures.push(f); }
            if i % 1501 == 0 && o.outcome == "compiled" { rep.sample(json!({"family": "real", "host": host.name, "body": usable[i].body})); }
        }
    }
}
