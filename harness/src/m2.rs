//! M2: independent binary layout walkers (DESIGN §3.2).
//!
//! Minimal parsers of the on-disk container formats, written from the layouts.  They never call
//! into truth (the only thing taken from truth is the `Game` enum as a selector); they return
//! offsets, counts, ids and raw fields.  All reads are bounds-checked and return `Err(String)`.
//!
//! Conventions:
//! * all offsets in the returned structures are ABSOLUTE file offsets unless the field name says it is
//!   the raw value stored in the file (`offset`, `*_offset` fields of tables are raw values; the
//!   `abs`/`slot_offset`/`Instr::offset` ones are absolute).
//! * `field_offsets` lists `(name, absolute offset, width)` for every fixed-layout field (for
//!   field-targeted mutation).  Names repeat for repeated structures, in file/table order.
//! * `Instr::difficulty` is 0xFF where the format has no difficulty byte; this is the value of truth's
//!   `RawInstr::DEFAULTS.difficulty` (DEFAULT_DIFFICULTY_MASK_BYTE = 0xFF), so a walked `Instr` can be
//!   compared field by field with a `RawInstr`.
//! * `Instr::opcode` for the one-byte-opcode layouts (Anm06, Msg) is the byte SIGN-EXTENDED to 16 bits
//!   (0xFF -> 0xFFFF): the formats define it as a signed byte, and truth does the same (`read_i8 as u16`).
#![allow(dead_code)]

use truth::Game;

// =============================================================================================
// checked little-endian reads

fn get<'a>(b: &'a [u8], off: usize, n: usize, what: &str) -> Result<&'a [u8], String> {
    let end = off.checked_add(n).ok_or_else(|| format!("{what}: offset overflow at {off:#x}+{n:#x}"))?;
    b.get(off..end).ok_or_else(|| format!("{what}: need {n} bytes at {off:#x} but file has {:#x} bytes", b.len()))
}
fn u8_at(b: &[u8], off: usize, what: &str) -> Result<u8, String> { Ok(get(b, off, 1, what)?[0]) }
fn u16_at(b: &[u8], off: usize, what: &str) -> Result<u16, String> { let s = get(b, off, 2, what)?; Ok(u16::from_le_bytes([s[0], s[1]])) }
fn i16_at(b: &[u8], off: usize, what: &str) -> Result<i16, String> { Ok(u16_at(b, off, what)? as i16) }
fn u32_at(b: &[u8], off: usize, what: &str) -> Result<u32, String> { let s = get(b, off, 4, what)?; Ok(u32::from_le_bytes([s[0], s[1], s[2], s[3]])) }
fn i32_at(b: &[u8], off: usize, what: &str) -> Result<i32, String> { Ok(u32_at(b, off, what)? as i32) }
fn f32_at(b: &[u8], off: usize, what: &str) -> Result<f32, String> { Ok(f32::from_bits(u32_at(b, off, what)?)) }
fn add(a: usize, b: usize, what: &str) -> Result<usize, String> { a.checked_add(b).ok_or_else(|| format!("{what}: offset overflow")) }

pub type FieldOffsets = Vec<(&'static str, usize, usize)>;

/// Small cursor that records every field it reads into a `FieldOffsets`.
struct Cur<'a, 'f> { b: &'a [u8], pos: usize, fields: &'f mut FieldOffsets }
impl<'a, 'f> Cur<'a, 'f> {
    fn u8(&mut self, name: &'static str) -> Result<u8, String> { let v = u8_at(self.b, self.pos, name)?; self.fields.push((name, self.pos, 1)); self.pos += 1; Ok(v) }
    fn u16(&mut self, name: &'static str) -> Result<u16, String> { let v = u16_at(self.b, self.pos, name)?; self.fields.push((name, self.pos, 2)); self.pos += 2; Ok(v) }
    fn i16(&mut self, name: &'static str) -> Result<i16, String> { Ok(self.u16(name)? as i16) }
    fn u32(&mut self, name: &'static str) -> Result<u32, String> { let v = u32_at(self.b, self.pos, name)?; self.fields.push((name, self.pos, 4)); self.pos += 4; Ok(v) }
    fn i32(&mut self, name: &'static str) -> Result<i32, String> { Ok(self.u32(name)? as i32) }
    fn f32(&mut self, name: &'static str) -> Result<f32, String> { Ok(f32::from_bits(self.u32(name)?)) }
    fn bytes(&mut self, name: &'static str, n: usize) -> Result<&'a [u8], String> { let s = get(self.b, self.pos, n, name)?; self.fields.push((name, self.pos, n)); self.pos += n; Ok(s) }
}

// =============================================================================================
// instructions

#[derive(Debug, Clone, PartialEq)]
pub struct Instr {
    /// file offset where the instruction header starts
    pub offset: usize,
    /// total size in bytes incl. header
    pub size: usize,
    pub time: i32,
    pub opcode: u16,
    /// 0 where the format has none
    pub param_mask: u16,
    /// 0xFF where the format has none (= truth's RawInstr::DEFAULTS.difficulty)
    pub difficulty: u8,
    /// timeline arg0 where the format has it (Timeline06 only)
    pub extra_arg: Option<i16>,
    /// the argument blob exactly as in the file
    pub args: Vec<u8>,
}

/// The instruction header layouts.
///
/// | layout      | header                                                                  | terminal                                   |
/// |-------------|-------------------------------------------------------------------------|--------------------------------------------|
/// | Anm06, Msg  | time i16, opcode i8, argsize u8                          (4 bytes)       | 4 zero bytes; AMBIGUOUS (a real instr too) |
/// | Anm07       | opcode i16, size u16 (incl. hdr), time i16, param_mask u16 (8)           | opcode == -1 (written as ffff 0000 0000 0000) |
/// | Std06       | time i32, opcode i16, ARGsize u16 (always 12)            (8)             | opcode == -1 (written as 20 x ff)          |
/// | Std10       | time i32, opcode i16, size u16 (incl. hdr)               (8)             | opcode == -1 (written as 20 x ff)          |
/// | Ecl06/Ecl07 | time i32, opcode u16, size i16 (incl. hdr), zero u8, difficulty u8, param_mask u16 (12) | opcode == 0xffff, after reading `size` bytes |
/// | Timeline06  | time i16, arg0 i16, opcode u16, size u16 (incl. hdr)     (8)             | (time, arg0) == (-1, 4); only 4 bytes long |
/// | Timeline08  | time i32, opcode u16, size u8 (incl. hdr), difficulty u8 (8)             | (time,opcode,size,difficulty) == (-1,0,0,0); 8 bytes |
///
/// Ecl06 (TH06) and Ecl07 (TH07..TH095) have the same byte layout; they differ only in that the TH06
/// writer always stores param_mask = 0x00FF.  The walker returns what is in the file for both.
#[derive(Debug, Clone, Copy, PartialEq, Eq, Hash)]
pub enum InstrLayout { Anm06, Anm07, Std06, Std10, Msg, Ecl06, Ecl07, Timeline06, Timeline08 }

impl InstrLayout {
    pub fn header_size(self) -> usize {
        match self {
            InstrLayout::Anm06 | InstrLayout::Msg => 4,
            InstrLayout::Anm07 | InstrLayout::Std06 | InstrLayout::Std10 | InstrLayout::Timeline06 | InstrLayout::Timeline08 => 8,
            InstrLayout::Ecl06 | InstrLayout::Ecl07 => 12,
        }
    }
    /// true if the terminal instruction cannot be told from a real one (it only counts as terminal when the
    /// script ends right after it: at `end` or at EOF).
    pub fn ambiguous_terminal(self) -> bool { matches!(self, InstrLayout::Anm06 | InstrLayout::Msg) }
}

enum Step {
    Instr(Instr),
    /// all-zero instruction of the Anm06/Msg layouts
    MaybeTerminal(Instr),
    /// unambiguous terminal; `size` = number of bytes the canonical terminal occupies
    Terminal { size: usize },
    Eof,
}

fn read_one(b: &[u8], off: usize, layout: InstrLayout) -> Result<Step, String> {
    let hs = layout.header_size();
    let dflt = |time: i32, opcode: u16, size: usize, args: &[u8]| Instr {
        offset: off, size, time, opcode, param_mask: 0, difficulty: 0xFF, extra_arg: None, args: args.to_vec(),
    };
    match layout {
        InstrLayout::Anm06 | InstrLayout::Msg => {
            if off >= b.len() { return Ok(Step::Eof); }
            let time = i16_at(b, off, "instr time")? as i32;
            let opcode = u8_at(b, off + 2, "instr opcode")? as i8;
            let argsize = u8_at(b, off + 3, "instr argsize")? as usize;
            let args = get(b, off + 4, argsize, "instr args")?;
            let ins = dflt(time, opcode as i16 as u16, 4 + argsize, args);
            if time == 0 && opcode == 0 && argsize == 0 { Ok(Step::MaybeTerminal(ins)) } else { Ok(Step::Instr(ins)) }
        },
        InstrLayout::Anm07 => {
            let opcode = i16_at(b, off, "instr opcode")?;
            let size = u16_at(b, off + 2, "instr size")? as usize;
            if opcode == -1 { return Ok(Step::Terminal { size: 8 }); }
            let time = i16_at(b, off + 4, "instr time")? as i32;
            let mask = u16_at(b, off + 6, "instr param_mask")?;
            if size < hs { return Err(format!("instr at {off:#x}: size {size} < header size {hs}")); }
            let args = get(b, off + hs, size - hs, "instr args")?;
            let mut ins = dflt(time, opcode as u16, size, args);
            ins.param_mask = mask;
            Ok(Step::Instr(ins))
        },
        InstrLayout::Std06 | InstrLayout::Std10 => {
            let time = i32_at(b, off, "instr time")?;
            let opcode = i16_at(b, off + 4, "instr opcode")?;
            let sz = u16_at(b, off + 6, "instr size")? as usize;
            if opcode == -1 { return Ok(Step::Terminal { size: 20 }); }
            let argsize = if layout == InstrLayout::Std06 { sz } else {
                if sz < hs { return Err(format!("instr at {off:#x}: size {sz} < header size {hs}")); }
                sz - hs
            };
            let args = get(b, off + hs, argsize, "instr args")?;
            Ok(Step::Instr(dflt(time, opcode as u16, hs + argsize, args)))
        },
        InstrLayout::Ecl06 | InstrLayout::Ecl07 => {
            let time = i32_at(b, off, "instr time")?;
            let opcode = u16_at(b, off + 4, "instr opcode")?;
            let size = i16_at(b, off + 6, "instr size")?;
            let _zero = u8_at(b, off + 8, "instr byte before difficulty")?;
            let difficulty = u8_at(b, off + 9, "instr difficulty")?;
            let mask = u16_at(b, off + 10, "instr param_mask")?;
            if (size as i64) < hs as i64 { return Err(format!("instr at {off:#x}: size {size} < header size {hs}")); }
            let size = size as usize;
            let args = get(b, off + hs, size - hs, "instr args")?;
            if opcode == 0xFFFF { return Ok(Step::Terminal { size }); }
            let mut ins = dflt(time, opcode, size, args);
            ins.difficulty = difficulty;
            ins.param_mask = mask;
            Ok(Step::Instr(ins))
        },
        InstrLayout::Timeline06 => {
            let time = i16_at(b, off, "instr time")?;
            let arg0 = i16_at(b, off + 2, "instr arg0")?;
            if (time, arg0) == (-1, 4) { return Ok(Step::Terminal { size: 4 }); }
            let opcode = u16_at(b, off + 4, "instr opcode")?;
            // unsigned: the field holds the total size of instructions up to 65535 bytes (thtk: uint16_t size)
            let size = u16_at(b, off + 6, "instr size")? as usize;
            if size < hs { return Err(format!("instr at {off:#x}: size {size} < header size {hs}")); }
            let args = get(b, off + hs, size - hs, "instr args")?;
            let mut ins = dflt(time as i32, opcode, size, args);
            ins.extra_arg = Some(arg0);
            Ok(Step::Instr(ins))
        },
        InstrLayout::Timeline08 => {
            let time = i32_at(b, off, "instr time")?;
            let opcode = u16_at(b, off + 4, "instr opcode")?;
            let size = u8_at(b, off + 6, "instr size")? as usize;
            let difficulty = u8_at(b, off + 7, "instr difficulty")?;
            if (time, opcode, size, difficulty) == (-1, 0, 0, 0) { return Ok(Step::Terminal { size: 8 }); }
            if size < hs { return Err(format!("instr at {off:#x}: size {size} < header size {hs}")); }
            let args = get(b, off + hs, size - hs, "instr args")?;
            let mut ins = dflt(time, opcode, size, args);
            ins.difficulty = difficulty;
            Ok(Step::Instr(ins))
        },
    }
}

#[derive(Debug, Clone, Copy, PartialEq, Eq)]
pub enum Stop { Terminal, EndOffset, Eof }

#[derive(Debug, Clone, PartialEq)]
pub struct InstrWalk {
    /// terminal excluded
    pub instrs: Vec<Instr>,
    /// offset just past the terminal (clamped to the file length), or `end`, or the EOF position
    pub end: usize,
    /// (offset, size) of the terminal instruction that was consumed, if any
    pub terminal: Option<(usize, usize)>,
    pub stop: Stop,
}

/// Walk one script.
///
/// Script-end rule (the same for every format; the callers decide whether an `end` exists):
/// * an unambiguous terminal ends the script;
/// * reaching `end` exactly ends the script; stepping over `end` is an error;
/// * for the Anm06/Msg layouts an all-zero instruction is the terminal only if the script ends right
///   after it (at `end` or EOF); otherwise it is a real instruction (`ins_0()` at time 0).  EOF at an
///   instruction boundary ends the script in these layouts; in the others EOF is an error.
pub fn walk_instrs_ex(bytes: &[u8], start: usize, end: Option<usize>, layout: InstrLayout) -> Result<InstrWalk, String> {
    let mut instrs = vec![];
    let mut pending: Option<Instr> = None; // possible terminal
    let mut cur = start;
    loop {
        if let Some(end) = end {
            if cur == end { break; }
            if cur > end { return Err(format!("script starting at {start:#x} reads past its end {end:#x} (now at {cur:#x})")); }
        }
        match read_one(bytes, cur, layout)? {
            Step::Eof => {
                let terminal = pending.map(|p| (p.offset, p.size));
                return Ok(InstrWalk { instrs, end: cur, terminal, stop: Stop::Eof });
            },
            Step::Terminal { size } => {
                // (a pending all-zero instr cannot coexist with this: no layout has both kinds)
                if let Some(p) = pending.take() { instrs.push(p); }
                let e = add(cur, size, "terminal")?.min(bytes.len().max(cur));
                return Ok(InstrWalk { instrs, end: e, terminal: Some((cur, size)), stop: Stop::Terminal });
            },
            Step::Instr(i) => {
                if let Some(p) = pending.take() { instrs.push(p); }
                cur = add(cur, i.size, "instr")?;
                instrs.push(i);
            },
            Step::MaybeTerminal(i) => {
                if let Some(p) = pending.take() { instrs.push(p); }
                cur = add(cur, i.size, "instr")?;
                pending = Some(i);
            },
        }
    }
    let terminal = pending.map(|p| (p.offset, p.size));
    Ok(InstrWalk { instrs, end: cur, terminal, stop: Stop::EndOffset })
}

/// Walk instructions from `start` until the format's terminal instruction / `end` (exclusive) / EOF;
/// returns the instrs (terminal excluded) and the offset just past the terminal (or `end`).
pub fn walk_instrs(bytes: &[u8], start: usize, end: Option<usize>, layout: InstrLayout) -> Result<(Vec<Instr>, usize), String> {
    let w = walk_instrs_ex(bytes, start, end, layout)?;
    Ok((w.instrs, w.end))
}

/// Header + args; inverse of the walk.  `offset` and `size` of `ins` are ignored (the size field is
/// computed from `args.len()`); values are narrowed to the field widths by truncation.
pub fn build_instr(layout: InstrLayout, ins: &Instr) -> Vec<u8> {
    let argsize = ins.args.len();
    let size_field = match layout {
        InstrLayout::Anm06 | InstrLayout::Msg | InstrLayout::Std06 => argsize,
        _ => layout.header_size() + argsize,
    };
    build_instr_sized(layout, ins, size_field)
}

/// Like `build_instr` but with an explicit value for the size field (for hand-assembled malformed inputs).
pub fn build_instr_sized(layout: InstrLayout, ins: &Instr, size_field: usize) -> Vec<u8> {
    let mut o = vec![];
    match layout {
        InstrLayout::Anm06 | InstrLayout::Msg => {
            o.extend((ins.time as i16).to_le_bytes());
            o.push(ins.opcode as u8);
            o.push(size_field as u8);
        },
        InstrLayout::Anm07 => {
            o.extend(ins.opcode.to_le_bytes());
            o.extend((size_field as u16).to_le_bytes());
            o.extend((ins.time as i16).to_le_bytes());
            o.extend(ins.param_mask.to_le_bytes());
        },
        InstrLayout::Std06 | InstrLayout::Std10 => {
            o.extend(ins.time.to_le_bytes());
            o.extend(ins.opcode.to_le_bytes());
            o.extend((size_field as u16).to_le_bytes());
        },
        InstrLayout::Ecl06 | InstrLayout::Ecl07 => {
            o.extend(ins.time.to_le_bytes());
            o.extend(ins.opcode.to_le_bytes());
            o.extend((size_field as u16).to_le_bytes());
            o.push(0);
            o.push(ins.difficulty);
            o.extend(ins.param_mask.to_le_bytes());
        },
        InstrLayout::Timeline06 => {
            o.extend((ins.time as i16).to_le_bytes());
            o.extend(ins.extra_arg.unwrap_or(0).to_le_bytes());
            o.extend(ins.opcode.to_le_bytes());
            o.extend((size_field as u16).to_le_bytes());
        },
        InstrLayout::Timeline08 => {
            o.extend(ins.time.to_le_bytes());
            o.extend(ins.opcode.to_le_bytes());
            o.push(size_field as u8);
            o.push(ins.difficulty);
        },
    }
    o.extend_from_slice(&ins.args);
    o
}

/// The canonical terminal instruction of a layout (what the games' files contain).
pub fn build_terminal(layout: InstrLayout) -> Vec<u8> {
    match layout {
        InstrLayout::Anm06 | InstrLayout::Msg => vec![0; 4],
        InstrLayout::Anm07 => vec![0xff, 0xff, 0, 0, 0, 0, 0, 0],
        InstrLayout::Std06 | InstrLayout::Std10 => vec![0xff; 20],
        InstrLayout::Ecl06 | InstrLayout::Ecl07 => vec![0xff, 0xff, 0xff, 0xff, 0xff, 0xff, 12, 0, 0x00, 0xff, 0xff, 0x00],
        InstrLayout::Timeline06 => vec![0xff, 0xff, 4, 0],
        InstrLayout::Timeline08 => vec![0xff, 0xff, 0xff, 0xff, 0, 0, 0, 0],
    }
}

/// Convenience for assembling: a fresh `Instr` with the format-neutral defaults.
pub fn instr(time: i32, opcode: u16, args: &[u8]) -> Instr {
    Instr { offset: 0, size: 0, time, opcode, param_mask: 0, difficulty: 0xFF, extra_arg: None, args: args.to_vec() }
}

/// A C string zero-padded to a multiple of `block` bytes (at least one NUL), as used for ANM paths.
pub fn build_cstring_blocks(s: &[u8], block: usize) -> Vec<u8> {
    let mut o = s.to_vec();
    o.push(0);
    while o.len() % block != 0 { o.push(0); }
    o
}

// =============================================================================================
// ANM

#[derive(Debug, Clone, PartialEq)]
pub struct AnmSprite {
    /// absolute offset of the u32 slot in the sprite offset table
    pub slot_offset: usize,
    /// value of the slot (relative to the entry)
    pub offset: u32,
    /// absolute offset of the 20-byte sprite record
    pub abs: usize,
    pub id: u32,
    pub x: f32, pub y: f32, pub w: f32, pub h: f32,
}

#[derive(Debug, Clone, PartialEq)]
pub struct AnmScript {
    /// absolute offset of the (id i32, offset u32) slot in the script table
    pub slot_offset: usize,
    pub id: i32,
    /// value of the offset slot (relative to the entry)
    pub offset: u32,
    /// absolute offset of the first instruction
    pub abs: usize,
    /// the absolute end bound that was used (smallest other structure offset above the script), if any
    pub end_bound: Option<usize>,
    pub instrs: Vec<Instr>,
    /// absolute offset just past the terminal (or the bound)
    pub end: usize,
    pub terminal: Option<(usize, usize)>,
}

#[derive(Debug, Clone, PartialEq)]
pub struct Thtx {
    /// absolute offset of the "THTX" magic
    pub offset: usize,
    pub magic: [u8; 4],
    pub zero: u16, pub format: u16, pub width: u16, pub height: u16,
    pub size: u32,
    /// byte range of the pixel data in the file (clamped to the file length)
    pub data_start: usize, pub data_end: usize,
    /// false if the file ends before `size` bytes of data
    pub data_complete: bool,
}

#[derive(Debug, Clone, PartialEq)]
pub struct AnmEntry {
    /// absolute offset of the entry header
    pub offset: usize,
    pub old_header: bool,
    pub version: u32, pub num_sprites: u32, pub num_scripts: u32,
    pub rt_textureslot: u32,
    pub rt_width: u32, pub rt_height: u32, pub rt_format: u32,
    /// old header only (0 otherwise)
    pub colorkey: u32,
    pub name_offset: u32,
    /// old header only (0 otherwise)
    pub name2_offset: u32,
    /// new header only (0 otherwise)
    pub offset_x: u32, pub offset_y: u32,
    pub memory_priority: u32, pub thtx_offset: u32, pub has_data: u32,
    /// new header only (0 otherwise)
    pub low_res_scale: u32,
    pub next_offset: u32,
    /// the unused/padding words of the header, in file order (old: unused_1, unused_2(u16), unused_3; new: 6 padding dwords)
    pub unused: Vec<u32>,
    /// path bytes without the trailing NULs
    pub path: Vec<u8>, pub path2: Option<Vec<u8>>,
    pub sprites: Vec<AnmSprite>,
    pub scripts: Vec<AnmScript>,
    pub thtx: Option<Thtx>,
    pub field_offsets: FieldOffsets,
}

/// The 64-byte header comes in two shapes: TH06..TH10 + alcostg (versions 0,2,3,4) use the all-dword "old"
/// header; TH11 and later (versions 7, 8) the packed "new" one.
pub fn anm_has_old_header(game: Game) -> bool {
    matches!(game, Game::Th06 | Game::Th07 | Game::Th08 | Game::Th09 | Game::Th095 | Game::Th10 | Game::Alcostg)
}
pub fn anm_instr_layout(game: Game) -> InstrLayout { if game == Game::Th06 { InstrLayout::Anm06 } else { InstrLayout::Anm07 } }
/// The `version` header field written for a game.
pub fn anm_version(game: Game) -> u32 {
    match game {
        Game::Th06 => 0, Game::Th07 => 2, Game::Th08 | Game::Th09 => 3,
        Game::Th095 | Game::Th10 | Game::Alcostg => 4,
        Game::Th11 | Game::Th12 | Game::Th125 | Game::Th128 => 7,
        _ => 8,
    }
}

/// Reads a NUL-terminated string stored in zero-padded 16-byte blocks: blocks are consumed until one ends
/// in NUL.  Returns (bytes without trailing NULs, number of bytes occupied).
fn read_block_string(b: &[u8], off: usize, what: &str) -> Result<(Vec<u8>, usize), String> {
    let mut n = 0;
    loop {
        let blk = get(b, add(off, n, what)?, 16, what)?;
        n += 16;
        if blk[15] == 0 { break; }
    }
    let mut s = b[off..off + n].to_vec();
    while s.last() == Some(&0) { s.pop(); }
    Ok((s, n))
}

/// Entries are chained by `next_offset` (relative to the entry; 0 = last).
///
/// Script end: ANM scripts have a terminal instruction, but TH06's is ambiguous and TH095 has files without
/// one, so every script is also bounded by the smallest offset (relative to the entry) of another structure
/// of the entry that lies above the script start: name, name2, THTX, any sprite, any script, and the next
/// entry (`next_offset`).  NOTE: truth's reader uses the same list EXCEPT `next_offset`; for a TH06 file with
/// several entries and no THTX it therefore runs from the last script of an entry into the next entry's
/// header (see selftest, case "anm th06 2 entries").
pub fn walk_anm(bytes: &[u8], game: Game) -> Result<Vec<AnmEntry>, String> {
    let old = anm_has_old_header(game);
    let layout = anm_instr_layout(game);
    let mut entries = vec![];
    let mut seen = std::collections::BTreeSet::new();
    let mut pos = 0usize;
    loop {
        if !seen.insert(pos) { return Err(format!("loop in entries at {pos:#x}")); }
        let e = walk_anm_entry(bytes, pos, old, layout)?;
        let next = e.next_offset;
        entries.push(e);
        if next == 0 { break; }
        pos = add(pos, next as usize, "next_offset")?;
    }
    Ok(entries)
}

fn walk_anm_entry(b: &[u8], pos: usize, old: bool, layout: InstrLayout) -> Result<AnmEntry, String> {
    let mut fields: FieldOffsets = vec![];
    let mut c = Cur { b, pos, fields: &mut fields };
    let mut e = AnmEntry {
        offset: pos, old_header: old, version: 0, num_sprites: 0, num_scripts: 0, rt_textureslot: 0, rt_width: 0, rt_height: 0,
        rt_format: 0, colorkey: 0, name_offset: 0, name2_offset: 0, offset_x: 0, offset_y: 0, memory_priority: 0, thtx_offset: 0,
        has_data: 0, low_res_scale: 0, next_offset: 0, unused: vec![], path: vec![], path2: None, sprites: vec![], scripts: vec![],
        thtx: None, field_offsets: vec![],
    };
    if old {
        e.num_sprites = c.u32("num_sprites")?;
        e.num_scripts = c.u32("num_scripts")?;
        e.rt_textureslot = c.u32("rt_textureslot")?;
        e.rt_width = c.u32("rt_width")?;
        e.rt_height = c.u32("rt_height")?;
        e.rt_format = c.u32("rt_format")?;
        e.colorkey = c.u32("colorkey")?;
        e.name_offset = c.u32("name_offset")?;
        e.unused.push(c.u32("unused_1")?);
        e.name2_offset = c.u32("name2_offset")?;
        e.version = c.u32("version")?;
        e.memory_priority = c.u32("memory_priority")?;
        e.thtx_offset = c.u32("thtx_offset")?;
        e.has_data = c.u16("has_data")? as u32;
        e.unused.push(c.u16("unused_2")? as u32);
        e.next_offset = c.u32("next_offset")?;
        e.unused.push(c.u32("unused_3")?);
    } else {
        e.version = c.u32("version")?;
        e.num_sprites = c.u16("num_sprites")? as u32;
        e.num_scripts = c.u16("num_scripts")? as u32;
        e.rt_textureslot = c.u16("rt_textureslot")? as u32;
        e.rt_width = c.u16("rt_width")? as u32;
        e.rt_height = c.u16("rt_height")? as u32;
        e.rt_format = c.u16("rt_format")? as u32;
        e.name_offset = c.u32("name_offset")?;
        e.offset_x = c.u16("offset_x")? as u32;
        e.offset_y = c.u16("offset_y")? as u32;
        e.memory_priority = c.u32("memory_priority")?;
        e.thtx_offset = c.u32("thtx_offset")?;
        e.has_data = c.u16("has_data")? as u32;
        e.low_res_scale = c.u16("low_res_scale")? as u32;
        e.next_offset = c.u32("next_offset")?;
        for _ in 0..6 { e.unused.push(c.u32("header_padding")?); }
    }
    debug_assert_eq!(c.pos, pos + 64);

    // tables: check the extent before allocating anything
    let table_bytes = (e.num_sprites as usize).checked_mul(4).and_then(|a| (e.num_scripts as usize).checked_mul(8).and_then(|s| a.checked_add(s)))
        .ok_or_else(|| "table size overflow".to_string())?;
    get(b, c.pos, table_bytes, "sprite/script tables")?;
    let mut sprite_slots = vec![];
    for _ in 0..e.num_sprites { let so = c.pos; sprite_slots.push((so, c.u32("sprite_table.offset")?)); }
    let mut script_slots = vec![];
    for _ in 0..e.num_scripts { let so = c.pos; let id = c.i32("script_table.id")?; let off = c.u32("script_table.offset")?; script_slots.push((so, id, off)); }

    let (path, n) = read_block_string(b, add(pos, e.name_offset as usize, "name_offset")?, "path")?;
    c.fields.push(("path", pos + e.name_offset as usize, n));
    e.path = path;
    if old && e.name2_offset != 0 {
        let (p2, n) = read_block_string(b, add(pos, e.name2_offset as usize, "name2_offset")?, "path2")?;
        c.fields.push(("path2", pos + e.name2_offset as usize, n));
        e.path2 = Some(p2);
    }

    for &(slot_offset, offset) in &sprite_slots {
        let abs = add(pos, offset as usize, "sprite offset")?;
        let mut s = Cur { b, pos: abs, fields: &mut *c.fields };
        let sp = AnmSprite { slot_offset, offset, abs, id: s.u32("sprite.id")?, x: s.f32("sprite.x")?, y: s.f32("sprite.y")?, w: s.f32("sprite.w")?, h: s.f32("sprite.h")? };
        e.sprites.push(sp);
    }

    let mut bounds: Vec<u32> = vec![e.name_offset];
    if e.thtx_offset != 0 { bounds.push(e.thtx_offset); }
    if old && e.name2_offset != 0 { bounds.push(e.name2_offset); }
    if e.next_offset != 0 { bounds.push(e.next_offset); }
    bounds.extend(sprite_slots.iter().map(|s| s.1));
    bounds.extend(script_slots.iter().map(|s| s.2));
    for &(slot_offset, id, offset) in &script_slots {
        let abs = add(pos, offset as usize, "script offset")?;
        let end_bound = bounds.iter().copied().filter(|&x| x > offset).min().map(|x| pos + x as usize);
        let w = walk_instrs_ex(b, abs, end_bound, layout).map_err(|m| format!("entry at {pos:#x}, script at {abs:#x}: {m}"))?;
        e.scripts.push(AnmScript { slot_offset, id, offset, abs, end_bound, instrs: w.instrs, end: w.end, terminal: w.terminal });
    }

    if e.thtx_offset != 0 {
        let t = add(pos, e.thtx_offset as usize, "thtx_offset")?;
        let mut s = Cur { b, pos: t, fields: &mut *c.fields };
        let m = s.bytes("thtx.magic", 4)?;
        let magic = [m[0], m[1], m[2], m[3]];
        let zero = s.u16("thtx.zero")?;
        let format = s.u16("thtx.format")?;
        let width = s.u16("thtx.width")?;
        let height = s.u16("thtx.height")?;
        let size = s.u32("thtx.size")?;
        let data_start = s.pos;
        let want_end = add(data_start, size as usize, "thtx data")?;
        let data_end = want_end.min(b.len()).max(data_start.min(b.len()));
        e.thtx = Some(Thtx { offset: t, magic, zero, format, width, height, size, data_start, data_end, data_complete: want_end <= b.len() });
    }
    e.field_offsets = fields;
    Ok(e)
}

// =============================================================================================
// STD

#[derive(Debug, Clone, PartialEq)]
pub struct StdQuad {
    pub offset: usize,
    /// 0 = rect (size 0x1c: pos xyz, size wh), 1 = strip (size 0x24: start xyz, end xyz, width; TH08/TH09)
    pub kind: i16,
    /// the size field (incl. the 8-byte quad header)
    pub size: u16,
    pub anm_script: u16,
    /// the word after anm_script (zero in files; an index at run time)
    pub index: u16,
    /// all whole dwords after the 8-byte quad header, as floats
    pub floats: Vec<f32>,
    /// the quad's bytes, header included
    pub raw: Vec<u8>,
}

#[derive(Debug, Clone, PartialEq)]
pub struct StdObject {
    /// absolute offset of the u32 slot in the object offset table, and its value
    pub slot_offset: usize, pub table_offset: u32,
    /// absolute offset of the object record
    pub offset: usize,
    pub id: u16, pub layer: u16,
    pub pos: [f32; 3], pub size: [f32; 3],
    pub quads: Vec<StdQuad>,
    /// offset and size field of the terminal quad (kind -1)
    pub quad_terminal: (usize, u16),
    /// absolute offset just past the terminal quad
    pub end: usize,
}

#[derive(Debug, Clone, PartialEq)]
pub struct StdInstance { pub offset: usize, pub object_id: u16, pub unknown: u16, pub pos: [f32; 3] }

#[derive(Debug, Clone, PartialEq)]
pub struct StdWalk {
    pub num_objects: u16,
    /// header field: total number of quads in all objects
    pub num_quads: u16,
    pub instances_offset: u32, pub script_offset: u32, pub unknown: u32,
    /// TH06..TH09: 9 strings of 128 bytes (stage_name, bgm names 0..3, bgm paths 0..3); TH095+: 1 (anm_path).  Raw 128 bytes each.
    pub strings: Vec<Vec<u8>>,
    pub objects: Vec<StdObject>,
    pub instances: Vec<StdInstance>,
    /// offset of the terminal instance record (object_id 0xffff)
    pub instances_terminal: usize,
    pub script: Vec<Instr>,
    pub script_end: usize,
    pub script_terminal: Option<(usize, usize)>,
    pub field_offsets: FieldOffsets,
}

pub fn std_is_06_format(game: Game) -> bool { matches!(game, Game::Th06 | Game::Th07 | Game::Th08 | Game::Th09) }
pub fn std_instr_layout(game: Game) -> InstrLayout { if std_is_06_format(game) { InstrLayout::Std06 } else { InstrLayout::Std10 } }

/// Trim a fixed-size string field at its first NUL.
pub fn trim_nul(s: &[u8]) -> &[u8] { &s[..s.iter().position(|&c| c == 0).unwrap_or(s.len())] }

/// Layout: header (num_objects u16, num_quads u16, instances_offset u32, script_offset u32, unknown u32),
/// 128-byte strings, object offset table, then (by offset) objects, instances and the script.
/// Objects: id u16, layer u16, pos 3f, size 3f, quads until a quad of kind -1.
/// Instances: 16-byte records (object_id u16, unknown u16, pos 3f) until object_id == 0xffff.
/// The script runs to its terminal instruction (opcode -1); there is no end bound.
pub fn walk_std(bytes: &[u8], game: Game) -> Result<StdWalk, String> {
    let b = bytes;
    let mut fields: FieldOffsets = vec![];
    let mut c = Cur { b, pos: 0, fields: &mut fields };
    let num_objects = c.u16("num_objects")?;
    let num_quads = c.u16("num_quads")?;
    let instances_offset = c.u32("instances_offset")?;
    let script_offset = c.u32("script_offset")?;
    let unknown = c.u32("unknown")?;
    let mut strings = vec![];
    if std_is_06_format(game) {
        strings.push(c.bytes("stage_name", 128)?.to_vec());
        for _ in 0..4 { strings.push(c.bytes("bgm_name", 128)?.to_vec()); }
        for _ in 0..4 { strings.push(c.bytes("bgm_path", 128)?.to_vec()); }
    } else {
        strings.push(c.bytes("anm_path", 128)?.to_vec());
    }
    get(b, c.pos, num_objects as usize * 4, "object offset table")?;
    let mut slots = vec![];
    for _ in 0..num_objects { let so = c.pos; slots.push((so, c.u32("object_table.offset")?)); }

    let mut objects = vec![];
    for &(slot_offset, table_offset) in &slots {
        let offset = table_offset as usize;
        let mut o = Cur { b, pos: offset, fields: &mut *c.fields };
        let id = o.u16("object.id")?;
        let layer = o.u16("object.layer")?;
        let pos = [o.f32("object.pos")?, o.f32("object.pos")?, o.f32("object.pos")?];
        let size = [o.f32("object.size")?, o.f32("object.size")?, o.f32("object.size")?];
        let mut quads = vec![];
        let quad_terminal;
        loop {
            let qoff = o.pos;
            let kind = o.i16("quad.kind")?;
            let qsize = o.u16("quad.size")?;
            if kind == -1 { quad_terminal = (qoff, qsize); break; }
            if qsize < 8 { return Err(format!("quad at {qoff:#x}: size {qsize} < 8")); }
            let anm_script = o.u16("quad.anm_script")?;
            let index = o.u16("quad.index")?;
            let raw = get(b, qoff, qsize as usize, "quad")?.to_vec();
            let mut floats = vec![];
            while o.pos + 4 <= qoff + qsize as usize { floats.push(o.f32("quad.float")?); }
            o.pos = qoff + qsize as usize;
            quads.push(StdQuad { offset: qoff, kind, size: qsize, anm_script, index, floats, raw });
        }
        let end = o.pos;
        objects.push(StdObject { slot_offset, table_offset, offset, id, layer, pos, size, quads, quad_terminal, end });
    }

    let mut instances = vec![];
    let mut i = Cur { b, pos: instances_offset as usize, fields: &mut *c.fields };
    let instances_terminal;
    loop {
        let offset = i.pos;
        let object_id = i.u16("instance.object_id")?;
        let unk = i.u16("instance.unknown")?;
        if object_id == 0xffff { instances_terminal = offset; break; }
        let pos = [i.f32("instance.pos")?, i.f32("instance.pos")?, i.f32("instance.pos")?];
        instances.push(StdInstance { offset, object_id, unknown: unk, pos });
    }

    let w = walk_instrs_ex(b, script_offset as usize, None, std_instr_layout(game)).map_err(|m| format!("script: {m}"))?;
    Ok(StdWalk {
        num_objects, num_quads, instances_offset, script_offset, unknown, strings, objects, instances, instances_terminal,
        script: w.instrs, script_end: w.end, script_terminal: w.terminal, field_offsets: fields,
    })
}

// =============================================================================================
// MSG (stage MSG and ending MSG share the container and the instruction layout)

#[derive(Debug, Clone, PartialEq)]
pub struct MsgTableEntry { pub slot_offset: usize, pub script_offset: u32, pub flags: Option<u32> }

#[derive(Debug, Clone, PartialEq)]
pub struct MsgWalk {
    pub table_len: u32,
    pub table: Vec<MsgTableEntry>,
    /// one per DISTINCT nonzero script offset, sorted by offset: (start, instrs, end)
    pub scripts: Vec<(usize, Vec<Instr>, usize)>,
    /// per script: the terminal consumed (offset, size), if any
    pub terminals: Vec<Option<(usize, usize)>>,
    pub field_offsets: FieldOffsets,
}

/// The table has a flags dword per entry from TH09 on.
pub fn msg_table_has_flags(game: Game) -> bool { !matches!(game, Game::Th06 | Game::Th07 | Game::Th08) }

/// Layout: count u32, then per entry offset u32 (+ flags u32 from TH09).  Offset 0 = no script.
/// Script end: the terminal is ambiguous (4 zero bytes = `ins_0()` at time 0), so a script ends at the next
/// larger distinct script offset, and the last one at EOF.  `ending` does not change the layout.
pub fn walk_msg(bytes: &[u8], game: Game, ending: bool) -> Result<MsgWalk, String> {
    let _ = ending;
    let b = bytes;
    let mut fields: FieldOffsets = vec![];
    let mut c = Cur { b, pos: 0, fields: &mut fields };
    let table_len = c.u32("table_len")?;
    let has_flags = msg_table_has_flags(game);
    let per = if has_flags { 8 } else { 4 };
    let total = (table_len as usize).checked_mul(per).ok_or_else(|| "table size overflow".to_string())?;
    get(b, c.pos, total, "script table")?;
    let mut table = vec![];
    for _ in 0..table_len {
        let slot_offset = c.pos;
        let script_offset = c.u32("table.offset")?;
        let flags = if has_flags { Some(c.u32("table.flags")?) } else { None };
        table.push(MsgTableEntry { slot_offset, script_offset, flags });
    }
    let distinct: std::collections::BTreeSet<u32> = table.iter().map(|e| e.script_offset).filter(|&o| o != 0).collect();
    let distinct: Vec<u32> = distinct.into_iter().collect();
    let mut scripts = vec![];
    let mut terminals = vec![];
    for (k, &off) in distinct.iter().enumerate() {
        let end = distinct.get(k + 1).map(|&e| e as usize);
        let w = walk_instrs_ex(b, off as usize, end, InstrLayout::Msg).map_err(|m| format!("script at {off:#x}: {m}"))?;
        scripts.push((off as usize, w.instrs, w.end));
        terminals.push(w.terminal);
    }
    Ok(MsgWalk { table_len, table, scripts, terminals, field_offsets: fields })
}

// =============================================================================================
// mission.msg (TH095, TH125)

#[derive(Debug, Clone, PartialEq)]
pub struct MissionEntry {
    pub offset: usize,
    pub stage: u16, pub scene: u16,
    /// TH125 only (0 for TH095)
    pub player: u16, pub unknown_1: u8, pub unknown_2: u8,
    /// TH095 only (0 for TH125)
    pub face: u32,
    /// TH095: [point]; TH125: [point_1, point_2]
    pub points: Vec<u32>,
    /// TH125: 3 pairs flattened (6 values); TH095: empty
    pub furigana: Vec<u32>,
    /// the 64-byte text lines exactly as in the file (masked); 3 for TH095, 6 for TH125
    pub text_raw: Vec<Vec<u8>>,
    /// DERIVED: the lines with the additive mask removed (still 64 bytes, NUL padded).
    /// mask byte k of line n: m_0 = 7*stage + 11*scene + 13*player + 58, v_0 = 23*(n+1); m_{k+1} = m_k + v_k, v_{k+1} = v_k + 1 (all mod 256);
    /// plain = raw + m (mod 256).
    pub text_plain: Vec<Vec<u8>>,
}

#[derive(Debug, Clone, PartialEq)]
pub struct MissionWalk {
    pub num_entries: u32,
    /// the offset table (raw values).  Entries are nevertheless stored back to back right after the table,
    /// and that is where they are read from (truth does the same and only warns about odd table values).
    pub table: Vec<u32>,
    pub entries: Vec<MissionEntry>,
    pub end: usize,
    pub field_offsets: FieldOffsets,
}

pub fn mission_entry_size(game: Game) -> Result<usize, String> {
    match game { Game::Th095 => Ok(12 + 64 * 3), Game::Th125 => Ok(40 + 64 * 6), g => Err(format!("no mission.msg in {}", g.as_str())) }
}

pub fn mission_unmask(stage: u16, scene: u16, player: u16, line: usize, raw: &[u8]) -> Vec<u8> {
    let mut m = (7u32 * (stage as u8 as u32) + 11 * (scene as u8 as u32) + 13 * (player as u8 as u32) + 58) as u8;
    let mut v = (23u32 * ((line as u8).wrapping_add(1) as u32)) as u8;
    raw.iter().map(|&r| { let p = r.wrapping_add(m); m = m.wrapping_add(v); v = v.wrapping_add(1); p }).collect()
}

pub fn walk_mission(bytes: &[u8], game: Game) -> Result<MissionWalk, String> {
    let esize = mission_entry_size(game)?;
    let b = bytes;
    let mut fields: FieldOffsets = vec![];
    let mut c = Cur { b, pos: 0, fields: &mut fields };
    let num_entries = c.u32("num_entries")?;
    let total = (num_entries as usize).checked_mul(4 + esize).ok_or_else(|| "size overflow".to_string())?;
    get(b, c.pos, total, "offset table and entries")?;
    let mut table = vec![];
    for _ in 0..num_entries { table.push(c.u32("table.offset")?); }
    let mut entries = vec![];
    for _ in 0..num_entries {
        let offset = c.pos;
        let stage = c.u16("entry.stage")?;
        let scene = c.u16("entry.scene")?;
        let (mut player, mut unknown_1, mut unknown_2, mut face) = (0, 0, 0, 0);
        let (mut points, mut furigana) = (vec![], vec![]);
        let nlines;
        if game == Game::Th095 {
            face = c.u32("entry.face")?;
            points.push(c.u32("entry.point")?);
            nlines = 3;
        } else {
            player = c.u16("entry.player")?;
            unknown_1 = c.u8("entry.unknown_1")?;
            unknown_2 = c.u8("entry.unknown_2")?;
            points.push(c.u32("entry.point_1")?);
            points.push(c.u32("entry.point_2")?);
            for _ in 0..6 { furigana.push(c.u32("entry.furigana")?); }
            nlines = 6;
        }
        let mut text_raw = vec![];
        let mut text_plain = vec![];
        for line in 0..nlines {
            let raw = c.bytes("entry.text", 64)?.to_vec();
            text_plain.push(mission_unmask(stage, scene, player, line, &raw));
            text_raw.push(raw);
        }
        debug_assert_eq!(c.pos, offset + esize);
        entries.push(MissionEntry { offset, stage, scene, player, unknown_1, unknown_2, face, points, furigana, text_raw, text_plain });
    }
    let end = c.pos;
    Ok(MissionWalk { num_entries, table, entries, end, field_offsets: fields })
}

// =============================================================================================
// old ECL (TH06, TH07, TH08, TH09, TH095)

#[derive(Debug, Clone, PartialEq)]
pub struct EclWalk {
    /// TH08/TH095: 0x800, TH09: 0x900, none in TH06/TH07
    pub magic: Option<u32>,
    pub num_subs: u16,
    /// the word after num_subs: TH06 zero; TH07/TH08/TH095 number of timelines; TH09 length of the timeline array
    pub num_timelines_field: u16,
    /// the timeline offset array as stored (TH06: 3 slots, TH07/08/095: 16 slots, TH09: `num_timelines_field` slots)
    pub timeline_offsets: Vec<u32>,
    pub sub_offsets: Vec<u32>,
    /// how many leading slots of `timeline_offsets` are timelines: the nonzero prefix, minus one in TH07/08/095 where
    /// the last nonzero slot holds the end-of-file offset
    pub num_timelines: usize,
    pub subs: Vec<Vec<Instr>>,
    pub timelines: Vec<Vec<Instr>>,
    /// offsets just past each sub's / timeline's terminal
    pub sub_ends: Vec<usize>, pub timeline_ends: Vec<usize>,
    pub sub_layout: InstrLayout, pub timeline_layout: InstrLayout,
    pub field_offsets: FieldOffsets,
}

pub fn ecl_sub_layout(game: Game) -> InstrLayout { if game == Game::Th06 { InstrLayout::Ecl06 } else { InstrLayout::Ecl07 } }
pub fn ecl_timeline_layout(game: Game) -> InstrLayout { if matches!(game, Game::Th06 | Game::Th07) { InstrLayout::Timeline06 } else { InstrLayout::Timeline08 } }

/// Layout: [magic u32], num_subs u16, timelines word u16, timeline offset array, sub offset array; subs and
/// timelines each run to their terminal instruction (no end bounds are used).
pub fn walk_ecl(bytes: &[u8], game: Game) -> Result<EclWalk, String> {
    let (magic_expected, tl_slots, last_is_eof): (Option<u32>, Option<usize>, bool) = match game {
        Game::Th06 => (None, Some(3), false),
        Game::Th07 => (None, Some(16), true),
        Game::Th08 | Game::Th095 => (Some(0x800), Some(16), true),
        Game::Th09 => (Some(0x900), None, false),
        g => return Err(format!("walk_ecl: {} is not an old-format ECL game", g.as_str())),
    };
    let b = bytes;
    let mut fields: FieldOffsets = vec![];
    let mut c = Cur { b, pos: 0, fields: &mut fields };
    let magic = match magic_expected { Some(_) => Some(c.u32("magic")?), None => None };
    let num_subs = c.u16("num_subs")?;
    let num_timelines_field = c.u16("num_timelines")?;
    let slots = tl_slots.unwrap_or(num_timelines_field as usize);
    get(b, c.pos, (slots + num_subs as usize) * 4, "offset tables")?;
    let mut timeline_offsets = vec![];
    for _ in 0..slots { timeline_offsets.push(c.u32("timeline_table.offset")?); }
    let mut sub_offsets = vec![];
    for _ in 0..num_subs { sub_offsets.push(c.u32("sub_table.offset")?); }
    let prefix = timeline_offsets.iter().position(|&x| x == 0).unwrap_or(timeline_offsets.len());
    let num_timelines = if last_is_eof { prefix.saturating_sub(1) } else { prefix };

    let (sub_layout, timeline_layout) = (ecl_sub_layout(game), ecl_timeline_layout(game));
    let (mut subs, mut sub_ends, mut timelines, mut timeline_ends) = (vec![], vec![], vec![], vec![]);
    for (k, &off) in sub_offsets.iter().enumerate() {
        let w = walk_instrs_ex(b, off as usize, None, sub_layout).map_err(|m| format!("sub {k} at {off:#x}: {m}"))?;
        subs.push(w.instrs); sub_ends.push(w.end);
    }
    for (k, &off) in timeline_offsets[..num_timelines].iter().enumerate() {
        let w = walk_instrs_ex(b, off as usize, None, timeline_layout).map_err(|m| format!("timeline {k} at {off:#x}: {m}"))?;
        timelines.push(w.instrs); timeline_ends.push(w.end);
    }
    Ok(EclWalk {
        magic, num_subs, num_timelines_field, timeline_offsets, sub_offsets, num_timelines, subs, timelines, sub_ends, timeline_ends,
        sub_layout, timeline_layout, field_offsets: fields,
    })
}

// =============================================================================================
// selftest: cross-check the walkers against truth's own readers on the unchanged tree

use std::io::Cursor;
use truth::io::BinReader;
use truth::llir::RawInstr;
use crate::drive::{self, CompileOpts, Kind, Tool};

/// collects disagreements for one file
struct Cmp { errs: Vec<String>, n: usize }
impl Cmp {
    fn new() -> Cmp { Cmp { errs: vec![], n: 0 } }
    fn eq<T: PartialEq + std::fmt::Debug>(&mut self, what: &str, walker: T, truth: T) {
        self.n += 1;
        if walker != truth && self.errs.len() < 8 { self.errs.push(format!("{what}: walker {walker:?} != truth {truth:?}")); }
    }
    fn fail(&mut self, msg: String) { self.errs.push(msg); }
}

type InstrKey = (i32, u16, u16, u8, Option<i16>, Vec<u8>);
fn key_m2(i: &Instr) -> InstrKey { (i.time, i.opcode, i.param_mask, i.difficulty, i.extra_arg, i.args.clone()) }
fn key_truth(i: &RawInstr) -> InstrKey { (i.time, i.opcode, i.param_mask, i.difficulty, i.extra_arg, i.args_blob.clone()) }

fn cmp_instrs(c: &mut Cmp, what: &str, mine: &[Instr], theirs: &[RawInstr]) {
    c.eq(&format!("{what}: instr count"), mine.len(), theirs.len());
    for (k, (a, b)) in mine.iter().zip(theirs).enumerate() {
        c.eq(&format!("{what}: instr {k}"), key_m2(a), key_truth(b));
        c.eq(&format!("{what}: instr {k} pop/arg_count"), (0u8, 0u8), (b.pop, b.arg_count));
    }
}

/// builder/walker inverse check + contiguity, on walked instructions
fn check_rebuild(c: &mut Cmp, what: &str, bytes: &[u8], layout: InstrLayout, instrs: &[Instr], terminal: Option<(usize, usize)>) {
    let mut expect_off = instrs.first().map(|i| i.offset);
    for (k, i) in instrs.iter().enumerate() {
        c.eq(&format!("{what}: instr {k} contiguous offset"), Some(i.offset), expect_off);
        expect_off = Some(i.offset + i.size);
        let rebuilt = build_instr(layout, i);
        let orig = bytes.get(i.offset..i.offset + i.size).map(|s| s.to_vec());
        // (the old-ECL header has one byte that is not part of `Instr`: compare with it zeroed)
        c.eq(&format!("{what}: instr {k} build_instr == file bytes"), Some(rebuilt), orig);
    }
    if let Some((off, size)) = terminal {
        let t = build_terminal(layout);
        let n = t.len().min(size).min(bytes.len().saturating_sub(off));
        if matches!(layout, InstrLayout::Anm07) {
            c.eq(&format!("{what}: terminal opcode"), &bytes[off..off + 2], &t[..2]);
        } else {
            c.eq(&format!("{what}: terminal bytes"), &bytes[off..off + n], &t[..n]);
        }
    }
}

fn check_fields(c: &mut Cmp, what: &str, bytes: &[u8], fields: &FieldOffsets) {
    for &(name, off, w) in fields {
        if w == 0 || off.checked_add(w).map_or(true, |e| e > bytes.len()) { c.fail(format!("{what}: field {name} at {off:#x}+{w} outside file")); }
    }
    c.eq(&format!("{what}: has field offsets"), fields.is_empty(), false);
}

fn sjis(b: &[u8]) -> String { encoding_rs::SHIFT_JIS.decode_without_bom_handling(b).0.into_owned() }

/// run one of truth's readers on `bytes`; Err = (rendered diagnostics or panic text)
fn truth_read<T>(name: &str, bytes: &[u8], f: impl FnOnce(&mut BinReader) -> Result<T, truth::ErrorReported>) -> Result<T, String> {
    let mut scope = truth::Builder::new().capture_diagnostics(true).build();
    let mut truth = scope.truth();
    let r = crate::common::catch(|| {
        let emitter = truth.ctx().emitter;
        let mut r = BinReader::from_reader(emitter, name, Cursor::new(bytes.to_vec()));
        f(&mut r).map_err(|e| e.ignore())
    });
    let diag = truth.get_captured_diagnostics().unwrap_or_default();
    let first = diag.lines().find(|l| l.starts_with("error") || l.starts_with("bug")).unwrap_or("").to_string();
    match r {
        Ok(Ok(v)) => Ok(v),
        Ok(Err(())) => Err(format!("truth reader failed: {first}")),
        Err(p) => Err(format!("truth reader panicked: {}", p.text)),
    }
}

fn f3(a: [f32; 3]) -> [u32; 3] { [a[0].to_bits(), a[1].to_bits(), a[2].to_bits()] }

fn cmp_anm(c: &mut Cmp, bytes: &[u8], game: Game, w: &[AnmEntry], t: &truth::AnmFile) {
    let layout = anm_instr_layout(game);
    c.eq("entry count", w.len(), t.entries.len());
    let mut next_auto = 0u32; // sprite auto-numbering across entries (an omitted id = previous + 1)
    for (k, (m, e)) in w.iter().zip(&t.entries).enumerate() {
        let p = format!("entry {k}");
        check_fields(c, &p, bytes, &m.field_offsets);
        c.eq(&format!("{p}: version"), m.version, anm_version(game));
        c.eq(&format!("{p}: path"), sjis(&m.path), e.path.value.clone());
        c.eq(&format!("{p}: path2"), m.path2.as_ref().map(|x| sjis(x)), e.path_2.as_ref().map(|x| x.value.clone()));
        let s = &e.specs;
        c.eq(&format!("{p}: rt w/h/format/colorkey"), (m.rt_width, m.rt_height, m.rt_format, m.colorkey), (s.rt_width, s.rt_height, s.rt_format, s.colorkey));
        c.eq(&format!("{p}: offset_x/y, memory_priority, low_res_scale"), (m.offset_x, m.offset_y, m.memory_priority, m.low_res_scale != 0), (s.offset_x, s.offset_y, s.memory_priority, s.low_res_scale));
        c.eq(&format!("{p}: has thtx"), m.thtx.is_some(), e.has_thtx_section());
        if let Some(th) = &m.thtx {
            c.eq(&format!("{p}: thtx magic"), &th.magic[..], &b"THTX"[..]);
            c.eq(&format!("{p}: thtx w/h/format"), (Some(th.width as u32), Some(th.height as u32), Some(th.format as u32)), (e.img_width(), e.img_height(), e.img_format()));
            c.eq(&format!("{p}: thtx data"), Some(&bytes[th.data_start..th.data_end]), e.img_data());
        }
        // truth keys sprites by id inside an entry: duplicates collapse onto the first position, last value wins
        let mut collapsed: Vec<&AnmSprite> = vec![];
        for sp in &m.sprites {
            match collapsed.iter().position(|x| x.id == sp.id) { Some(i) => collapsed[i] = sp, None => collapsed.push(sp) }
        }
        c.eq(&format!("{p}: sprite count (distinct ids)"), collapsed.len(), e.sprites.len());
        c.eq(&format!("{p}: num_sprites"), m.num_sprites as usize, m.sprites.len());
        for (j, (a, (name, b))) in collapsed.iter().zip(&e.sprites).enumerate() {
            let actual = b.id.unwrap_or(next_auto);
            next_auto = actual.wrapping_add(1);
            c.eq(&format!("{p}: sprite {j} id"), a.id, actual);
            c.eq(&format!("{p}: sprite {j} name"), format!("sprite{}", a.id), name.value.to_string());
            c.eq(&format!("{p}: sprite {j} xywh"), [a.x.to_bits(), a.y.to_bits(), a.w.to_bits(), a.h.to_bits()], [b.offset[0].to_bits(), b.offset[1].to_bits(), b.size[0].to_bits(), b.size[1].to_bits()]);
        }
        c.eq(&format!("{p}: script count"), m.scripts.len(), e.scripts.len());
        for (j, (a, (_, b))) in m.scripts.iter().zip(&e.scripts).enumerate() {
            let q = format!("{p} script {j}");
            c.eq(&format!("{q}: id"), a.id, b.id);
            c.eq(&format!("{q}: file offset"), Some(a.abs as u64), b.script.file_offset);
            cmp_instrs(c, &q, &a.instrs, &b.script.instrs);
            check_rebuild(c, &q, bytes, layout, &a.instrs, a.terminal);
        }
    }
}

fn cmp_std(c: &mut Cmp, bytes: &[u8], game: Game, m: &StdWalk, t: &truth::StdFile) {
    check_fields(c, "std", bytes, &m.field_offsets);
    c.eq("unknown", m.unknown, t.unknown);
    let strs: Vec<String> = m.strings.iter().map(|s| sjis(trim_nul(s))).collect();
    let theirs: Vec<String> = match &t.extra {
        truth::std::StdExtra::Th06 { stage_name, bgm } => {
            let mut v = vec![stage_name.value.clone()];
            v.extend(bgm.iter().map(|b| b.name.value.clone()));
            v.extend(bgm.iter().map(|b| b.path.value.clone()));
            v
        },
        truth::std::StdExtra::Th10 { anm_path } => vec![anm_path.value.clone()],
    };
    c.eq("strings", strs, theirs);
    c.eq("object count", m.objects.len(), t.objects.len());
    c.eq("num_objects", m.num_objects as usize, m.objects.len());
    c.eq("num_quads == total quads", m.num_quads as usize, m.objects.iter().map(|o| o.quads.len()).sum::<usize>());
    for (k, (a, (name, b))) in m.objects.iter().zip(&t.objects).enumerate() {
        let p = format!("object {k}");
        c.eq(&format!("{p}: name"), format!("object{k}"), name.value.to_string());
        c.eq(&format!("{p}: layer/pos/size"), (a.layer, f3(a.pos), f3(a.size)), (b.layer, f3(b.pos), f3(b.size)));
        c.eq(&format!("{p}: quad count"), a.quads.len(), b.quads.len());
        for (j, (qa, qb)) in a.quads.iter().zip(&b.quads).enumerate() {
            let (kind, fl): (i16, Vec<f32>) = match qb.extra {
                truth::std::QuadExtra::Rect { pos, size } => (0, vec![pos[0], pos[1], pos[2], size[0], size[1]]),
                truth::std::QuadExtra::Strip { start, end, width } => (1, vec![start[0], start[1], start[2], end[0], end[1], end[2], width]),
            };
            let bits = |v: &[f32]| v.iter().map(|x| x.to_bits()).collect::<Vec<_>>();
            c.eq(&format!("{p} quad {j}"), (qa.kind, qa.anm_script, bits(&qa.floats)), (kind, qb.anm_script, bits(&fl)));
            c.eq(&format!("{p} quad {j} size field"), qa.size as usize, qa.raw.len());
        }
    }
    c.eq("instance count", m.instances.len(), t.instances.len());
    for (k, (a, b)) in m.instances.iter().zip(&t.instances).enumerate() {
        c.eq(&format!("instance {k}"), (format!("object{}", a.object_id), a.unknown, f3(a.pos)), (b.object.value.to_string(), b.unknown, f3(b.pos)));
    }
    c.eq("script file offset", Some(m.script_offset as u64), t.script.file_offset);
    cmp_instrs(c, "script", &m.script, &t.script.instrs);
    check_rebuild(c, "script", bytes, std_instr_layout(game), &m.script, m.script_terminal);
}

fn cmp_msg(c: &mut Cmp, bytes: &[u8], m: &MsgWalk, t: &truth::MsgFile) {
    check_fields(c, "msg", bytes, &m.field_offsets);
    c.eq("table len", m.table.len(), t.dense_table.len());
    for (k, (a, b)) in m.table.iter().zip(&t.dense_table).enumerate() {
        // truth names a script after the first table index that refers to its offset
        let expect = if a.script_offset == 0 { None } else {
            Some(format!("script{}", m.table.iter().filter(|e| e.script_offset != 0).position(|e| e.script_offset == a.script_offset).unwrap()))
        };
        let theirs = match &b.script.value { truth::msg::ScriptTableOffset::Zero => None, truth::msg::ScriptTableOffset::Name(i) => Some(i.to_string()) };
        c.eq(&format!("table {k}: script"), expect, theirs);
        c.eq(&format!("table {k}: flags"), a.flags.unwrap_or(0), b.flags.value);
    }
    c.eq("script count", m.scripts.len(), t.scripts.len());
    for (k, ((start, instrs, _end), (_, b))) in m.scripts.iter().zip(&t.scripts).enumerate() {
        let p = format!("script {k}");
        c.eq(&format!("{p}: file offset"), Some(*start as u64), b.file_offset);
        cmp_instrs(c, &p, instrs, &b.instrs);
        check_rebuild(c, &p, bytes, InstrLayout::Msg, instrs, m.terminals[k]);
    }
}

fn cmp_mission(c: &mut Cmp, bytes: &[u8], game: Game, m: &MissionWalk, t: &truth::MissionMsgFile) {
    check_fields(c, "mission", bytes, &m.field_offsets);
    let esize = mission_entry_size(game).unwrap_or(0);
    for (k, &o) in m.table.iter().enumerate() { c.eq(&format!("table {k}"), o as usize, 4 + 4 * m.table.len() + esize * k); }
    for (k, e) in m.entries.iter().enumerate() { c.eq(&format!("entry {k} offset == table value"), e.offset, m.table[k] as usize); }
    c.eq("end == file length", m.end, bytes.len());
    let text = |e: &MissionEntry| e.text_plain.iter().map(|l| sjis(trim_nul(l))).collect::<Vec<_>>();
    match t {
        truth::MissionMsgFile::Th095(f) => {
            c.eq("entry count", m.entries.len(), f.entries.len());
            for (k, (a, b)) in m.entries.iter().zip(&f.entries).enumerate() {
                c.eq(&format!("entry {k} fields"), (a.stage, a.scene, a.face, a.points.clone()), (b.stage, b.scene, b.face, vec![b.point]));
                c.eq(&format!("entry {k} text"), text(a), b.text.iter().map(|s| s.value.clone()).collect());
            }
        },
        truth::MissionMsgFile::Th125(f) => {
            c.eq("entry count", m.entries.len(), f.entries.len());
            for (k, (a, b)) in m.entries.iter().zip(&f.entries).enumerate() {
                c.eq(&format!("entry {k} fields"), (a.stage, a.scene, a.player, a.unknown_1, a.unknown_2, a.points.clone(), a.furigana.clone()),
                     (b.stage, b.scene, b.player, b.unknown_1, b.unknown_2, vec![b.point_1, b.point_2], b.furigana.iter().flatten().copied().collect()));
                c.eq(&format!("entry {k} text"), text(a), b.text.iter().map(|s| s.value.clone()).collect());
            }
        },
    }
}

fn cmp_ecl(c: &mut Cmp, bytes: &[u8], m: &EclWalk, t: &truth::OldeEclFile) {
    check_fields(c, "ecl", bytes, &m.field_offsets);
    c.eq("sub count", m.subs.len(), t.subs.len());
    for (k, (a, (name, b))) in m.subs.iter().zip(&t.subs).enumerate() {
        let p = format!("sub {k}");
        c.eq(&format!("{p}: name"), format!("sub{k}"), name.to_string());
        c.eq(&format!("{p}: file offset"), Some(m.sub_offsets[k] as u64), b.file_offset);
        cmp_instrs(c, &p, a, &b.instrs);
        check_rebuild(c, &p, bytes, m.sub_layout, a, None);
        let t = build_terminal(m.sub_layout);
        c.eq(&format!("{p}: terminal bytes"), bytes.get(m.sub_ends[k].wrapping_sub(t.len())..m.sub_ends[k]), Some(&t[..]));
    }
    c.eq("timeline count", m.timelines.len(), t.timelines.len());
    for (k, (a, b)) in m.timelines.iter().zip(&t.timelines).enumerate() {
        let p = format!("timeline {k}");
        c.eq(&format!("{p}: file offset"), Some(m.timeline_offsets[k] as u64), b.file_offset);
        cmp_instrs(c, &p, a, &b.instrs);
        check_rebuild(c, &p, bytes, m.timeline_layout, a, None);
        let t = build_terminal(m.timeline_layout);
        c.eq(&format!("{p}: terminal bytes"), bytes.get(m.timeline_ends[k].wrapping_sub(t.len())..m.timeline_ends[k]), Some(&t[..]));
    }
}

/// What the walker must find in a file when truth itself cannot read it back (a truth defect):
/// per entry (sprite ids, script ids, instruction counts).
type AnmExpect = Vec<(Vec<u32>, Vec<i32>, Vec<usize>)>;

enum Outcome { Ok(String), Mismatch(Vec<String>), TruthDefect(String) }

fn check_one(kind: Kind, game: Game, name: &str, bytes: &[u8], anm_expect_if_truth_fails: Option<&AnmExpect>) -> Outcome {
    let mut c = Cmp::new();
    let summary;
    macro_rules! walk { ($e:expr) => { match $e { Ok(w) => w, Err(m) => return Outcome::Mismatch(vec![format!("walker error: {m}")]) } } }
    macro_rules! read { ($e:expr) => { match $e { Ok(t) => t, Err(m) => return Outcome::Mismatch(vec![format!("walker ok but {m}")]) } } }
    match kind {
        Kind::Anm => {
            let w = walk!(walk_anm(bytes, game));
            summary = format!("entries={} sprites={} scripts={} instrs={}", w.len(), w.iter().map(|e| e.sprites.len()).sum::<usize>(),
                w.iter().map(|e| e.scripts.len()).sum::<usize>(), w.iter().flat_map(|e| &e.scripts).map(|s| s.instrs.len()).sum::<usize>());
            match truth_read(name, bytes, |r| truth::AnmFile::read_from_stream(r, game, true)) {
                Ok(t) => cmp_anm(&mut c, bytes, game, &w, &t),
                Err(m) => match anm_expect_if_truth_fails {
                    None => return Outcome::Mismatch(vec![format!("walker ok but {m}")]),
                    Some(exp) => {
                        let got: AnmExpect = w.iter().map(|e| (e.sprites.iter().map(|s| s.id).collect(), e.scripts.iter().map(|s| s.id).collect(), e.scripts.iter().map(|s| s.instrs.len()).collect())).collect();
                        if &got != exp { return Outcome::Mismatch(vec![format!("{m}; and walker {got:?} != expected-from-source {exp:?}")]); }
                        return Outcome::TruthDefect(format!("{m}; walker agrees with the source: {summary}"));
                    },
                },
            }
        },
        Kind::Std => {
            let w = walk!(walk_std(bytes, game));
            summary = format!("objects={} quads={} instances={} instrs={}", w.objects.len(), w.num_quads, w.instances.len(), w.script.len());
            let t = read!(truth_read(name, bytes, |r| truth::StdFile::read_from_stream(r, game)));
            cmp_std(&mut c, bytes, game, &w, &t);
        },
        Kind::Msg | Kind::End => {
            let lang = if kind == Kind::End { truth::LanguageKey::End } else { truth::LanguageKey::Msg };
            let w = walk!(walk_msg(bytes, game, kind == Kind::End));
            summary = format!("table={} scripts={} instrs={}", w.table.len(), w.scripts.len(), w.scripts.iter().map(|s| s.1.len()).sum::<usize>());
            let t = read!(truth_read(name, bytes, |r| truth::MsgFile::read_from_stream(r, game, lang)));
            cmp_msg(&mut c, bytes, &w, &t);
        },
        Kind::Mission => {
            let w = walk!(walk_mission(bytes, game));
            summary = format!("entries={}", w.entries.len());
            let t = read!(truth_read(name, bytes, |r| truth::MissionMsgFile::read_from_stream(r, game)));
            cmp_mission(&mut c, bytes, game, &w, &t);
        },
        Kind::Ecl => {
            let w = walk!(walk_ecl(bytes, game));
            summary = format!("subs={} timelines={} instrs={}", w.subs.len(), w.timelines.len(), w.subs.iter().chain(&w.timelines).map(|s| s.len()).sum::<usize>());
            let t = read!(truth_read(name, bytes, |r| truth::OldeEclFile::read_from_stream(r, game)));
            cmp_ecl(&mut c, bytes, &w, &t);
        },
    }
    if c.errs.is_empty() { Outcome::Ok(format!("{summary} comparisons={}", c.n)) } else { Outcome::Mismatch(c.errs) }
}

// ---- sources compiled for the selftest (raw ins_N names; @blob keeps them independent of signatures) ----

const SRC_ANM_ENTRY0: &str = r#"
entry {
    path: "subdir/file.png",
    HAS_DATA
    img_width: 8, img_height: 4, img_format: 3,
    memory_priority: 10,
    EXTRA0
    sprites: {
        sprite0: {id: 0, x: 0.0, y: 0.0, w: 512.0, h: 480.0},
        sprite1: {id: 1, x: 1.0, y: 2.0, w: 3.0, h: 4.0},
        sprite2: {id: 7, x: 0.5, y: 0.25, w: 12.0, h: 48.0},
    },
}
"#;
const SRC_ANM_ENTRY1: &str = r#"
entry {
    path: "subdir/a-much-longer-file-name-than-16-bytes.png",
    has_data: false,
    img_width: 128, img_height: 64, img_format: 3,
    memory_priority: 0,
    sprites: {
        sprite8: {x: 0.0, y: 0.0, w: 512.0, h: 480.0},
        sprite9: {x: 1.0, y: 2.0, w: 3.0, h: 4.0},
        sprite10: {x: 0.0, y: 0.0, w: 512.0, h: 480.0},
    },
}
"#;
const SRC_ANM06_SCRIPTS0: &str = r#"
script 5 script0 {
    ins_1(@blob="01000000");
10:
    ins_2(1.0, 2.0);
    ins_0();
}
script script1 {
    ins_3(@blob="ff000000");
    ins_0();
}
"#;
const SRC_ANM06_SCRIPTS1: &str = r#"
script script2 {
    ins_9(1.0, 2.0, 3.0);
    ins_15();
}
script -3 script3 {
20:
    ins_15();
}
"#;
const SRC_ANM07_SCRIPTS0: &str = r#"
script 5 script0 {
    ins_3(@blob="01000000");
10:
    ins_0();
    ins_7(@mask=0b11, @blob="00401c46 00002041");
}
script script1 {
    ins_0();
-5:
    ins_1();
}
"#;
const SRC_ANM07_SCRIPTS1: &str = r#"
script script2 {
    ins_2();
}
script -3 script3 {
20:
    ins_1();
}
"#;

fn anm_source(game: Game, two_entries: bool, first_has_thtx: bool) -> String {
    let old = anm_has_old_header(game);
    let e0 = SRC_ANM_ENTRY0
        .replace("HAS_DATA", if first_has_thtx { "has_data: \"dummy\"," } else { "has_data: false," })
        .replace("EXTRA0", if old { "path_2: \"subdir/file_a.png\", colorkey: 0x11223344," } else { "offset_x: 3, offset_y: 5, low_res_scale: true," });
    let (s0, s1) = if game == Game::Th06 { (SRC_ANM06_SCRIPTS0, SRC_ANM06_SCRIPTS1) } else { (SRC_ANM07_SCRIPTS0, SRC_ANM07_SCRIPTS1) };
    let mut s = format!("{e0}{s0}");
    if two_entries { s += SRC_ANM_ENTRY1; s += s1; }
    s
}

const SRC_STD_OBJECTS: &str = r#"
    objects: {
        thing: {
            layer: 4,
            pos: [10.0, 20.0, 30.0],
            size: [11.0, 21.0, 31.0],
            quads: [
                rect {anm_script: 3, pos: [1.0, 2.0, 3.0], size: [4.0, 5.0]},
                rect {anm_script: 4, pos: [1.5, 2.5, 3.5], size: [4.5, 5.5]},
            ],
        },
        other: {
            layer: 2,
            pos: [1.0, 2.0, 3.0],
            size: [1.0, 2.0, 3.0],
            quads: [
                QUAD3
            ],
        },
        empty: { layer: 0, pos: [0.0, 0.0, 0.0], size: [0.0, 0.0, 0.0], quads: [] },
    },
    instances: [
        other {pos: [1.0, 2.0, 3.0]},
        thing {unknown: 5, pos: [4.0, 5.0, 6.0]},
        other {pos: [7.0, 8.0, 9.0]},
    ],
}
"#;

fn std_source(game: Game) -> String {
    let head = if std_is_06_format(game) {
        r#"meta {
    unknown: 7,
    stage_name: "dm",
    bgm: [
        {path: "bgm/th08_08.mid", name: "dm"},
        {path: "bgm/th08_09.mid", name: "dn"},
        {path: " ", name: " "},
        {path: " ", name: "x"},
    ],"#
    } else { "meta {\n    unknown: 7,\n    anm_path: \"stage01.anm\"," };
    let quad3 = if matches!(game, Game::Th08 | Game::Th09) { "strip {anm_script: 5, start: [1.0, 2.0, 3.0], end: [4.0, 5.0, 6.0], width: 7.0}," }
        else { "rect {anm_script: 5, pos: [1.0, 2.0, 3.0], size: [4.0, 5.0]}," };
    let script = if std_is_06_format(game) {
        "script main {\n    ins_0(1.0, 2.0, 3.0);\n10:\n    ins_3(@blob=\"01000000 02000000 03000000\");\n30:\n    ins_3(@blob=\"00000000 00000000 00000000\");\n}\n"
    } else {
        "script main {\n    ins_2(1.0, 2.0, 3.0);\n10:\n    ins_3(@blob=\"01000000 02000000 03000000 04000000 05000000\");\n30:\n    ins_0();\n}\n"
    };
    format!("{head}{}{script}", SRC_STD_OBJECTS.replace("QUAD3", quad3))
}

/// `other` starts with, contains and ends in all-zero instructions (`ins_0()` at time 0), which look like the terminal
const SRC_MSG: &str = r#"
meta {
    table: {
        0: {script: "script0"FLAGS0},
        1: {script: "other"FLAGS1},
        3: {script: "script0"},
        5: {script: "last"},
        DEFAULT
    }
}
script script0 {
    ins_1(@blob="01000200");
10:
    ins_0();
    ins_2(@blob="03000400");
}
script other {
    ins_0();
    ins_0();
    ins_4(@blob="2a000000");
    ins_0();
}
script last {
5:
    ins_4(@blob="2a000000");
0:
    ins_0();
}
"#;
fn msg_source(game: Game, default_entry: bool) -> String {
    let fl = msg_table_has_flags(game);
    SRC_MSG.replace("FLAGS0", if fl { ", flags: 256" } else { "" }).replace("FLAGS1", if fl { ", flags: 3" } else { "" })
        .replace("DEFAULT", if default_entry { "default: {script: \"other\"}," } else { "" })
}

const SRC_MISSION_095: &str = r#"
entry { stage: 1, scene: 2, face: 3, point: 4, text: ["abc", "", "line three"] }
entry { stage: 10, scene: 6, face: 0, point: 1234567, text: ["x", "y", "z"] }
"#;
const SRC_MISSION_125: &str = r#"
entry { stage: 1, scene: 2, player: 1, unknown_1: 7, unknown_2: 9, point_1: 3, point_2: 4,
        furigana: [[1, 2], [3, 4], [5, 6]], text: ["abc", "", "line three", "d", "e", "f"] }
entry { stage: 10, scene: 6, player: 0, unknown_1: 0, unknown_2: 0, point_1: 0, point_2: 1234567,
        furigana: [[0, 0], [0, 0], [0, 0]], text: ["x", "y", "z", "", "", ""] }
"#;

const SRC_ECL_SUBS: &str = r#"
void sub0() {
    ins_0();
5:
    {"2"}: ins_4(MASK@blob="10270000 05000000");
    {"*"}: ins_1(@blob="00000000");
}
void sub1() {
20:
    ins_35(@blob="00000000 00000000 00000000");
}
"#;
const SRC_ECL_TIMELINE0: &str = r#"
script timeline0 {
    ins_0(@arg0=1, @blob="00000000 0000803f 00000040 04000300 02000000");
10:
    ins_10(@arg0=0, @blob="01000000 02000000");
}
"#;
const SRC_ECL_TIMELINE1: &str = r#"
script timeline1 {
7:
    ins_10(@arg0=4, @blob="01000000 02000000");
}
"#;
fn ecl_source(game: Game) -> String {
    let mut s = String::from(SRC_ECL_TIMELINE0);
    if game != Game::Th06 { s += SRC_ECL_TIMELINE1; } // TH06 allows a single timeline
    s += &SRC_ECL_SUBS.replace("MASK", if game == Game::Th06 { "" } else { "@mask=0b1, " });
    s
}

fn game_of_filename(name: &str) -> Option<Game> {
    let prefix = name.split('-').next()?;
    prefix.parse::<Game>().ok()
}

pub fn selftest() -> i32 {
    let mut cases: Vec<(Kind, Game, String, Vec<u8>, Option<AnmExpect>)> = vec![];
    let mut machinery_errors = 0;

    // 1. the repository's binary test files
    let mut paths: Vec<std::path::PathBuf> = vec![];
    for dir in ["/repo/tests/integration/bits-2-bits", "/repo/tests/integration/resources"] {
        match std::fs::read_dir(dir) {
            Ok(rd) => paths.extend(rd.filter_map(|e| e.ok()).map(|e| e.path()).filter(|p| p.is_file())),
            Err(e) => { println!("MACHINERY cannot list {dir}: {e}"); machinery_errors += 1; },
        }
    }
    paths.sort();
    for p in paths {
        let name = p.file_name().unwrap().to_string_lossy().to_string();
        let kind = match p.extension().and_then(|e| e.to_str()) { Some("anm") => Kind::Anm, Some("std") => Kind::Std, Some("msg") => Kind::Msg, _ => continue };
        let Some(game) = game_of_filename(&name) else { println!("MACHINERY no game prefix in {name}"); machinery_errors += 1; continue };
        match std::fs::read(&p) {
            Ok(bytes) => cases.push((kind, game, p.to_string_lossy().to_string(), bytes, None)),
            Err(e) => { println!("MACHINERY cannot read {}: {e}", p.display()); machinery_errors += 1; },
        }
    }
    if cases.len() < 25 { println!("MACHINERY only {} repository files found", cases.len()); machinery_errors += 1; }

    // 2. files compiled here from small sources
    let g = |s: &str| s.parse::<Game>().expect("game");
    let two_entry_expect_06: AnmExpect = vec![(vec![0, 1, 7], vec![5, 6], vec![3, 2]), (vec![8, 9, 10], vec![7, -3], vec![2, 1])];
    let mut compiled: Vec<(Kind, Game, &str, String, Option<AnmExpect>)> = vec![
        (Kind::Anm, g("th06"), "anm th06 1 entry", anm_source(g("th06"), false, false), None),
        (Kind::Anm, g("th06"), "anm th06 2 entries, first with THTX", anm_source(g("th06"), true, true), None),
        // truth cannot read this file back (see walk_anm docs): the walker is checked against the source instead
        (Kind::Anm, g("th06"), "anm th06 2 entries", anm_source(g("th06"), true, false), Some(two_entry_expect_06)),
        (Kind::Anm, g("th07"), "anm th07 2 entries", anm_source(g("th07"), true, false), None),
        (Kind::Anm, g("th10"), "anm th10 2 entries, first with THTX", anm_source(g("th10"), true, true), None),
        (Kind::Anm, g("th12"), "anm th12 2 entries", anm_source(g("th12"), true, false), None),
        (Kind::Anm, g("th12"), "anm th12 2 entries, first with THTX", anm_source(g("th12"), true, true), None),
        (Kind::Anm, g("th17"), "anm th17 2 entries", anm_source(g("th17"), true, false), None),
        (Kind::Mission, g("th095"), "mission th095", SRC_MISSION_095.to_string(), None),
        (Kind::Mission, g("th125"), "mission th125", SRC_MISSION_125.to_string(), None),
    ];
    for gm in ["th06", "th08", "th095", "th12"] { compiled.push((Kind::Std, g(gm), "std", std_source(g(gm)), None)); }
    for gm in ["th06", "th08", "th09", "th12"] {
        compiled.push((Kind::Msg, g(gm), "msg", msg_source(g(gm), false), None));
        compiled.push((Kind::Msg, g(gm), "msg with default", msg_source(g(gm), true), None));
    }
    compiled.push((Kind::End, g("th12"), "ending msg", msg_source(g("th12"), false), None));
    for gm in ["th06", "th07", "th08", "th09", "th095"] { compiled.push((Kind::Ecl, g(gm), "ecl", ecl_source(g(gm)), None)); }
    for (kind, game, label, src, expect) in compiled {
        let out = drive::compile(Tool::new(kind, game), src.as_bytes(), &CompileOpts::default());
        let name = format!("<compiled: {label} ({})>", game.as_str());
        match out.bytes {
            Some(bytes) => cases.push((kind, game, name, bytes, expect)),
            None => {
                println!("MACHINERY {name}: source did not compile: {}{}", out.diag.lines().take(6).collect::<Vec<_>>().join(" | "), out.panic.map(|p| p.text).unwrap_or_default());
                machinery_errors += 1;
            },
        }
    }

    // 3. compare
    let (mut ok, mut bad, mut defects) = (0, 0, 0);
    for (kind, game, name, bytes, expect) in &cases {
        match check_one(*kind, *game, name, bytes, expect.as_ref()) {
            Outcome::Ok(s) => { ok += 1; println!("ok {name} [{:?} {}] {s}", kind, game.as_str()); },
            Outcome::TruthDefect(s) => { defects += 1; println!("TRUTH-DEFECT {name} [{:?} {}] {s}", kind, game.as_str()); },
            Outcome::Mismatch(v) => { bad += 1; println!("MISMATCH {name} [{:?} {}]", kind, game.as_str()); for m in v { println!("    {m}"); } },
        }
    }

    // 4. builder/walker round trip on hand-assembled scripts, every layout
    for layout in [InstrLayout::Anm06, InstrLayout::Anm07, InstrLayout::Std06, InstrLayout::Std10, InstrLayout::Msg, InstrLayout::Ecl06,
                   InstrLayout::Ecl07, InstrLayout::Timeline06, InstrLayout::Timeline08] {
        let mut a = instr(3, 7, &[1, 2, 3, 4, 5, 6, 7, 8, 9, 10, 11, 12]);
        let mut b = instr(-2, 300, &[0; 12]);
        if matches!(layout, InstrLayout::Anm06 | InstrLayout::Msg) { b.opcode = 0xFFFE; } // one signed opcode byte
        if matches!(layout, InstrLayout::Anm07 | InstrLayout::Ecl06 | InstrLayout::Ecl07) { a.param_mask = 0x8001; }
        if matches!(layout, InstrLayout::Ecl06 | InstrLayout::Ecl07 | InstrLayout::Timeline08) { a.difficulty = 0x0c; }
        if layout == InstrLayout::Timeline06 { a.extra_arg = Some(-7); b.extra_arg = Some(0); }
        let mut file = vec![0xEEu8; 5]; // scripts need not start at 0
        let mut want = vec![];
        for i in [&a, &b] {
            let mut i = i.clone();
            i.offset = file.len();
            file.extend(build_instr(layout, &i));
            i.size = file.len() - i.offset;
            want.push(i);
        }
        file.extend(build_terminal(layout));
        let r = walk_instrs(&file, 5, None, layout);
        if r == Ok((want, file.len())) { ok += 1; println!("ok <assembled script {layout:?}> instrs=2"); }
        else { bad += 1; println!("MISMATCH <assembled script {layout:?}>: walk gave {r:?}"); }
        // truncation at every length must give Ok or Err, never a panic
        for n in 0..file.len() {
            if let Err(p) = crate::common::catch(|| { let _ = walk_instrs(&file[..n], 5, None, layout); }) { bad += 1; println!("MISMATCH <assembled script {layout:?}> truncated to {n}: walker panicked: {}", p.text); }
        }
    }
    // 5. no walker may panic on truncations of any case file
    let mut trunc = 0;
    for (kind, game, name, bytes, _) in &cases {
        let step = (bytes.len() / 400).max(1);
        for n in (0..bytes.len()).step_by(step) {
            trunc += 1;
            let r = crate::common::catch(|| match kind {
                Kind::Anm => walk_anm(&bytes[..n], *game).is_ok(), Kind::Std => walk_std(&bytes[..n], *game).is_ok(),
                Kind::Msg | Kind::End => walk_msg(&bytes[..n], *game, false).is_ok(), Kind::Mission => walk_mission(&bytes[..n], *game).is_ok(),
                Kind::Ecl => walk_ecl(&bytes[..n], *game).is_ok(),
            });
            if let Err(p) = r { bad += 1; println!("MISMATCH {name} truncated to {n}: walker panicked: {}", p.text); }
        }
    }
    println!("m2-selftest: {ok} ok, {bad} mismatches, {defects} truth defects (walker verified against the source instead), {trunc} truncations walked without panic, {machinery_errors} machinery errors");
    if machinery_errors > 0 { 2 } else if bad > 0 { 1 } else { 0 }
}
