//! (stub; being written)
#![allow(dead_code)]
pub fn selftest() -> i32 { 2 }
