//! C17 — image extraction and re-import is lossless; image-source precedence and matching.
//!
//! Technique: bounded exhaustive enumeration.  Every case hand-assembles ANM binaries (own writer),
//! drives the REAL `truanm` CLI in a subprocess (decompile / extract / compile -i ...), and reads the
//! produced ANM with an independent reader (own parser following the header offsets) to compare the
//! THTX sections byte for byte with the expectation computed by the harness alone.
//!
//! Families:
//!  (a) pixel  — every pixel value of RGB565 / ARGB4444 / GRAY8 and channel sweeps + boundary values of
//!               ARGB8888:  extract -> compile -i dir -> same THTX bytes.
//!  (b) dims   — texture sizes x image offsets x formats (single-entry files, multi-entry batch files,
//!               all container versions):  extract -> compile -i dir.
//!  (c) prec   — every sequence of <= 3 image sources (ANM file | directory, each supplying a non-empty
//!               subset of two paths), delivered via -i and/or #pragma image_source: last supplier wins.
//!  (d) dup    — 2-3 script entries sharing a path x 1-3 same-path entries in the source ANM (+ an
//!               interleaved other-path entry, + a directory before/after): matched in order.
//!  (e) verb   — `-i original.anm` copies the THTX verbatim (all formats incl. unknown numbers, odd sizes,
//!               offsets, explicit or inferred metadata, permuted entry order).
#![allow(dead_code)]

use std::collections::{BTreeMap, BTreeSet};
use std::path::PathBuf;
use std::sync::atomic::{AtomicU64, Ordering};
use std::time::{Duration, Instant};

use serde_json::{json, Value};

use crate::common::{par_map, Report};
use crate::drive::{cleanup_scratch, run_cli, scratch_dir};

// =============================================================================================
// formats, games

const F_ARGB8888: u16 = 1;
const F_RGB565: u16 = 3;
const F_ARGB4444: u16 = 5;
const F_GRAY8: u16 = 7;
const KNOWN_FORMATS: [u16; 4] = [F_ARGB8888, F_RGB565, F_ARGB4444, F_GRAY8];

fn bpp(fmt: u16) -> Option<usize> {
    match fmt { F_ARGB8888 => Some(4), F_RGB565 | F_ARGB4444 => Some(2), F_GRAY8 => Some(1), _ => None }
}
/// bytes per pixel used by the harness when *generating* data (unknown formats: 1 byte per pixel)
fn gen_bpp(fmt: u16) -> usize { bpp(fmt).unwrap_or(1) }

fn fmt_name(fmt: u16) -> String {
    match fmt {
        F_ARGB8888 => "ARGB8888".into(), F_RGB565 => "RGB565".into(),
        F_ARGB4444 => "ARGB4444".into(), F_GRAY8 => "GRAY8".into(),
        n => format!("FMT{n}"),
    }
}
fn fmt_const(fmt: u16) -> String {
    match fmt {
        F_ARGB8888 => "FORMAT_ARGB_8888".into(), F_RGB565 => "FORMAT_RGB_565".into(),
        F_ARGB4444 => "FORMAT_ARGB_4444".into(), F_GRAY8 => "FORMAT_GRAY_8".into(),
        n => format!("{n}"),
    }
}

#[derive(Clone, Copy, Debug)]
struct GameV { name: &'static str, version: u32, old: bool }
const GAMES: [GameV; 6] = [
    GameV { name: "th06", version: 0, old: true },
    GameV { name: "th07", version: 2, old: true },
    GameV { name: "th08", version: 3, old: true },
    GameV { name: "th10", version: 4, old: true },
    GameV { name: "th12", version: 7, old: false },
    GameV { name: "th17", version: 8, old: false },
];
fn game(name: &str) -> GameV { *GAMES.iter().find(|g| g.name == name).unwrap_or(&GAMES[4]) }

// =============================================================================================
// own ANM writer / reader (independent of truth)

#[derive(Clone, Debug)]
struct AEntry { path: String, fmt: u16, w: u16, h: u16, ox: u16, oy: u16, rt_w: u16, rt_h: u16, data: Vec<u8> }

fn np2(x: u16) -> u16 { (x.max(1) as u32).next_power_of_two().min(0x8000) as u16 }

impl AEntry {
    fn new(path: &str, fmt: u16, w: u16, h: u16, ox: u16, oy: u16, data: Vec<u8>) -> AEntry {
        AEntry { path: path.into(), fmt, w, h, ox, oy, rt_w: np2(w), rt_h: np2(h), data }
    }
}

fn put16(v: &mut Vec<u8>, x: u16) { v.extend_from_slice(&x.to_le_bytes()); }
fn put32(v: &mut Vec<u8>, x: u32) { v.extend_from_slice(&x.to_le_bytes()); }

fn write_anm(entries: &[AEntry], g: GameV) -> Vec<u8> {
    let mut out = vec![];
    for (i, e) in entries.iter().enumerate() {
        let last = i + 1 == entries.len();
        let mut path = e.path.as_bytes().to_vec();
        let plen = (path.len() + 1 + 15) / 16 * 16;
        path.resize(plen, 0);
        let thtx_off = 64 + plen as u32;
        let total = thtx_off + 16 + e.data.len() as u32;
        let next = if last { 0 } else { total };
        let mprio: u32 = if g.version == 0 { 0 } else { 10 };
        let mut h = vec![];
        if g.old {
            put32(&mut h, 0); put32(&mut h, 0); put32(&mut h, 0);
            put32(&mut h, e.rt_w as u32); put32(&mut h, e.rt_h as u32); put32(&mut h, e.fmt as u32);
            put32(&mut h, 0);            // colorkey
            put32(&mut h, 64);           // name offset
            put32(&mut h, 0);            // unused
            put32(&mut h, 0);            // secondary name offset
            put32(&mut h, g.version);
            put32(&mut h, mprio);
            put32(&mut h, thtx_off);
            put16(&mut h, 1); put16(&mut h, 0);
            put32(&mut h, next);
            put32(&mut h, 0);
        } else {
            put32(&mut h, g.version);
            put16(&mut h, 0); put16(&mut h, 0); put16(&mut h, 0);
            put16(&mut h, e.rt_w); put16(&mut h, e.rt_h); put16(&mut h, e.fmt);
            put32(&mut h, 64);
            put16(&mut h, e.ox); put16(&mut h, e.oy);
            put32(&mut h, mprio);
            put32(&mut h, thtx_off);
            put16(&mut h, 1); put16(&mut h, 0);
            put32(&mut h, next);
            h.resize(64, 0);
        }
        assert_eq!(h.len(), 64);
        out.extend_from_slice(&h);
        out.extend_from_slice(&path);
        out.extend_from_slice(b"THTX");
        put16(&mut out, 0); put16(&mut out, e.fmt); put16(&mut out, e.w); put16(&mut out, e.h);
        put32(&mut out, e.data.len() as u32);
        out.extend_from_slice(&e.data);
    }
    out
}

#[derive(Clone, Debug)]
struct RThtx { fmt: u16, w: u16, h: u16, data: Vec<u8> }
#[derive(Clone, Debug)]
struct REntry { path: String, ox: u32, oy: u32, rt_w: u32, rt_h: u32, rt_fmt: u32, has_data: u32, thtx: Option<RThtx> }

fn g16(b: &[u8], o: usize) -> Result<u16, String> {
    b.get(o..o + 2).map(|s| u16::from_le_bytes([s[0], s[1]])).ok_or_else(|| format!("truncated at {o:#x}"))
}
fn g32(b: &[u8], o: usize) -> Result<u32, String> {
    b.get(o..o + 4).map(|s| u32::from_le_bytes([s[0], s[1], s[2], s[3]])).ok_or_else(|| format!("truncated at {o:#x}"))
}

fn read_anm(b: &[u8], old: bool) -> Result<Vec<REntry>, String> {
    let mut out = vec![];
    let mut pos = 0usize;
    loop {
        if out.len() > 100_000 { return Err("entry loop".into()); }
        let (rt_w, rt_h, rt_fmt, name_off, ox, oy, thtx_off, has_data, next);
        if old {
            rt_w = g32(b, pos + 12)?; rt_h = g32(b, pos + 16)?; rt_fmt = g32(b, pos + 20)?;
            name_off = g32(b, pos + 28)?; ox = 0; oy = 0;
            thtx_off = g32(b, pos + 48)?; has_data = g16(b, pos + 52)? as u32; next = g32(b, pos + 56)?;
        } else {
            rt_w = g16(b, pos + 10)? as u32; rt_h = g16(b, pos + 12)? as u32; rt_fmt = g16(b, pos + 14)? as u32;
            name_off = g32(b, pos + 16)?; ox = g16(b, pos + 20)? as u32; oy = g16(b, pos + 22)? as u32;
            thtx_off = g32(b, pos + 28)?; has_data = g16(b, pos + 32)? as u32; next = g32(b, pos + 36)?;
        }
        let ps = pos + name_off as usize;
        let tail = b.get(ps..).ok_or("bad name offset")?;
        let n = tail.iter().position(|&c| c == 0).ok_or("unterminated path")?;
        let path = String::from_utf8_lossy(&tail[..n]).to_string();
        let thtx = if thtx_off != 0 {
            let t = pos + thtx_off as usize;
            if b.get(t..t + 4) != Some(b"THTX") { return Err(format!("no THTX magic at {t:#x}")); }
            let fmt = g16(b, t + 6)?; let w = g16(b, t + 8)?; let h = g16(b, t + 10)?;
            let size = g32(b, t + 12)? as usize;
            let data = b.get(t + 16..t + 16 + size).ok_or("THTX data truncated")?.to_vec();
            Some(RThtx { fmt, w, h, data })
        } else { None };
        out.push(REntry { path, ox, oy, rt_w, rt_h, rt_fmt, has_data, thtx });
        if next == 0 { break; }
        pos += next as usize;
    }
    Ok(out)
}

// =============================================================================================
// own PNG writer (RGBA8, stored deflate blocks) + the reference expansion of each format to RGBA

fn crc32(data: &[u8]) -> u32 {
    static TABLE: std::sync::OnceLock<[u32; 256]> = std::sync::OnceLock::new();
    let t = TABLE.get_or_init(|| {
        let mut t = [0u32; 256];
        for i in 0..256u32 {
            let mut c = i;
            for _ in 0..8 { c = if c & 1 != 0 { 0xEDB88320 ^ (c >> 1) } else { c >> 1 }; }
            t[i as usize] = c;
        }
        t
    });
    let mut c = 0xFFFF_FFFFu32;
    for &b in data { c = t[((c ^ b as u32) & 0xFF) as usize] ^ (c >> 8); }
    c ^ 0xFFFF_FFFF
}

fn png_chunk(out: &mut Vec<u8>, kind: &[u8; 4], body: &[u8]) {
    out.extend_from_slice(&(body.len() as u32).to_be_bytes());
    let mut c = kind.to_vec();
    c.extend_from_slice(body);
    out.extend_from_slice(&c);
    out.extend_from_slice(&crc32(&c).to_be_bytes());
}

fn write_png_rgba(w: u32, h: u32, rgba: &[u8]) -> Vec<u8> {
    assert_eq!(rgba.len(), (w * h * 4) as usize);
    let mut raw = vec![];
    for y in 0..h as usize {
        raw.push(0);
        raw.extend_from_slice(&rgba[y * w as usize * 4..(y + 1) * w as usize * 4]);
    }
    let mut z = vec![0x78, 0x01];
    let mut chunks = raw.chunks(65535).peekable();
    if raw.is_empty() { z.extend_from_slice(&[1, 0, 0, 0xFF, 0xFF]); }
    while let Some(c) = chunks.next() {
        z.push(if chunks.peek().is_none() { 1 } else { 0 });
        z.extend_from_slice(&(c.len() as u16).to_le_bytes());
        z.extend_from_slice(&(!(c.len() as u16)).to_le_bytes());
        z.extend_from_slice(c);
    }
    let (mut a, mut b2) = (1u32, 0u32);
    for &x in &raw { a = (a + x as u32) % 65521; b2 = (b2 + a) % 65521; }
    z.extend_from_slice(&((b2 << 16) | a).to_be_bytes());
    let mut out = vec![0x89, b'P', b'N', b'G', 0x0D, 0x0A, 0x1A, 0x0A];
    let mut ihdr = vec![];
    ihdr.extend_from_slice(&w.to_be_bytes());
    ihdr.extend_from_slice(&h.to_be_bytes());
    ihdr.extend_from_slice(&[8, 6, 0, 0, 0]);
    png_chunk(&mut out, b"IHDR", &ihdr);
    png_chunk(&mut out, b"IDAT", &z);
    png_chunk(&mut out, b"IEND", &[]);
    out
}

/// Reference expansion texture bytes -> RGBA8 (bit replication for the narrow channels).  Used only to
/// author directory-source PNGs whose colours are exactly representable in the target format.
fn ref_to_rgba(fmt: u16, data: &[u8]) -> Vec<u8> {
    let mut out = vec![];
    match fmt {
        F_ARGB8888 => for p in data.chunks(4) { out.extend_from_slice(&[p[2], p[1], p[0], p[3]]); },
        F_RGB565 => for p in data.chunks(2) {
            let v = u16::from_le_bytes([p[0], p[1]]);
            let (r, g, b) = ((v >> 11) as u8, ((v >> 5) & 0x3F) as u8, (v & 0x1F) as u8);
            out.extend_from_slice(&[(r << 3) | (r >> 2), (g << 2) | (g >> 4), (b << 3) | (b >> 2), 0xFF]);
        },
        F_ARGB4444 => for p in data.chunks(2) {
            let v = u16::from_le_bytes([p[0], p[1]]);
            let n = |s: u16| (((v >> s) & 0xF) as u8) * 17;
            out.extend_from_slice(&[n(8), n(4), n(0), n(12)]);
        },
        F_GRAY8 => for &v in data { out.extend_from_slice(&[v, v, v, 0xFF]); },
        _ => panic!("ref_to_rgba: unknown format"),
    }
    out
}

/// A 16-bit pixel is "non-trivial" when its 8-bit expansion by bit replication differs from the naive
/// zero-filling shift in at least one channel (so a wrong shift/rounding on the way back is visible).
fn nontrivial16(fmt: u16, v: u16) -> bool {
    match fmt {
        F_RGB565 => (v >> 11) >> 2 != 0 || ((v >> 5) & 0x3F) >> 4 != 0 || (v & 0x1F) >> 2 != 0,
        F_ARGB4444 => v != 0,
        _ => false,
    }
}

// =============================================================================================
// deterministic fills

fn pattern(fmt: u16, w: u16, h: u16, seed: u32) -> Vec<u8> {
    let n = w as usize * h as usize;
    let mut out = Vec::with_capacity(n * gen_bpp(fmt));
    match gen_bpp(fmt) {
        1 => for y in 0..h as u32 { for x in 0..w as u32 {
            out.push((x.wrapping_mul(7).wrapping_add(y.wrapping_mul(13)).wrapping_add(seed.wrapping_mul(29)).wrapping_add(3) & 0xFF) as u8);
        } },
        2 => for i in 0..n as u32 {
            let v = (i.wrapping_mul(40503).wrapping_add(seed.wrapping_mul(977)).wrapping_add(0x1F3) & 0xFFFF) as u16;
            out.extend_from_slice(&v.to_le_bytes());
        },
        _ => for i in 0..n as u32 {
            let v = (i + 1).wrapping_add(seed.wrapping_mul(1_000_003)).wrapping_mul(0x9E37_79B1);
            out.extend_from_slice(&v.to_le_bytes());
        },
    }
    out
}

fn pixel_set(fmt: u16, set: &str, perm: u32) -> (u16, u16, Vec<u8>) {
    match set {
        "all16" => {
            let mut d = Vec::with_capacity(131072);
            for i in 0..65536u32 {
                let v = if perm == 0 { i } else { (i * 40503 + 12345) & 0xFFFF } as u16;
                d.extend_from_slice(&v.to_le_bytes());
            }
            (256, 256, d)
        },
        "all8" => {
            let d = (0..256u32).map(|i| if perm == 0 { i as u8 } else { ((i * 77 + 31) & 0xFF) as u8 }).collect();
            (16, 16, d)
        },
        "sweep32" => {
            // each channel (byte position in B,G,R,A) through 0..=255 with the others at {00,5A,FF}^3
            let lv = [0x00u8, 0x5A, 0xFF];
            let mut d = vec![];
            for c in 0..4usize { for combo in 0..27usize { for v in 0..256u32 {
                let mut px = [0u8; 4];
                let mut k = combo;
                for j in 0..4 { if j == c { px[j] = v as u8; } else { px[j] = lv[k % 3]; k /= 3; } }
                d.extend_from_slice(&px);
            } } }
            (256, 108, d)
        },
        "bound32" => {
            let vals = [0u8, 1, 0x7F, 0x80, 0xFE, 0xFF];
            let mut d = vec![];
            for a in vals { for r in vals { for g in vals { for b in vals { d.extend_from_slice(&[b, g, r, a]); } } } }
            (36, 36, d)
        },
        _ => panic!("unknown pixel set {set}"),
    }
}

// =============================================================================================
// cases

#[derive(Clone, Debug)]
enum Case {
    /// (a)
    Pixel { fmt: u16, set: String, perm: u32, corrupt: bool },
    /// (b) one ANM with one entry per item [w,h,ox,oy]
    Dims { game: String, fmt: u16, items: Vec<[u16; 4]>, sub: String, corrupt: bool },
    /// (e) single entry
    Verb { game: String, fmt: u16, w: u16, h: u16, ox: u16, oy: u16, rt: String, script: String, corrupt: bool },
    /// (e) four entries (one per known format); script entries in "same" or "reversed" order
    VerbMulti { order: String, script: String, corrupt: bool },
    /// (c) sources: (kind 'A'|'D', mask of supplied paths 1..=3); the first n_pragma are delivered by pragma
    Prec { fmt: u16, sources: Vec<(char, u8)>, n_pragma: usize, corrupt: bool },
    /// (d) dest / src layouts over {P,Q}; dir_mode none|after|before
    Dup { fmt: u16, dest: String, src: String, dir_mode: String, corrupt: bool },
    /// (e') a texture in an unsupported format number must be rejected by `extract` (no PNG, error exit),
    /// while the supported entry next to it is still exported
    ExtractReject { fmt: u16 },
}

impl Case {
    fn family(&self) -> &'static str {
        match self {
            Case::Pixel { .. } => "a:pixel", Case::Dims { .. } => "b:dims",
            Case::Verb { .. } | Case::VerbMulti { .. } => "e:verbatim",
            Case::Prec { .. } => "c:precedence", Case::Dup { .. } => "d:duplicates",
            Case::ExtractReject { .. } => "e':unsupported-format-rejected",
        }
    }
    fn to_json(&self) -> Value {
        match self {
            Case::Pixel { fmt, set, perm, corrupt } => json!({"family": "pixel", "fmt": fmt, "set": set, "perm": perm, "corrupt": corrupt}),
            Case::Dims { game, fmt, items, sub, corrupt } => json!({"family": "dims", "game": game, "fmt": fmt, "sub": sub,
                "items": items.iter().map(|i| json!([i[0], i[1], i[2], i[3]])).collect::<Vec<_>>(), "corrupt": corrupt}),
            Case::Verb { game, fmt, w, h, ox, oy, rt, script, corrupt } => json!({"family": "verb", "game": game, "fmt": fmt,
                "w": w, "h": h, "ox": ox, "oy": oy, "rt": rt, "script": script, "corrupt": corrupt}),
            Case::VerbMulti { order, script, corrupt } => json!({"family": "verbmulti", "order": order, "script": script, "corrupt": corrupt}),
            Case::Prec { fmt, sources, n_pragma, corrupt } => json!({"family": "prec", "fmt": fmt, "n_pragma": n_pragma,
                "sources": sources.iter().map(|(k, m)| json!([k.to_string(), m])).collect::<Vec<_>>(), "corrupt": corrupt}),
            Case::Dup { fmt, dest, src, dir_mode, corrupt } => json!({"family": "dup", "fmt": fmt, "dest": dest, "src": src, "dir_mode": dir_mode, "corrupt": corrupt}),
            Case::ExtractReject { fmt } => json!({"family": "extract-reject", "fmt": fmt}),
        }
    }
    fn from_json(v: &Value) -> Option<Case> {
        let u = |k: &str| v[k].as_u64().map(|x| x as u16);
        let s = |k: &str| v[k].as_str().map(|x| x.to_string());
        let corrupt = v["corrupt"].as_bool().unwrap_or(false);
        Some(match v["family"].as_str()? {
            "pixel" => Case::Pixel { fmt: u("fmt")?, set: s("set")?, perm: v["perm"].as_u64()? as u32, corrupt },
            "dims" => Case::Dims { game: s("game")?, fmt: u("fmt")?, sub: s("sub").unwrap_or_default(), corrupt,
                items: v["items"].as_array()?.iter().map(|i| {
                    let a = i.as_array()?; Some([a.get(0)?.as_u64()? as u16, a.get(1)?.as_u64()? as u16, a.get(2)?.as_u64()? as u16, a.get(3)?.as_u64()? as u16])
                }).collect::<Option<Vec<_>>>()? },
            "verb" => Case::Verb { game: s("game")?, fmt: u("fmt")?, w: u("w")?, h: u("h")?, ox: u("ox")?, oy: u("oy")?, rt: s("rt")?, script: s("script")?, corrupt },
            "verbmulti" => Case::VerbMulti { order: s("order")?, script: s("script")?, corrupt },
            "prec" => Case::Prec { fmt: u("fmt")?, n_pragma: v["n_pragma"].as_u64()? as usize, corrupt,
                sources: v["sources"].as_array()?.iter().map(|i| {
                    let a = i.as_array()?; Some((a.get(0)?.as_str()?.chars().next()?, a.get(1)?.as_u64()? as u8))
                }).collect::<Option<Vec<_>>>()? },
            "extract-reject" => Case::ExtractReject { fmt: u("fmt")? },
            "dup" => Case::Dup { fmt: u("fmt")?, dest: s("dest")?, src: s("src")?, dir_mode: s("dir_mode")?, corrupt },
            _ => return None,
        })
    }
}

#[derive(Default)]
struct CaseOut {
    calls: u64,
    comparisons: u64,
    configs: u64,
    fails: Vec<(String, Value)>,
    outcomes: Vec<(String, u64)>,
    discards: Vec<String>,
    /// keys of the distinct non-trivial units covered by this case
    nontrivial_keys: Vec<String>,
    nontrivial_pixels: u64,
    wall_ms: u64,
}

// ---------------------------------------------------------------------------------------------
// scratch work area + CLI

static NEXT_DIR: AtomicU64 = AtomicU64::new(0);

/// Same as `drive::run_cli` (this binary as `as-truth-core <args>`, same environment), but spawns a private
/// snapshot of the executable taken once per process from /proc/self/exe, so that a concurrent `cargo build`
/// replacing the binary on disk cannot break the remaining cases of a long run.
fn run_cli_snapshot(args: &[String]) -> crate::drive::CliOut {
    static EXE: std::sync::OnceLock<Option<PathBuf>> = std::sync::OnceLock::new();
    let exe = EXE.get_or_init(|| {
        let dst = scratch_dir().join("truth-verif-snapshot");
        let ok = std::fs::copy("/proc/self/exe", &dst).is_ok() && {
            use std::os::unix::fs::PermissionsExt;
            std::fs::set_permissions(&dst, std::fs::Permissions::from_mode(0o755)).is_ok()
        };
        if ok { Some(dst) } else { None }
    });
    let Some(exe) = exe else { return run_cli(args, &[]); };
    let mut cmd = std::process::Command::new(exe);
    cmd.arg("as-truth-core").args(args);
    cmd.env_remove("TRUTH_MAP_PATH").env_remove("_TRUTH_DEBUG__TEST").env("RUST_BACKTRACE", "0");
    let out = cmd.output().expect("spawn cli snapshot");
    crate::drive::CliOut { status: out.status.code().unwrap_or(-1), stdout: out.stdout, stderr: out.stderr }
}

struct Work { dir: PathBuf, calls: u64, keep: bool }
impl Work {
    fn new() -> Work {
        let n = NEXT_DIR.fetch_add(1, Ordering::Relaxed);
        let dir = scratch_dir().join(format!("c17-{n}"));
        let _ = std::fs::remove_dir_all(&dir);
        std::fs::create_dir_all(&dir).expect("create scratch subdir");
        Work { dir, calls: 0, keep: std::env::var("VERIF_C17_KEEP").is_ok() }
    }
    fn p(&self, name: &str) -> String { self.dir.join(name).to_string_lossy().to_string() }
    fn write(&self, name: &str, data: &[u8]) {
        let p = self.dir.join(name);
        if let Some(parent) = p.parent() { std::fs::create_dir_all(parent).expect("mkdir"); }
        std::fs::write(&p, data).expect("write scratch file");
    }
    fn cli(&mut self, args: &[&str]) -> crate::drive::CliOut {
        self.calls += 1;
        let a: Vec<String> = args.iter().map(|s| s.to_string()).collect();
        // (the harness binary can be replaced by a concurrent build; a failed spawn is a machinery error,
        //  not a property violation)
        match crate::common::catch(|| run_cli_snapshot(&a)) {
            Ok(o) => o,
            Err(p) => crate::drive::CliOut { status: -999, stdout: vec![], stderr: format!("machinery: {}", p.text).into_bytes() },
        }
    }
}
impl Drop for Work {
    fn drop(&mut self) { if !self.keep { let _ = std::fs::remove_dir_all(&self.dir); } }
}

fn clip(b: &[u8]) -> String {
    let s = String::from_utf8_lossy(b);
    let s: String = s.lines().filter(|l| !l.trim().is_empty()).take(12).collect::<Vec<_>>().join("\n");
    s.chars().take(1500).collect()
}

struct StageErr { kind: String, stderr: String }

fn stage(work: &mut Work, name: &str, args: &[&str]) -> Result<Vec<u8>, StageErr> {
    let o = work.cli(args);
    if o.status != 0 {
        let se = clip(&o.stderr);
        let kind = if o.status == -999 { "machinery:spawn-failed".to_string() }
            else if se.contains("panicked at") { format!("{name}-panicked") } else { format!("{name}-failed") };
        return Err(StageErr { kind, stderr: se });
    }
    Ok(o.stdout)
}

// ---------------------------------------------------------------------------------------------
// expectation and comparison

#[derive(Clone, Debug)]
struct Expect {
    path: String,
    /// None: the entry must have no THTX section
    tex: Option<(u16, u16, u16, Vec<u8>)>,
    label: String,
}

#[derive(Debug)]
struct Mis { idx: usize, kind: String, info: Value }

fn px_value(fmt: u16, data: &[u8], i: usize) -> String {
    let b = gen_bpp(fmt);
    let s = data.get(i * b..(i + 1) * b).unwrap_or(&[]);
    let mut v: u64 = 0;
    for (k, &x) in s.iter().enumerate() { v |= (x as u64) << (8 * k); }
    format!("0x{:0width$X}", v, width = b * 2)
}

fn compare(expects: &[Expect], got: &[REntry], comparisons: &mut u64) -> Vec<Mis> {
    let mut out = vec![];
    if expects.len() != got.len() {
        out.push(Mis { idx: 0, kind: "entry-count".into(), info: json!({"expected": expects.len(), "got": got.len()}) });
        return out;
    }
    for (i, (e, g)) in expects.iter().zip(got).enumerate() {
        *comparisons += 1;
        if e.path != g.path {
            out.push(Mis { idx: i, kind: "entry-path".into(), info: json!({"expected": e.path, "got": g.path}) });
            continue;
        }
        match (&e.tex, &g.thtx) {
            (None, None) => {},
            (None, Some(t)) => out.push(Mis { idx: i, kind: "unexpected-thtx".into(), info: json!({"label": e.label, "got": [t.fmt, t.w, t.h]}) }),
            (Some(_), None) => out.push(Mis { idx: i, kind: "missing-thtx".into(), info: json!({"label": e.label}) }),
            (Some((fmt, w, h, data)), Some(t)) => {
                if (*fmt, *w, *h) != (t.fmt, t.w, t.h) {
                    out.push(Mis { idx: i, kind: "thtx-header".into(), info: json!({"label": e.label, "expected": [fmt, w, h], "got": [t.fmt, t.w, t.h]}) });
                } else if data.len() != t.data.len() {
                    out.push(Mis { idx: i, kind: "thtx-size".into(), info: json!({"label": e.label, "expected": data.len(), "got": t.data.len()}) });
                } else if *data != t.data {
                    let b = gen_bpp(*fmt);
                    let n = data.len() / b;
                    let mut bad = vec![];
                    let mut count = 0u64;
                    let mut min_value: Option<String> = None;
                    for p in 0..n {
                        if data[p * b..(p + 1) * b] != t.data[p * b..(p + 1) * b] {
                            count += 1;
                            let v = px_value(*fmt, data, p);   // fixed width hex: string order == numeric order
                            if min_value.as_ref().map(|m| v < *m).unwrap_or(true) { min_value = Some(v); }
                            if bad.len() < 8 { bad.push(json!({"index": p, "x": p % (*w as usize), "y": p / (*w as usize), "expected": px_value(*fmt, data, p), "got": px_value(*fmt, &t.data, p)})); }
                        }
                    }
                    let first = bad[0]["expected"].as_str().unwrap_or("").to_string();
                    out.push(Mis { idx: i, kind: "pixel".into(), info: json!({"label": e.label, "first_value": first, "min_value": min_value, "mismatching_pixels": count, "of": n, "first": bad}) });
                }
            },
        }
    }
    out
}

fn corrupt_expect(expects: &mut [Expect], pixel_index: usize) {
    for e in expects.iter_mut() {
        if let Some((fmt, _, _, data)) = &mut e.tex {
            let b = gen_bpp(*fmt);
            let n = data.len() / b;
            if n == 0 { continue; }
            let p = pixel_index.min(n - 1);
            data[p * b] ^= 0x01;
            return;
        }
    }
}

// ---------------------------------------------------------------------------------------------
// running one case

fn entry_src(path: &str, extra: &str) -> String {
    format!("entry {{\n    path: \"{path}\",\n{extra}    sprites: {{}},\n}}\n\n")
}

fn fail_detail(case: &Case, stage: &str, stderr: &str, info: Value) -> Value {
    json!({"case": case.to_json(), "stage": stage, "stderr": stderr, "info": info})
}

fn run_case(case: &Case) -> CaseOut {
    let t0 = Instant::now();
    let mut out = CaseOut::default();
    let mut work = Work::new();
    match case {
        Case::Pixel { fmt, set, perm, corrupt } => run_pixel(case, *fmt, set, *perm, *corrupt, &mut work, &mut out),
        Case::Dims { game: g, fmt, items, sub, corrupt } => run_dims(case, game(g), *fmt, items, sub, *corrupt, &mut work, &mut out),
        Case::Verb { .. } | Case::VerbMulti { .. } => run_verb(case, &mut work, &mut out),
        Case::Prec { fmt, sources, n_pragma, corrupt } => run_prec(case, *fmt, sources, *n_pragma, *corrupt, &mut work, &mut out),
        Case::Dup { fmt, dest, src, dir_mode, corrupt } => run_dup(case, *fmt, dest, src, dir_mode, *corrupt, &mut work, &mut out),
        Case::ExtractReject { fmt } => run_extract_reject(case, *fmt, &mut work, &mut out),
    }
    out.calls = work.calls;
    out.wall_ms = t0.elapsed().as_millis() as u64;
    out
}

/// orig.anm -> decompile -> extract -> compile -i dir -> parsed output
///
/// `anm_then_dir`: the README's "recompile and replace images" flow instead: a minimal script (paths only),
/// `-i orig.anm -i extracted_dir` (metadata incl. offsets/format from the ANM, pixels from the directory).
fn roundtrip_via_dir(work: &mut Work, g: GameV, entries: &[AEntry], anm_then_dir: bool) -> Result<Vec<REntry>, StageErr> {
    let orig = write_anm(entries, g);
    work.write("orig.anm", &orig);
    let (po, ps, pe, pout) = (work.p("orig.anm"), work.p("a.spec"), work.p("ex"), work.p("out.anm"));
    if anm_then_dir {
        let script: String = entries.iter().map(|e| entry_src(&e.path, "")).collect();
        work.write("a.spec", script.as_bytes());
    } else {
        let script = stage(work, "decompile", &["truanm", "decompile", "-g", g.name, &po])?;
        work.write("a.spec", &script);
    }
    stage(work, "extract", &["truanm", "extract", "-g", g.name, &po, "-o", &pe])?;
    if anm_then_dir {
        stage(work, "compile", &["truanm", "compile", "-g", g.name, &ps, "-o", &pout, "-i", &po, "-i", &pe])?;
    } else {
        stage(work, "compile", &["truanm", "compile", "-g", g.name, &ps, "-o", &pout, "-i", &pe])?;
    }
    let bytes = std::fs::read(&pout).map_err(|e| StageErr { kind: "output-missing".into(), stderr: e.to_string() })?;
    read_anm(&bytes, g.old).map_err(|e| StageErr { kind: "output-unreadable".into(), stderr: e })
}

fn run_pixel(case: &Case, fmt: u16, set: &str, perm: u32, corrupt: bool, work: &mut Work, out: &mut CaseOut) {
    let (w, h, data) = pixel_set(fmt, set, perm);
    let g = game("th12");
    let e = AEntry::new("px/all.png", fmt, w, h, 0, 0, data.clone());
    out.configs = 1;
    if perm == 0 && bpp(fmt) == Some(2) {
        out.nontrivial_pixels = (0..65536u32).filter(|&v| nontrivial16(fmt, v as u16)).count() as u64;
    }
    let mut expects = vec![Expect { path: e.path.clone(), tex: Some((fmt, w, h, data)), label: format!("{set}/perm{perm}") }];
    if corrupt { corrupt_expect(&mut expects, 0x1234); }
    let name = fmt_name(fmt);
    match roundtrip_via_dir(work, g, &[e], false) {
        Err(se) => out.fails.push((format!("C17:pixel:{name}:{}", se.kind), fail_detail(case, &se.kind, &se.stderr, json!(null)))),
        Ok(got) => {
            let mis = compare(&expects, &got, &mut out.comparisons);
            if mis.is_empty() { out.outcomes.push((format!("pixel:{name}:{set}:roundtrip-identical"), 1)); }
            for m in mis {
                // the smallest failing original pixel value (independent of the arrangement of the values in the texture)
                let sig = if m.kind == "pixel" { format!("C17:pixel:{name}:{}", m.info["min_value"].as_str().unwrap_or("?")) }
                    else { format!("C17:pixel:{name}:{}", m.kind) };
                out.fails.push((sig, fail_detail(case, "compare", "", m.info)));
            }
        },
    }
}

fn dims_entry(fmt: u16, it: &[u16; 4], old: bool) -> AEntry {
    let [w, h, ox, oy] = *it;
    let (ox, oy) = if old { (0, 0) } else { (ox, oy) };
    let seed = (w as u32) * 131 + (h as u32) * 7 + (ox as u32) * 17 + oy as u32;
    AEntry::new(&format!("d/{w}x{h}+{ox}+{oy}.png"), fmt, w, h, ox, oy, pattern(fmt, w, h, seed))
}

fn run_dims(case: &Case, g: GameV, fmt: u16, items: &[[u16; 4]], sub: &str, corrupt: bool, work: &mut Work, out: &mut CaseOut) {
    let entries: Vec<AEntry> = items.iter().map(|it| dims_entry(fmt, it, g.old)).collect();
    out.configs = items.len() as u64;
    let name = fmt_name(fmt);
    for e in &entries {
        if e.ox != 0 || e.oy != 0 { out.nontrivial_keys.push(format!("dims:{}:{}:{}x{}+{}+{}", g.name, fmt, e.w, e.h, e.ox, e.oy)); }
    }
    let mut expects: Vec<Expect> = entries.iter().map(|e| Expect { path: e.path.clone(), tex: Some((fmt, e.w, e.h, e.data.clone())), label: e.path.clone() }).collect();
    if corrupt { corrupt_expect(&mut expects, 1); }
    let offclass = |i: usize| if entries[i].ox != 0 || entries[i].oy != 0 { "off>0" } else { "off=0" };
    match roundtrip_via_dir(work, g, &entries, sub.contains("anm+dir")) {
        Err(se) => out.fails.push((format!("C17:dims:{name}:{}", se.kind), fail_detail(case, &se.kind, &se.stderr, json!({"item": null})))),
        Ok(got) => {
            let mis = compare(&expects, &got, &mut out.comparisons);
            let nbad = mis.len() as u64;
            let okn = (items.len() as u64).saturating_sub(nbad);
            if okn > 0 { out.outcomes.push((format!("dims:{sub}:{name}:roundtrip-identical"), okn)); }
            for m in mis {
                let sig = format!("C17:dims:{name}:{}:{}", offclass(m.idx.min(entries.len() - 1)), m.kind);
                let item = items.get(m.idx).map(|i| json!([i[0], i[1], i[2], i[3]])).unwrap_or(json!(null));
                out.fails.push((sig, fail_detail(case, "compare", "", json!({"item": item, "item_index": m.idx, "mismatch": m.info}))));
            }
        },
    }
}

fn verb_script_minimal(entries: &[&AEntry]) -> String {
    entries.iter().map(|e| entry_src(&e.path, "")).collect()
}

fn run_verb(case: &Case, work: &mut Work, out: &mut CaseOut) {
    let (g, entries, order_rev, script_kind, corrupt, label): (GameV, Vec<AEntry>, bool, String, bool, String) = match case {
        Case::Verb { game: gn, fmt, w, h, ox, oy, rt, script, corrupt } => {
            let g = game(gn);
            let (ox, oy) = if g.old { (0, 0) } else { (*ox, *oy) };
            let mut e = AEntry::new(&format!("v/{w}x{h}.png"), *fmt, *w, *h, ox, oy, pattern(*fmt, *w, *h, 5 + *fmt as u32));
            if rt == "big" { e.rt_w = 512; e.rt_h = 1024; }
            (g, vec![e], false, script.clone(), *corrupt, fmt_name(*fmt))
        },
        Case::VerbMulti { order, script, corrupt } => {
            let es = KNOWN_FORMATS.iter().enumerate().map(|(i, &f)| {
                let (w, h) = (5 + 2 * i as u16, 3 + i as u16);
                AEntry::new(&format!("v/m{i}.png"), f, w, h, i as u16, (3 - i) as u16, pattern(f, w, h, 40 + i as u32))
            }).collect();
            (game("th12"), es, order == "reversed", script.clone(), *corrupt, "multi".to_string())
        },
        _ => unreachable!(),
    };
    out.configs = 1;
    if entries.iter().any(|e| e.ox != 0 || e.oy != 0) { out.nontrivial_keys.push(format!("verb:{}", case.to_json())); }
    let orig = write_anm(&entries, g);
    work.write("orig.anm", &orig);
    let (po, ps, pout) = (work.p("orig.anm"), work.p("a.spec"), work.p("out.anm"));
    let dest: Vec<&AEntry> = if order_rev { entries.iter().rev().collect() } else { entries.iter().collect() };
    let r: Result<Vec<u8>, StageErr> = (|| {
        if script_kind == "decompiled" && !order_rev {
            let s = stage(work, "decompile", &["truanm", "decompile", "-g", g.name, &po])?;
            work.write("a.spec", &s);
        } else if script_kind == "decompiled" {
            // explicit metadata written by the harness in the decompiler's vocabulary, reversed entry order
            let s: String = dest.iter().map(|e| entry_src(&e.path, &format!(
                "    img_width: {},\n    img_height: {},\n    img_format: {},\n    offset_x: {},\n    offset_y: {},\n",
                e.w, e.h, fmt_const(e.fmt), e.ox, e.oy))).collect();
            work.write("a.spec", s.as_bytes());
        } else {
            work.write("a.spec", verb_script_minimal(&dest).as_bytes());
        }
        stage(work, "compile", &["truanm", "compile", "-g", g.name, &ps, "-o", &pout, "-i", &po])?;
        std::fs::read(&pout).map_err(|e| StageErr { kind: "output-missing".into(), stderr: e.to_string() })
    })();
    let mut expects: Vec<Expect> = dest.iter().map(|e| Expect { path: e.path.clone(), tex: Some((e.fmt, e.w, e.h, e.data.clone())), label: e.path.clone() }).collect();
    if corrupt { corrupt_expect(&mut expects, 2); }
    match r.and_then(|b| read_anm(&b, g.old).map(|e| (b, e)).map_err(|e| StageErr { kind: "output-unreadable".into(), stderr: e })) {
        Err(se) => out.fails.push((format!("C17:verbatim:{label}:{}", se.kind), fail_detail(case, &se.kind, &se.stderr, json!(null)))),
        Ok((bytes, got)) => {
            let mis = compare(&expects, &got, &mut out.comparisons);
            if mis.is_empty() {
                let class = if entries.iter().all(|e| bpp(e.fmt).is_some()) { "thtx-verbatim" } else { "unknown-format-passthrough" };
                out.outcomes.push((format!("verbatim:{label}:{script_kind}:{class}"), 1));
                if !order_rev {
                    out.outcomes.push((if bytes == orig { "verbatim:whole-file-identical".to_string() } else { "verbatim:whole-file-differs(thtx-identical)".to_string() }, 1));
                }
            }
            for m in mis {
                out.fails.push((format!("C17:verbatim:{label}:{}", m.kind), fail_detail(case, "compare", "", m.info)));
            }
        },
    }
}

fn run_extract_reject(case: &Case, fmt: u16, work: &mut Work, out: &mut CaseOut) {
    let g = game("th12");
    out.configs = 1;
    let name = fmt_name(fmt);
    let es = vec![
        AEntry::new("x/unknown.png", fmt, 3, 2, 0, 0, pattern(fmt, 3, 2, 1)),
        AEntry::new("x/known.png", F_GRAY8, 5, 1, 0, 0, pattern(F_GRAY8, 5, 1, 2)),
    ];
    work.write("orig.anm", &write_anm(&es, g));
    let (po, pe) = (work.p("orig.anm"), work.p("ex"));
    let o = work.cli(&["truanm", "extract", "-g", g.name, &po, "-o", &pe]);
    let se = clip(&o.stderr);
    let unknown_written = work.dir.join("ex/x/unknown.png").exists();
    let known_written = work.dir.join("ex/x/known.png").exists();
    out.comparisons += 1;
    let info = json!({"exit": o.status, "unknown_png_written": unknown_written, "known_png_written": known_written});
    if o.status == -999 {
        out.fails.push(("machinery:spawn-failed".into(), fail_detail(case, "extract", &se, info)));
    } else if se.contains("panicked at") {
        out.fails.push((format!("C17:extract-unsupported-format:{name}:panicked"), fail_detail(case, "extract", &se, info)));
    } else if unknown_written || o.status == 0 {
        out.fails.push((format!("C17:extract-unsupported-format:{name}:not-rejected"), fail_detail(case, "extract", &se, info)));
    } else {
        out.outcomes.push((format!("extract:{name}:rejected-with-error{}", if known_written { "+others-exported" } else { "" }), 1));
    }
}

const PREC_PATHS: [&str; 2] = ["pr/a.png", "pr/b.png"];

/// the texture that source number `k` supplies for path number `j`
fn prec_fill(fmt: u16, k: usize, j: usize) -> (u16, u16, Vec<u8>) {
    let (w, h) = (3 + k as u16, 2 + j as u16);
    (w, h, pattern(fmt, w, h, 100 + (k * 2 + j) as u32))
}

fn run_prec(case: &Case, fmt: u16, sources: &[(char, u8)], n_pragma: usize, corrupt: bool, work: &mut Work, out: &mut CaseOut) {
    let g = game("th12");
    out.configs = 1;
    let name = fmt_name(fmt);
    let kinds: String = sources.iter().map(|s| s.0).collect();
    // materialise the sources
    let mut src_paths: Vec<String> = vec![];
    // a lower-case kind ('a' / 'd') is source 0 named AGAIN (the same path a second time): it supplies what source 0 supplies
    let eff = |k: usize| if sources[k].0.is_lowercase() { 0 } else { k };
    for (k, &(kind, mask)) in sources.iter().enumerate() {
        if kind.is_lowercase() { let p0: String = src_paths[0].clone(); src_paths.push(p0); continue; }
        let supplied: Vec<usize> = (0..2).filter(|j| mask & (1 << j) != 0).collect();
        if kind == 'A' {
            let es: Vec<AEntry> = supplied.iter().map(|&j| { let (w, h, d) = prec_fill(fmt, k, j); AEntry::new(PREC_PATHS[j], fmt, w, h, 0, 0, d) }).collect();
            work.write(&format!("s{k}.anm"), &write_anm(&es, g));
            src_paths.push(work.p(&format!("s{k}.anm")));
        } else {
            for &j in &supplied {
                let (w, h, d) = prec_fill(fmt, k, j);
                work.write(&format!("s{k}/{}", PREC_PATHS[j]), &write_png_rgba(w as u32, h as u32, &ref_to_rgba(fmt, &d)));
            }
            std::fs::create_dir_all(work.dir.join(format!("s{k}"))).expect("mkdir");
            src_paths.push(work.p(&format!("s{k}")));
        }
    }
    // the script + expectation
    let mut script = String::new();
    for p in &src_paths[..n_pragma] { script += &format!("#pragma image_source \"{p}\"\n"); }
    script += "\n";
    let mut expects = vec![];
    let mut multi = false;
    for j in 0..2 {
        let suppliers: Vec<usize> = (0..sources.len()).filter(|&k| sources[k].1 & (1 << j) != 0).collect();
        if suppliers.len() >= 2 { multi = true; }
        match suppliers.last() {
            Some(&k) => {
                script += &entry_src(PREC_PATHS[j], &format!("    img_format: {},\n", fmt_const(fmt)));
                let (w, h, d) = prec_fill(fmt, eff(k), j);
                expects.push(Expect { path: PREC_PATHS[j].into(), tex: Some((fmt, w, h, d)), label: format!("path{j}:winner=source{k}({})", sources[k].0) });
            },
            None => {
                script += &entry_src(PREC_PATHS[j], "    has_data: false,\n    rt_width: 16,\n    rt_height: 16,\n");
                expects.push(Expect { path: PREC_PATHS[j].into(), tex: None, label: format!("path{j}:unsupplied") });
            },
        }
    }
    if multi { out.nontrivial_keys.push(format!("prec:{}", case.to_json())); }
    if corrupt { corrupt_expect(&mut expects, 3); }
    work.write("a.spec", script.as_bytes());
    let (ps, pout) = (work.p("a.spec"), work.p("out.anm"));
    let mut args: Vec<&str> = vec!["truanm", "compile", "-g", g.name, &ps, "-o", &pout];
    for p in &src_paths[n_pragma..] { args.push("-i"); args.push(p); }
    let r = stage(work, "compile", &args)
        .and_then(|_| std::fs::read(&pout).map_err(|e| StageErr { kind: "output-missing".into(), stderr: e.to_string() }))
        .and_then(|b| read_anm(&b, g.old).map_err(|e| StageErr { kind: "output-unreadable".into(), stderr: e }));
    match r {
        Err(se) => out.fails.push((format!("C17:precedence:{name}:{kinds}:{}", se.kind), fail_detail(case, &se.kind, &se.stderr, json!({"script": script})))),
        Ok(got) => {
            let mis = compare(&expects, &got, &mut out.comparisons);
            if mis.is_empty() { out.outcomes.push((format!("precedence:{name}:{kinds}:last-supplier-wins"), 1)); }
            for m in mis {
                // which source's fill did we get instead?
                let mut got_from = "none".to_string();
                if let Some(t) = got.get(m.idx).and_then(|e| e.thtx.as_ref()) {
                    for k in 0..sources.len() {
                        let (w, h, d) = prec_fill(fmt, eff(k), m.idx);
                        if (t.w, t.h) == (w, h) && t.data == d { got_from = format!("source{k}({})", sources[k].0); }
                    }
                    if got_from == "none" { got_from = "unrecognised-bytes".into(); }
                }
                let kind = if got_from.starts_with("source") && !expects[m.idx].label.ends_with(&got_from) { "wrong-winner".to_string() } else { m.kind.clone() };
                out.fails.push((format!("C17:precedence:{name}:{kinds}:{kind}"),
                    fail_detail(case, "compare", "", json!({"mismatch": m.info, "expected": expects[m.idx].label, "got_texture_of": got_from, "script": script}))));
            }
        },
    }
}

const DUP_P: &str = "dup/p.png";
const DUP_Q: &str = "dup/q.png";

/// fill id: 0..=2 the i-th P entry of the source ANM, 8 = the directory's P file, 9 = the source ANM's Q
fn dup_fill(fmt: u16, id: usize) -> (u16, u16, Vec<u8>) {
    let (w, h) = (3 + id as u16, 2);
    (w, h, pattern(fmt, w, h, 200 + id as u32))
}

fn run_dup(case: &Case, fmt: u16, dest: &str, src: &str, dir_mode: &str, corrupt: bool, work: &mut Work, out: &mut CaseOut) {
    let g = game("th12");
    out.configs = 1;
    let name = fmt_name(fmt);
    let n = dest.matches('P').count();
    let m = src.matches('P').count();
    let src_has_q = src.contains('Q');
    // source ANM
    let mut es = vec![];
    let mut pi = 0;
    for c in src.chars() {
        if c == 'P' { let (w, h, d) = dup_fill(fmt, pi); es.push(AEntry::new(DUP_P, fmt, w, h, 0, 0, d)); pi += 1; }
        else { let (w, h, d) = dup_fill(fmt, 9); es.push(AEntry::new(DUP_Q, fmt, w, h, 0, 0, d)); }
    }
    work.write("src.anm", &write_anm(&es, g));
    if dir_mode != "none" {
        let (w, h, d) = dup_fill(fmt, 8);
        work.write(&format!("sd/{DUP_P}"), &write_png_rgba(w as u32, h as u32, &ref_to_rgba(fmt, &d)));
    }
    // script + expectation
    let mut script = String::new();
    let mut expects = vec![];
    let mut pi = 0;
    let nodata = "    has_data: false,\n    rt_width: 16,\n    rt_height: 16,\n";
    let withfmt = format!("    img_format: {},\n", fmt_const(fmt));
    for c in dest.chars() {
        if c == 'P' {
            // which fill should the pi-th P entry end up with?
            let want: Option<usize> = match dir_mode {
                "none" => if pi < m { Some(pi) } else { None },
                "after" => Some(8),
                "before" => if pi < m { Some(pi) } else { Some(8) },
                _ => panic!("dir_mode"),
            };
            match want {
                Some(id) => {
                    script += &entry_src(DUP_P, &withfmt);
                    let (w, h, d) = dup_fill(fmt, id);
                    expects.push(Expect { path: DUP_P.into(), tex: Some((fmt, w, h, d)), label: format!("P#{pi}:fill{id}") });
                },
                None => {
                    script += &entry_src(DUP_P, nodata);
                    expects.push(Expect { path: DUP_P.into(), tex: None, label: format!("P#{pi}:no-data") });
                },
            }
            pi += 1;
        } else if src_has_q {
            script += &entry_src(DUP_Q, &withfmt);
            let (w, h, d) = dup_fill(fmt, 9);
            expects.push(Expect { path: DUP_Q.into(), tex: Some((fmt, w, h, d)), label: "Q:fill9".into() });
        } else {
            script += &entry_src(DUP_Q, nodata);
            expects.push(Expect { path: DUP_Q.into(), tex: None, label: "Q:no-data".into() });
        }
    }
    if dir_mode != "none" { out.nontrivial_keys.push(format!("dup:{}", case.to_json())); }
    if corrupt { corrupt_expect(&mut expects, 1); }
    work.write("a.spec", script.as_bytes());
    let (ps, pout, psrc, pdir) = (work.p("a.spec"), work.p("out.anm"), work.p("src.anm"), work.p("sd"));
    let mut args: Vec<&str> = vec!["truanm", "compile", "-g", g.name, &ps, "-o", &pout];
    match dir_mode {
        "none" => args.extend(["-i", &psrc]),
        "after" => args.extend(["-i", &psrc, "-i", &pdir]),
        _ => args.extend(["-i", &pdir, "-i", &psrc]),
    }
    let r = stage(work, "compile", &args)
        .and_then(|_| std::fs::read(&pout).map_err(|e| StageErr { kind: "output-missing".into(), stderr: e.to_string() }))
        .and_then(|b| read_anm(&b, g.old).map_err(|e| StageErr { kind: "output-unreadable".into(), stderr: e }));
    let tag = format!("n{n}m{m}:dir-{dir_mode}");
    match r {
        Err(se) => out.fails.push((format!("C17:duplicates:{name}:{tag}:{}", se.kind), fail_detail(case, &se.kind, &se.stderr, json!({"script": script})))),
        Ok(got) => {
            let mis = compare(&expects, &got, &mut out.comparisons);
            if mis.is_empty() { out.outcomes.push((format!("duplicates:{name}:{tag}:matched-in-order"), 1)); }
            for m_ in mis {
                let mut got_from = "none".to_string();
                if let Some(t) = got.get(m_.idx).and_then(|e| e.thtx.as_ref()) {
                    got_from = "unrecognised-bytes".into();
                    for id in [0usize, 1, 2, 8, 9] {
                        let (w, h, d) = dup_fill(fmt, id);
                        if (t.w, t.h) == (w, h) && t.data == d { got_from = format!("fill{id}"); }
                    }
                }
                let kind = if got_from.starts_with("fill") && !expects[m_.idx].label.ends_with(&got_from) { "wrong-match".to_string() } else { m_.kind.clone() };
                out.fails.push((format!("C17:duplicates:{name}:{tag}:{kind}"),
                    fail_detail(case, "compare", "", json!({"mismatch": m_.info, "expected": expects[m_.idx].label, "got_texture_of": got_from, "script": script}))));
            }
        },
    }
}

// =============================================================================================
// enumeration

fn layouts(counts: &[usize]) -> Vec<String> {
    // n P's, optionally one Q at any position
    let mut v = vec![];
    for &n in counts {
        v.push("P".repeat(n));
        for pos in 0..=n { let mut s = "P".repeat(n); s.insert(pos, 'Q'); v.push(s); }
    }
    v
}

fn gen_cases(thorough: bool) -> Vec<Case> {
    let mut cases = vec![];
    let th12 = "th12".to_string();

    // ---- (a) pixel-exhaustive
    for perm in 0..2 {
        cases.push(Case::Pixel { fmt: F_RGB565, set: "all16".into(), perm, corrupt: false });
        cases.push(Case::Pixel { fmt: F_ARGB4444, set: "all16".into(), perm, corrupt: false });
    }
    cases.push(Case::Pixel { fmt: F_ARGB8888, set: "sweep32".into(), perm: 0, corrupt: false });
    cases.push(Case::Pixel { fmt: F_ARGB8888, set: "bound32".into(), perm: 0, corrupt: false });
    for perm in 0..2 { cases.push(Case::Pixel { fmt: F_GRAY8, set: "all8".into(), perm, corrupt: false }); }

    // ---- (e) verbatim
    let sizes_q: &[(u16, u16)] = &[(1, 1), (3, 5), (7, 20), (27, 25), (64, 64), (105, 100), (256, 1), (1, 256), (257, 3)];
    let sizes_t: &[(u16, u16)] = &[(2, 2), (16, 16), (63, 65), (100, 105), (511, 2), (2, 511), (255, 255)];
    let offs: &[(u16, u16)] = &[(0, 0), (105, 9), (1, 8)];
    let mut fmts_e: Vec<u16> = KNOWN_FORMATS.to_vec();
    fmts_e.push(8);
    if thorough { fmts_e.extend([0u16, 2, 4, 6, 0xFFFF]); }
    let mut sizes: Vec<(u16, u16)> = sizes_q.to_vec();
    if thorough { sizes.extend_from_slice(sizes_t); }
    for &fmt in &fmts_e { for &(w, h) in &sizes { for &(ox, oy) in offs { for script in ["decompiled", "minimal"] {
        // quick: every size with the large offset, and the other offsets with two sizes; thorough: full product
        if !thorough && (ox, oy) != (105, 9) && !matches!((w, h), (3, 5) | (64, 64)) { continue; }
        if !thorough && matches!((w, h), (3, 5) | (27, 25) | (256, 1) | (1, 256)) && (ox, oy) == (105, 9) { continue; }
        cases.push(Case::Verb { game: th12.clone(), fmt, w, h, ox, oy, rt: "default".into(), script: script.into(), corrupt: false });
    } } } }
    for &fmt in &KNOWN_FORMATS { for script in ["decompiled", "minimal"] {
        cases.push(Case::Verb { game: th12.clone(), fmt, w: 7, h: 20, ox: 3, oy: 0, rt: "big".into(), script: script.into(), corrupt: false });
    } }
    for gv in GAMES.iter().filter(|g| g.name != "th12") { for &fmt in &KNOWN_FORMATS { for script in ["decompiled", "minimal"] {
        cases.push(Case::Verb { game: gv.name.into(), fmt, w: 5, h: 3, ox: 2, oy: 1, rt: "default".into(), script: script.into(), corrupt: false });
    } } }
    for order in ["same", "reversed"] { for script in ["decompiled", "minimal"] {
        cases.push(Case::VerbMulti { order: order.into(), script: script.into(), corrupt: false });
    } }

    for fmt in if thorough { vec![0u16, 2, 4, 6, 8, 0xFFFF] } else { vec![8u16] } { cases.push(Case::ExtractReject { fmt }); }

    // ---- (c) precedence: every sequence of 1..=3 sources over {A,D} x {mask 1,2,3}
    let opts: Vec<(char, u8)> = ['A', 'D'].iter().flat_map(|&k| (1u8..=3).map(move |m| (k, m))).collect();
    let mut seqs: Vec<Vec<(char, u8)>> = vec![];
    for a in &opts { seqs.push(vec![*a]); }
    for a in &opts { for b in &opts { seqs.push(vec![*a, *b]); } }
    for a in &opts { for b in &opts { for c in &opts { seqs.push(vec![*a, *b, *c]); } } }
    // the same source named twice with another source in between ("-i X -i Y -i X", or pragma X, then -i Y -i X): X wins again
    for a in &opts { for b in &opts {
        if a.1 & b.1 == 0 { continue; }
        seqs.push(vec![*a, *b, (a.0.to_ascii_lowercase(), a.1)]);
    } }
    for seq in &seqs {
        let n = seq.len();
        let fmts: Vec<u16> = if thorough { KNOWN_FORMATS.to_vec() } else if n <= 2 { vec![F_ARGB8888, F_RGB565] } else { vec![F_ARGB8888] };
        for &fmt in &fmts {
            let repeated = seq.iter().any(|s| s.0.is_lowercase());
            let splits: Vec<usize> = if thorough || repeated { (0..=n).collect() } else if n <= 2 && fmt == F_ARGB8888 { vec![0, n] } else { vec![0] };
            if !thorough && fmt != F_ARGB8888 && seq.iter().any(|s| s.1 != 3) { continue; }  // quick: 2nd format only with full suppliers
            for n_pragma in splits { cases.push(Case::Prec { fmt, sources: seq.clone(), n_pragma, corrupt: false }); }
        }
    }

    // ---- (d) duplicates
    let dests = layouts(&[2, 3]);
    let srcs = layouts(&[1, 2, 3]);
    for dir_mode in ["none", "after", "before"] {
        let fmts: Vec<u16> = if thorough { KNOWN_FORMATS.to_vec() } else if dir_mode == "none" { vec![F_ARGB8888, F_RGB565] } else { vec![F_ARGB8888] };
        for &fmt in &fmts { for d in &dests { for s in &srcs {
            // quick: the second format only on the layouts without an interleaved other-path entry
            if !thorough && fmt != F_ARGB8888 && (d.contains('Q') || s.contains('Q')) { continue; }
            // quick: with a directory, only source layouts without the other-path entry
            if !thorough && dir_mode != "none" && s.contains('Q') { continue; }
            cases.push(Case::Dup { fmt, dest: d.clone(), src: s.clone(), dir_mode: dir_mode.into(), corrupt: false });
        } } }
    }

    // ---- (b) dims x offsets: single-entry files on the quick grid
    let grid: [u16; 6] = [1, 2, 3, 7, 16, 64];
    let qoff: [u16; 3] = [0, 1, 8];
    for &fmt in &KNOWN_FORMATS { for &w in &grid { for &h in &grid { for &ox in &qoff { for &oy in &qoff {
        // quick: single-entry files for every offset at size 3x7 and, at offset (1,8), every size (RGB565) / square sizes (others); the
        // whole grid x offsets product is additionally covered by the multi-entry file below.
        if !thorough && (w, h) != (3, 7) && !((ox, oy) == (1, 8) && (fmt == F_RGB565 || w == h)) { continue; }
        cases.push(Case::Dims { game: th12.clone(), fmt, items: vec![[w, h, ox, oy]], sub: "single".into(), corrupt: false });
    } } } } }
    // container versions
    for gv in GAMES.iter().filter(|g| g.name != "th12") { for &fmt in &KNOWN_FORMATS {
        cases.push(Case::Dims { game: gv.name.into(), fmt, items: vec![[5, 3, 2, 1], [64, 1, 0, 8]], sub: "versions".into(), corrupt: false });
    } }
    // one multi-entry batch per format in quick as well (all grid sizes x offsets in one file)
    for &fmt in &KNOWN_FORMATS {
        let mut items = vec![];
        for &w in &grid { for &h in &grid { for &ox in &qoff { for &oy in &qoff { items.push([w, h, ox, oy]); } } } }
        if !thorough { cases.push(Case::Dims { game: th12.clone(), fmt, items: items.clone(), sub: "batch".into(), corrupt: false }); }
        // the same grid through the "-i original.anm -i extracted_dir" flow with a paths-only script
        cases.push(Case::Dims { game: th12.clone(), fmt, items, sub: "batch-anm+dir".into(), corrupt: false });
    }
    for &fmt in &KNOWN_FORMATS { for it in [[3u16, 7, 1, 8], [64, 64, 0, 0], [1, 1, 8, 8]] {
        cases.push(Case::Dims { game: th12.clone(), fmt, items: vec![it], sub: "single-anm+dir".into(), corrupt: false });
    } }
    // thorough: the full product 1..=64 x 1..=64 x 0..=8 x 0..=8 x 4 formats in multi-entry files;
    // offsets of the quick grid first, so that a wall cap leaves a meaningful completed prefix.
    if thorough {
        let mut offsets: Vec<(u16, u16)> = vec![];
        for &ox in &qoff { for &oy in &qoff { offsets.push((ox, oy)); } }
        for ox in 0..=8u16 { for oy in 0..=8u16 { if !offsets.contains(&(ox, oy)) { offsets.push((ox, oy)); } } }
        // (1024 entries per file: process creation dominates the cost, so few large files)
        for &(ox, oy) in &offsets { for &fmt in &KNOWN_FORMATS { for wg in 0..4u16 {
            let mut items = vec![];
            for w in (wg * 16 + 1)..=(wg * 16 + 16) { for h in 1..=64u16 { items.push([w, h, ox, oy]); } }
            cases.push(Case::Dims { game: th12.clone(), fmt, items, sub: "batch".into(), corrupt: false });
        } } }
    }
    cases
}

// =============================================================================================
// run / replay

/// run a case; for a failing multi-entry batch, isolate each failing item as a single-entry case
fn run_with_isolation(case: &Case) -> CaseOut {
    let mut out = run_case(case);
    if let Case::Dims { game, fmt, items, sub, corrupt } = case {
        if items.len() > 1 && !out.fails.is_empty() {
            let mut isolated = vec![];
            let mut seen = BTreeSet::new();
            let whole = out.fails.iter().any(|(_, d)| d["info"]["item"].is_null());
            let suspects: Vec<[u16; 4]> = if whole { items.clone() } else {
                out.fails.iter().filter_map(|(_, d)| { let a = d["info"]["item"].as_array()?; Some([a[0].as_u64()? as u16, a[1].as_u64()? as u16, a[2].as_u64()? as u16, a[3].as_u64()? as u16]) }).collect()
            };
            for it in suspects.into_iter().take(64) {
                if !seen.insert(it) { continue; }
                let single = Case::Dims { game: game.clone(), fmt: *fmt, items: vec![it], sub: format!("{sub}-isolated"), corrupt: *corrupt };
                let o = run_case(&single);
                out.calls += o.calls;
                out.comparisons += o.comparisons;
                isolated.extend(o.fails);
            }
            if !isolated.is_empty() {
                // minimal witnesses replace the batch-level failures
                out.fails = isolated;
            } else {
                // only reproducible in the multi-entry file: keep batch failures, mark them
                for (sig, _) in out.fails.iter_mut() { sig.push_str(":only-in-multi-entry-file"); }
            }
        }
    }
    out
}

pub fn run(tier: &str) -> Report {
    let mut rep = Report::new("C17", tier, "model_checking");
    let thorough = rep.is_thorough();
    rep.rule = "a case is non-trivial if: (a) a 16-bit pixel value whose 8-bit expansion by bit replication differs from the naive zero-filling shift in some channel (counted once per (format,value)); or (b,e) offset_x/offset_y != 0; or (c,d) >= 2 sources supply the same path".into();
    let mut cases = gen_cases(thorough);
    let selftest = std::env::var("VERIF_C17_SELFTEST_CORRUPT").map(|v| v != "0" && !v.is_empty()).unwrap_or(false);
    if selftest {
        // deliberately wrong expectation in the first case of each family: the run MUST report violations
        let mut seen = BTreeSet::new();
        for c in cases.iter_mut() {
            if seen.insert(c.family()) {
                match c {
                    Case::Pixel { corrupt, .. } | Case::Dims { corrupt, .. } | Case::Verb { corrupt, .. } | Case::VerbMulti { corrupt, .. }
                    | Case::Prec { corrupt, .. } | Case::Dup { corrupt, .. } => *corrupt = true,
                    Case::ExtractReject { .. } => {},
                }
            }
        }
        rep.assumptions.push("VERIF_C17_SELFTEST_CORRUPT is set: one expected pixel of the first case of every family was flipped on purpose; violations are expected".into());
    }
    let budget = if thorough { 680 } else { 40 };
    let deadline = std::cmp::min(rep.deadline().checked_sub(Duration::from_secs(30)).unwrap_or(rep.deadline()), rep.start + Duration::from_secs(budget));

    let results = par_map(&cases, Some(deadline), |_, c| run_with_isolation(c));

    let mut fam: BTreeMap<&'static str, (u64, u64, u64, u64, u64, u64)> = BTreeMap::new(); // cases, configs, calls, comparisons, not-run, cpu ms
    let mut nontrivial: BTreeSet<String> = BTreeSet::new();
    let mut nontrivial_pixels = 0u64;
    let mut not_run = 0u64;
    let mut not_run_desc: BTreeMap<String, u64> = BTreeMap::new();
    let mut sampled: BTreeSet<&'static str> = BTreeSet::new();
    for (c, r) in cases.iter().zip(results) {
        let f = fam.entry(c.family()).or_default();
        match r {
            None => {
                not_run += 1; f.4 += 1;
                let d = match c { Case::Dims { sub, .. } => format!("{}:{}", c.family(), sub), _ => c.family().to_string() };
                *not_run_desc.entry(d).or_insert(0) += 1;
            },
            Some(o) => {
                f.0 += 1; f.1 += o.configs; f.2 += o.calls; f.3 += o.comparisons; f.5 += o.wall_ms;
                rep.evaluations += o.calls;
                rep.transitions += o.calls;
                rep.states += o.configs;
                rep.traces_validated += o.comparisons;
                for (k, n) in &o.outcomes { rep.outcome_n(k, *n); }
                for d in &o.discards { rep.discard(d); }
                for k in o.nontrivial_keys { nontrivial.insert(k); }
                nontrivial_pixels += o.nontrivial_pixels;
                if sampled.insert(c.family()) || (rep.samples.len() < 10 && matches!(c, Case::Prec { sources, .. } if sources.len() == 3)) {
                    let mut j = c.to_json();
                    if let Some(items) = j.get_mut("items").and_then(|i| i.as_array_mut()) { items.truncate(4); }
                    rep.sample(json!({"case": j, "cli_calls": o.calls, "texture_comparisons": o.comparisons, "failures": o.fails.len()}));
                }
                for (sig, detail) in o.fails {
                    if sig.contains("machinery:") { rep.machinery_errors.push(format!("{sig}: {}", detail["stderr"].as_str().unwrap_or(""))); }
                    else { rep.fail(sig, detail); }
                }
            },
        }
    }
    rep.nontrivial = nontrivial.len() as u64 + nontrivial_pixels;
    let mut famj = serde_json::Map::new();
    for (k, v) in &fam {
        famj.insert(k.to_string(), json!({"cases_run": v.0, "configurations": v.1, "cli_invocations": v.2, "texture_comparisons": v.3, "cases_not_run": v.4, "cpu_seconds": (v.5 as f64) / 1000.0}));
    }
    rep.extra.insert("families".into(), Value::Object(famj));
    rep.extra.insert("nontrivial_breakdown".into(), json!({"nontrivial_16bit_pixel_values": nontrivial_pixels, "nontrivial_cases(offset!=0 or >=2 suppliers)": nontrivial.len()}));
    let a_done = fam.get("a:pixel").map(|v| v.4 == 0 && v.0 > 0).unwrap_or(false);
    rep.extra.insert("family_a_pixel_exhaustive".into(), json!(a_done));
    if not_run > 0 {
        rep.cap_hit = Some(format!("wall cap: {not_run} of {} cases not run ({})", cases.len(),
            not_run_desc.iter().map(|(k, v)| format!("{k}={v}")).collect::<Vec<_>>().join(", ")));
    }
    rep.exhaustive = not_run == 0;
    rep.bound_completed = if thorough {
        "(a) all 65536 values of RGB565 and ARGB4444 (2 arrangements each), all 256 of GRAY8, ARGB8888 channel sweeps (each channel 0..255, others in {00,5A,FF}^3) + {00,01,7F,80,FE,FF}^4; \
         (b) sizes 1..=64 x 1..=64 x offsets 0..=8 x 0..=8 x 4 formats in multi-entry files (1024 entries each), plus the grid {1,2,3,7,16,64}^2 x {0,1,8}^2 as single-entry files and through the '-i orig.anm -i dir' flow, plus 5 other container versions; \
         (c) all 258 sequences of <=3 sources over {ANM,dir} x {non-empty subsets of 2 paths} x 4 formats x every pragma/-i split; \
         (d) 9 script layouts (2-3 duplicates, optional interleaved other path) x 12 source layouts (1-3 duplicates) x {no dir, dir after, dir before} x 4 formats; \
         (e) -i file.anm for 10 format numbers x 16 sizes x 3 offsets x {decompiled, minimal} scripts, 6 container versions, multi-entry same/reversed order".into()
    } else {
        "(a) as thorough (pixel families are exhaustive in both tiers); (b) grid {1,2,3,7,16,64}^2 x offsets {0,1,8}^2 x 4 formats in one multi-entry file per format (decompiled script + '-i dir', and paths-only script + '-i orig.anm -i dir'), single-entry files for every offset at 3x7 and at offset (1,8) every size (RGB565) / square sizes (other formats), 5 other container versions; \
         (c) all 258 sequences of <=3 sources (ARGB8888; pragma delivery for <=2 sources; RGB565 for <=2 sources supplying both paths); (d) 9 x 12 layouts without a directory (ARGB8888; RGB565 on the layouts without other-path entry), 9 x 3 layouts with a directory after/before; \
         (e) 5 format numbers x {5 sizes at offset (105,9), 2 sizes at offsets (0,0),(1,8)} x 2 scripts, 6 container versions, multi-entry same/reversed order".into()
    };
    rep.assumptions.push("directory-source PNGs authored by the harness (families c, d) use colours exactly representable in the target format (bit-replicated expansion), so any sane quantisation maps them back to the source value".into());
    rep.assumptions.push("precedence/duplicate scripts pin img_format explicitly and use offset 0, so that only the texture choice (not metadata inheritance) is asserted".into());
    rep.assumptions.push("entries without any supplier are written with has_data: false and must come out without a THTX section".into());
    rep.explanation = "Each case hand-assembles ANM files with the harness' own writer, runs the real truanm CLI (decompile, extract, compile -i) in subprocesses on real files, and parses the output with the harness' own reader; THTX header and bytes are compared with the harness-side expectation. evaluations = transitions = CLI invocations; states = distinct (family, configuration); traces = texture comparisons.".into();
    cleanup_scratch();
    rep
}

pub fn replay(detail: &Value) -> i32 {
    let Some(case) = Case::from_json(&detail["case"]) else { eprintln!("C17 replay: cannot parse case"); return 2; };
    println!("C17 replay of {}", case.to_json());
    let o = run_case(&case);
    println!("cli invocations: {}, texture comparisons: {}", o.calls, o.comparisons);
    for (k, n) in &o.outcomes { println!("outcome: {k} x{n}"); }
    for (sig, d) in &o.fails {
        println!("FAIL {sig}");
        println!("{}", serde_json::to_string_pretty(&json!({"stage": d["stage"], "stderr": d["stderr"], "info": d["info"]})).unwrap_or_default());
    }
    cleanup_scratch();
    if o.fails.is_empty() { println!("no mismatch: expected == produced THTX"); 0 } else { 1 }
}
