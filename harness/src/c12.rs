//! C12 — argument encoding and decoding are inverse for every instruction signature.
//!
//! Bounded exhaustive enumeration of (signature, argument list) pairs.  The signatures are declared
//! by a *user mapfile* written by the harness (opcodes 2000.. in TH12 ANM, 100.. in TH08 MSG and the
//! TH06 ECL timeline), the calls are compiled by the real truth code in process, and the emitted
//! argument blob + parameter mask of every instruction is compared with the reference model M7
//! (written here from the documented layout; it never calls into truth).  Then the binary is
//! decompiled with the same mapfile, the printed arguments are compared by VALUE with the source
//! arguments, and the decompiled text is recompiled and must give identical bytes.
//!
//! "Diagnosed, not silently changed": a value that needs more bits than its parameter has, a
//! register in an immediate-only position, a register whose mask bit cannot be stored, a string
//! that cannot be encoded or does not fit must produce a rendered warning or error on its line.
#![allow(dead_code)]

use std::collections::{BTreeMap, BTreeSet};
use serde_json::{json, Value};
use truth::Game;

use crate::common::*;
use crate::drive::{self, CompileOpts, DecompOpts, Kind, Tool};

// =============================================================================================
// Signature language (harness side)

#[derive(Clone, Debug, PartialEq, Eq, PartialOrd, Ord, Hash)]
pub enum StrSize { Block(u32), Fixed(u32, bool), Pascal(u32) }

#[derive(Clone, Debug, PartialEq, Eq, PartialOrd, Ord, Hash)]
pub enum P {
    Int { letter: char, imm: bool, hex: bool, en: Option<String>, arg0: bool },
    Float { imm: bool },
    Off, Time, Pad4, Pad1,
    Str { letter: char, size: StrSize, mask: Option<[u8; 3]>, furibug: bool },
}

fn pint(letter: char) -> P { P::Int { letter, imm: false, hex: false, en: None, arg0: false } }
fn pint_a(letter: char, imm: bool, hex: bool, en: Option<&str>) -> P { P::Int { letter, imm, hex, en: en.map(String::from), arg0: false } }
fn pstr(letter: char, size: StrSize, mask: Option<[u8; 3]>, furibug: bool) -> P { P::Str { letter, size, mask, furibug } }
const MASK77: [u8; 3] = [0x77, 7, 16];

/// (width in bytes, displayed signed) of an integer letter — from the signature documentation.
fn int_layout(letter: char) -> (u32, bool) {
    match letter {
        'S' | 'n' | 'N' | 'E' => (4, true),
        'U' | 'C' => (4, false),
        's' => (2, true), 'u' => (2, false),
        'c' => (1, true), 'b' => (1, false),
        _ => panic!("not an int letter {letter}"),
    }
}

impl P {
    pub fn text(&self) -> String {
        match self {
            P::Int { letter, imm, hex, en, arg0 } => {
                let mut at = vec![];
                if let Some(e) = en { at.push(format!("enum=\"{e}\"")); }
                if *arg0 { at.push("arg0".to_string()); }
                if *imm { at.push("imm".to_string()); }
                if *hex { at.push("hex".to_string()); }
                if at.is_empty() { letter.to_string() } else { format!("{}({})", letter, at.join(";")) }
            },
            P::Float { imm } => if *imm { "f(imm)".into() } else { "f".into() },
            P::Off => "o".into(), P::Time => "t".into(), P::Pad4 => "_".into(), P::Pad1 => "-".into(),
            P::Str { letter, size, mask, furibug } => {
                let mut at = vec![];
                match size {
                    StrSize::Block(bs) | StrSize::Pascal(bs) => at.push(format!("bs={bs}")),
                    StrSize::Fixed(len, nulless) => { at.push(format!("len={len}")); if *nulless { at.push("nulless".into()); } },
                }
                if let Some([m, v, a]) = mask { at.push(format!("mask={m},{v},{a}")); }
                if *furibug { at.push("furibug".into()); }
                format!("{}({})", letter, at.join(";"))
            },
        }
    }
    fn is_pad(&self) -> bool { matches!(self, P::Pad1 | P::Pad4) }
    fn is_str(&self) -> bool { matches!(self, P::Str { .. }) }
    /// documented: strings, o, t and `imm` parameters can never be registers
    fn always_imm(&self) -> bool {
        match self { P::Int { imm, .. } | P::Float { imm } => *imm, P::Off | P::Time | P::Str { .. } => true, P::Pad1 | P::Pad4 => true }
    }
    fn subdword(&self) -> bool { matches!(self, P::Int { letter, arg0: false, .. } if int_layout(*letter).0 < 4) }
    fn nontrivial(&self) -> bool { self.is_pad() || self.is_str() || self.subdword() || matches!(self, P::Off | P::Time) }
}

pub fn sig_text(ps: &[P]) -> String { ps.iter().map(|p| p.text()).collect() }

/// Parse a signature text produced by `sig_text` (used by replay only).
pub fn parse_sig(text: &str) -> Option<Vec<P>> {
    let cs: Vec<char> = text.chars().collect();
    let mut i = 0;
    let mut out = vec![];
    while i < cs.len() {
        let letter = cs[i]; i += 1;
        let mut attrs: Vec<(String, Option<String>)> = vec![];
        if i < cs.len() && cs[i] == '(' {
            let j = (i..cs.len()).find(|&j| cs[j] == ')')?;
            let inner: String = cs[i + 1..j].iter().collect();
            for a in inner.split(';') {
                let a = a.trim();
                match a.split_once('=') { Some((k, v)) => attrs.push((k.trim().into(), Some(v.trim().into()))), None => attrs.push((a.into(), None)) }
            }
            i = j + 1;
        }
        let flag = |k: &str| attrs.iter().any(|(a, _)| a == k);
        let val = |k: &str| attrs.iter().find(|(a, _)| a == k).and_then(|(_, v)| v.clone());
        let p = match letter {
            'S' | 's' | 'U' | 'u' | 'C' | 'c' | 'b' | 'n' | 'N' | 'E' => P::Int {
                letter, imm: flag("imm"), hex: flag("hex"), arg0: flag("arg0"),
                en: val("enum").map(|s| s.trim_matches('"').to_string()),
            },
            'f' => P::Float { imm: flag("imm") },
            'o' => P::Off, 't' => P::Time, '_' => P::Pad4, '-' => P::Pad1,
            'z' | 'm' | 'p' => {
                let size = if let Some(l) = val("len") { StrSize::Fixed(l.parse().ok()?, flag("nulless")) }
                    else { let bs: u32 = val("bs")?.parse().ok()?; if letter == 'p' { StrSize::Pascal(bs) } else { StrSize::Block(bs) } };
                let mask = match val("mask") { None => None, Some(m) => { let v: Vec<u8> = m.split(',').filter_map(|x| x.trim().parse().ok()).collect(); if v.len() != 3 { return None; } Some([v[0], v[1], v[2]]) } };
                P::Str { letter, size, mask, furibug: flag("furibug") }
            },
            _ => return None,
        };
        out.push(p);
    }
    Some(out)
}

#[derive(Clone, Copy, Debug, PartialEq, Eq, PartialOrd, Ord, Hash)]
pub enum Host { Anm12, Msg08, Tl06 }

impl Host {
    fn name(self) -> &'static str { match self { Host::Anm12 => "anm12", Host::Msg08 => "msg08", Host::Tl06 => "tl06" } }
    fn from_name(s: &str) -> Option<Host> { match s { "anm12" => Some(Host::Anm12), "msg08" => Some(Host::Msg08), "tl06" => Some(Host::Tl06), _ => None } }
    fn tool(self) -> Tool {
        match self {
            Host::Anm12 => Tool::new(Kind::Anm, Game::Th12),
            Host::Msg08 => Tool::new(Kind::Msg, Game::Th08),
            Host::Tl06 => Tool::new(Kind::Ecl, Game::Th06),
        }
    }
    fn has_regs(self) -> bool { self == Host::Anm12 }
    fn has_labels(self) -> bool { self == Host::Anm12 }
    fn opcode_base(self) -> u32 { match self { Host::Anm12 => 2000, _ => 100 } }
    fn max_sigs(self) -> usize { match self { Host::Anm12 => 4000, Host::Msg08 => 27, Host::Tl06 => 4000 } }
    fn header_size(self) -> u32 { match self { Host::Anm12 => 8, Host::Msg08 => 4, Host::Tl06 => 8 } }
    fn mapfile_head(self) -> &'static str {
        match self {
            Host::Anm12 => "!anmmap\n!ins_signatures\n",
            Host::Msg08 => "!msgmap\n!ins_signatures\n",
            Host::Tl06 => "!eclmap\n!timeline_ins_signatures\n",
        }
    }
    fn source_head(self) -> &'static str {
        match self {
            Host::Anm12 => ANM_HEAD,
            Host::Msg08 => "meta {\n    table: {\n        0: {script: \"script0\"},\n    }\n}\nscript script0 {\n10:\n",
            Host::Tl06 => "script timeline0 {\n10:\n",
        }
    }
}

const ANM_HEAD: &str = r#"entry {
    path: "subdir/file.png",
    has_data: false,
    img_width: 512,
    img_height: 512,
    img_format: 3,
    offset_x: 0,
    offset_y: 0,
    colorkey: 0,
    memory_priority: 0,
    low_res_scale: false,
    sprites: {
        sprite0: {id: 0, x: 0.0, y: 0.0, w: 512.0, h: 480.0},
    },
}
script script0 {
10:
"#;
const LABEL_TIME: i32 = 10;

/// The validation rules a mapfile signature must obey (from the documentation of `ArgEncoding` /
/// `StringArgSize` and the loader's documented restrictions).
pub fn sig_validity(ps: &[P], host: Host) -> Result<(), &'static str> {
    let o = ps.iter().filter(|p| **p == P::Off).count();
    let t = ps.iter().filter(|p| **p == P::Time).count();
    if o > 1 { return Err("multiple-o"); }
    if t > 1 { return Err("multiple-t"); }
    if t == 1 && o == 0 { return Err("t-without-o"); }
    for (i, p) in ps.iter().enumerate() {
        match p {
            P::Int { letter, arg0: true, .. } => {
                if i != 0 { return Err("arg0-not-first"); }
                if int_layout(*letter).0 > 2 { return Err("arg0-dword"); }
                if host != Host::Tl06 { return Err("arg0-outside-timeline"); }
            },
            P::Str { letter, size, mask, .. } => {
                if let StrSize::Block(_) = size { if i + 1 != ps.len() { return Err("blockstring-not-last"); } }
                if *letter == 'm' && mask.is_none() { return Err("m-without-mask"); }
                if *letter == 'p' && matches!(size, StrSize::Fixed(..)) { return Err("p-with-len"); }
                if let StrSize::Block(0) | StrSize::Pascal(0) = size { return Err("bs-zero"); }
            },
            _ => {},
        }
    }
    Ok(())
}

// =============================================================================================
// Argument values

#[derive(Clone, Debug, PartialEq)]
pub enum A { Int(i32), Flt(u32), Reg(i32), FReg(i32), Str(String), LabOff, LabTime }

impl A {
    fn to_json(&self) -> Value {
        match self {
            A::Int(v) => json!({"i": v}), A::Flt(b) => json!({"f": b}), A::Reg(n) => json!({"r": n}), A::FReg(n) => json!({"fr": n}),
            A::Str(s) => json!({"s": s}), A::LabOff => json!("lo"), A::LabTime => json!("lt"),
        }
    }
    fn from_json(v: &Value) -> Option<A> {
        if v == "lo" { return Some(A::LabOff); }
        if v == "lt" { return Some(A::LabTime); }
        if let Some(x) = v.get("i") { return Some(A::Int(x.as_i64()? as i32)); }
        if let Some(x) = v.get("f") { return Some(A::Flt(x.as_u64()? as u32)); }
        if let Some(x) = v.get("r") { return Some(A::Reg(x.as_i64()? as i32)); }
        if let Some(x) = v.get("fr") { return Some(A::FReg(x.as_i64()? as i32)); }
        if let Some(x) = v.get("s") { return Some(A::Str(x.as_str()?.to_string())); }
        None
    }
    fn is_reg(&self) -> bool { matches!(self, A::Reg(_) | A::FReg(_)) }
    fn src(&self, label: &str) -> String {
        match self {
            A::Int(v) => format!("{}", *v as i64),
            A::Flt(b) => f32_src(*b),
            A::Reg(n) => format!("$REG[{n}]"),
            A::FReg(n) => format!("%REG[{n}]"),
            A::Str(s) => quote(s),
            A::LabOff => format!("offsetof({label})"),
            A::LabTime => format!("timeof({label})"),
        }
    }
}

fn f32_src(bits: u32) -> String {
    let f = f32::from_bits(bits);
    if f.is_infinite() { return if f > 0.0 { "INF".into() } else { "-INF".into() }; }
    let mut s = format!("{}", f.abs());
    if !s.contains('.') { s.push_str(".0"); }
    if f.is_sign_negative() { format!("-{s}") } else { s }
}

fn quote(s: &str) -> String {
    let mut o = String::from("\"");
    for c in s.chars() {
        match c { '"' => o.push_str("\\\""), '\\' => o.push_str("\\\\"), '\n' => o.push_str("\\n"), '\r' => o.push_str("\\r"), '\0' => o.push_str("\\0"), c => o.push(c) }
    }
    o.push('"');
    o
}

fn unquote(t: &str) -> Option<String> {
    let t = t.strip_prefix('"')?.strip_suffix('"')?;
    let mut o = String::new();
    let mut it = t.chars();
    while let Some(c) = it.next() {
        if c == '\\' { match it.next()? { 'n' => o.push('\n'), 'r' => o.push('\r'), '0' => o.push('\0'), '"' => o.push('"'), '\\' => o.push('\\'), _ => return None } }
        else { o.push(c); }
    }
    Some(o)
}

// =============================================================================================
// M7: the reference encoder / expected decode

#[derive(Clone, Debug, PartialEq)]
pub enum Need {
    /// the value needs more bits than the parameter has
    Narrow { letter: String, what: String },
    /// register in a parameter documented as immediate-only: documented to WARN and store the id
    ImmReg,
    /// register whose mask bit does not exist (parameter index >= 16)
    MaskOverflow,
}

#[derive(Clone, Debug, PartialEq)]
pub enum Pr { Int(i32, Option<String>), Reg(i32), Flt(u32), FReg(i32), Str(String), Off(u32), Time(i32) }

#[derive(Clone, Debug, Default)]
pub struct CallModel {
    pub blob: Vec<u8>,
    pub mask: u16,
    pub extra: Option<i32>,
    pub needs: Vec<Need>,
    /// a compile ERROR is documented for this call (message fragment)
    pub error: Option<&'static str>,
    pub printed: Vec<Pr>,
    pub reinterp: bool,
    pub edge: bool,
}

fn fits(v: i64, w: u32) -> bool { let bits = 8 * w; v >= -(1i64 << (bits - 1)) && v < (1i64 << bits) }
fn natural(v: i64, w: u32, signed: bool) -> bool {
    let bits = 8 * w;
    if w == 4 { return true; }
    if signed { v >= -(1i64 << (bits - 1)) && v < (1i64 << (bits - 1)) } else { v >= 0 && v < (1i64 << bits) }
}
fn is_edge(v: i64, w: u32) -> bool {
    let bits = 8 * w;
    [-(1i64 << (bits - 1)), (1i64 << (bits - 1)) - 1, (1i64 << (bits - 1)), (1i64 << bits) - 1, -1].contains(&v)
        || v == -(1i64 << (bits - 1)) - 1 || v == (1i64 << bits)
}
/// what a reader of `w` little-endian bytes with the given signedness sees
fn decode_int(v: i32, w: u32, signed: bool) -> i32 {
    match (w, signed) {
        (4, _) => v,
        (2, true) => v as u16 as i16 as i32, (2, false) => v as u16 as i32,
        (1, true) => v as u8 as i8 as i32, (1, false) => v as u8 as i32,
        _ => unreachable!(),
    }
}

pub fn sjis(s: &str) -> Option<Vec<u8>> {
    let (b, _, bad) = encoding_rs::SHIFT_JIS.encode(s);
    if bad { None } else { Some(b.into_owned()) }
}

fn apply_mask(b: &mut [u8], m: [u8; 3]) {
    let (mut mask, mut vel, acc) = (m[0], m[1], m[2]);
    for x in b.iter_mut() { *x ^= mask; mask = mask.wrapping_add(vel); vel = vel.wrapping_add(acc); }
}

/// Model of one call.  `own_offset`: offset of this instruction from the start of the script (the
/// self-label used by `offsetof`).  `furi`: the furigana-quirk carry-over state of the script.
pub fn model_call(host: Host, ps: &[P], args: &[A], own_offset: u32, furi: &mut Option<Vec<u8>>) -> CallModel {
    let mut m = CallModel::default();
    let mut ai = 0usize;       // index among non-padding parameters
    let mut bit = 0u32;        // index among mask-contributing parameters
    for p in ps {
        match p {
            P::Pad4 => { m.blob.extend([0u8; 4]); continue; },
            P::Pad1 => { m.blob.push(0); continue; },
            _ => {},
        }
        let a = &args[ai]; ai += 1;
        let this_bit = bit; bit += 1;
        let set_mask = |m: &mut CallModel| {
            if this_bit < 16 { m.mask |= 1 << this_bit; } else { m.needs.push(Need::MaskOverflow); }
        };
        if a.is_reg() && !host.has_regs() { m.error = Some("language without registers"); }
        match p {
            P::Int { letter, imm, en, arg0, .. } => {
                let (w0, signed) = int_layout(*letter);
                // arg0 is stored in the 16-bit header field whatever the letter says
                let w = if *arg0 { 2 } else { w0 };
                let (v, reg) = match a { A::Int(v) => (*v, false), A::Reg(n) => (*n, true), _ => panic!("bad arg kind for int: {a:?}") };
                if !fits(v as i64, w) {
                    m.needs.push(Need::Narrow { letter: if *arg0 { "arg0".to_string() } else { letter.to_string() }, what: if reg { "reg".to_string() } else { format!("{v}") } });
                } else if !natural(v as i64, w, signed) { m.reinterp = true; }
                if !reg && is_edge(v as i64, w) { m.edge = true; }
                let stored = decode_int(v, w, if *arg0 { true } else { signed });
                if *arg0 { m.extra = Some(v as u16 as i16 as i32); }
                else { m.blob.extend(&v.to_le_bytes()[..w as usize]); }
                if reg {
                    if *arg0 { m.error = Some("compile-time constant"); }
                    else if *imm { m.needs.push(Need::ImmReg); m.printed.push(Pr::Int(stored, en.clone())); }
                    else { set_mask(&mut m); m.printed.push(Pr::Reg(stored)); }
                } else {
                    m.printed.push(Pr::Int(stored, en.clone().or_else(|| match letter { 'n' => Some("<sprite>".into()), 'N' => Some("<script>".into()), _ => None })));
                }
            },
            P::Float { imm } => {
                match a {
                    A::Flt(b) => { m.blob.extend(b.to_le_bytes()); m.printed.push(Pr::Flt(*b)); if [0x8000_0000u32, 0x7f80_0000, 0xff80_0000].contains(b) { m.edge = true; } },
                    A::FReg(n) => {
                        let b = (*n as f32).to_bits();
                        m.blob.extend(b.to_le_bytes());
                        if *imm { m.needs.push(Need::ImmReg); m.printed.push(Pr::Flt(b)); }
                        else { set_mask(&mut m); m.printed.push(Pr::FReg(*n)); }
                    },
                    _ => panic!("bad arg kind for float: {a:?}"),
                }
            },
            P::Off => {
                match a {
                    A::LabOff => { m.blob.extend(own_offset.to_le_bytes()); m.printed.push(Pr::Off(own_offset)); },
                    A::Int(v) => { m.blob.extend(v.to_le_bytes()); m.printed.push(Pr::Off(*v as u32)); },
                    A::Reg(n) => { m.error = Some("compile-time constant"); m.blob.extend(n.to_le_bytes()); m.printed.push(Pr::Off(*n as u32)); },
                    _ => panic!("bad arg kind for o: {a:?}"),
                }
            },
            P::Time => {
                match a {
                    A::LabTime => { m.blob.extend(LABEL_TIME.to_le_bytes()); m.printed.push(Pr::Time(LABEL_TIME)); },
                    A::Int(v) => { m.blob.extend(v.to_le_bytes()); m.printed.push(Pr::Time(*v)); },
                    A::Reg(n) => { m.error = Some("compile-time constant"); m.blob.extend(n.to_le_bytes()); m.printed.push(Pr::Time(*n)); },
                    _ => panic!("bad arg kind for t: {a:?}"),
                }
            },
            P::Str { size, mask, furibug, .. } => {
                let s = match a { A::Str(s) => s, _ => panic!("bad arg kind for string: {a:?}") };
                let mut b = match sjis(s) { Some(b) => b, None => { m.error = Some("string encoding error"); vec![] } };
                if b.iter().any(|&x| x >= 0x80) { m.edge = true; }
                if !matches!(size, StrSize::Fixed(_, true)) { b.push(0); }
                if *furibug { if let Some(prev) = furi.take() { b.extend(prev); } }
                match size {
                    StrSize::Block(bs) | StrSize::Pascal(bs) => {
                        let bs = (*bs).max(1) as usize;
                        if b.len() % bs == 0 || (b.len() + 1) % bs == 0 { m.edge = true; }
                        while b.len() % bs != 0 { b.push(0); }
                    },
                    StrSize::Fixed(len, _) => {
                        let len = *len as usize;
                        if b.len() + 1 >= len { m.edge = true; }
                        if b.len() > len { if m.error.is_none() { m.error = Some("too large for buffer"); } }
                        b.resize(len, 0);
                    },
                }
                apply_mask(&mut b, mask.unwrap_or([0, 0, 0]));
                if *furibug && s.starts_with('|') { *furi = Some(b.clone()); }
                if let StrSize::Pascal(_) = size { m.blob.extend((b.len() as u32).to_le_bytes()); }
                m.blob.extend(&b);
                m.printed.push(Pr::Str(s.clone()));
            },
            P::Pad1 | P::Pad4 => unreachable!(),
        }
    }
    assert_eq!(ai, args.len(), "argument count does not match signature");
    m
}

// =============================================================================================
// Minimal binary readers (M2-style; only what C12 needs)

#[derive(Clone, Debug, PartialEq)]
pub struct RawI { pub opcode: u32, pub time: i32, pub mask: u16, pub extra: i32, pub blob: Vec<u8>, pub offset: u32 }

fn rd16(b: &[u8], p: usize) -> Result<u16, String> { b.get(p..p + 2).map(|x| u16::from_le_bytes([x[0], x[1]])).ok_or_else(|| format!("read past end at {p:#x}")) }
fn rd32(b: &[u8], p: usize) -> Result<u32, String> { b.get(p..p + 4).map(|x| u32::from_le_bytes([x[0], x[1], x[2], x[3]])).ok_or_else(|| format!("read past end at {p:#x}")) }

pub fn walk(host: Host, b: &[u8]) -> Result<Vec<RawI>, String> {
    let mut out = vec![];
    match host {
        Host::Anm12 => {
            // 64-byte entry header (version u32, num_sprites u16, num_scripts u16, ...), sprite offsets,
            // script table (id i32, offset u32); instr = opcode i16, size u16, time i16, mask u16, blob
            let nsprites = rd16(b, 4)? as usize;
            let nscripts = rd16(b, 6)? as usize;
            if nscripts != 1 { return Err(format!("expected 1 script, found {nscripts}")); }
            let start = rd32(b, 0x40 + 4 * nsprites + 4)? as usize;
            let mut p = start;
            loop {
                let op = rd16(b, p)?;
                if op == 0xFFFF { break; }
                let size = rd16(b, p + 2)? as usize;
                if size < 8 { return Err(format!("instruction size {size} < 8 at {p:#x}")); }
                let blob = b.get(p + 8..p + size).ok_or("blob past end")?.to_vec();
                out.push(RawI { opcode: op as u32, time: rd16(b, p + 4)? as i16 as i32, mask: rd16(b, p + 6)?, extra: 0, blob, offset: (p - start) as u32 });
                p += size;
            }
        },
        Host::Msg08 => {
            // u32 count, u32 offsets; instr = time i16, opcode u8, argsize u8, blob; terminator = 4 zero bytes
            let n = rd32(b, 0)? as usize;
            if n != 1 { return Err(format!("expected 1 table entry, found {n}")); }
            let start = rd32(b, 4)? as usize;
            let mut p = start;
            loop {
                if p + 4 > b.len() { break; }
                let time = rd16(b, p)? as i16 as i32;
                let op = b[p + 2]; let n = b[p + 3] as usize;
                if (time, op, n) == (0, 0, 0) { break; }
                let blob = b.get(p + 4..p + 4 + n).ok_or("blob past end")?.to_vec();
                out.push(RawI { opcode: op as u32, time, mask: 0, extra: 0, blob, offset: (p - start) as u32 });
                p += 4 + n;
            }
        },
        Host::Tl06 => {
            // u16 num_subs, u16 0, timeline offsets (u32 ...), sub offsets; timeline instr = time i16, arg0 i16,
            // opcode u16, size u16, blob; terminator time == -1
            let start = rd32(b, 4)? as usize;
            let mut p = start;
            loop {
                let time = rd16(b, p)? as i16 as i32;
                if time == -1 { break; }
                let extra = rd16(b, p + 2)? as i16 as i32;
                let op = rd16(b, p + 4)?;
                let size = rd16(b, p + 6)? as usize;
                if size < 8 { return Err(format!("instruction size {size} < 8 at {p:#x}")); }
                let blob = b.get(p + 8..p + size).ok_or("blob past end")?.to_vec();
                out.push(RawI { opcode: op as u32, time, mask: 0, extra, blob, offset: (p - start) as u32 });
                p += size;
            }
        },
    }
    Ok(out)
}

// =============================================================================================
// Rendered diagnostics -> (severity, message, source lines)

#[derive(Clone, Debug)]
pub struct Diag { pub sev: String, pub msg: String, pub src_lines: Vec<usize>, pub map_lines: Vec<usize> }

pub fn parse_diags(text: &str) -> Vec<Diag> {
    let mut out: Vec<Diag> = vec![];
    for line in text.lines() {
        let mut started = false;
        for sev in ["error", "warning", "bug"] {
            if line.starts_with(sev) && (line[sev.len()..].starts_with(':') || line[sev.len()..].starts_with('[')) {
                let msg = line.splitn(2, ": ").nth(1).unwrap_or("").to_string();
                out.push(Diag { sev: sev.into(), msg, src_lines: vec![], map_lines: vec![] });
                started = true;
                break;
            }
        }
        if started { continue; }
        if let Some(d) = out.last_mut() {
            for (pat, is_map) in [("─ <input>:", false), ("─ <input mapfile>:", true)] {
                if let Some(i) = line.find(pat) {
                    let rest = &line[i + pat.len()..];
                    let num: String = rest.chars().take_while(|c| c.is_ascii_digit()).collect();
                    if let Ok(n) = num.parse::<usize>() { if is_map { d.map_lines.push(n) } else { d.src_lines.push(n) } }
                }
            }
        }
    }
    out
}

// =============================================================================================
// Decompiled text -> calls

#[derive(Clone, Debug)]
pub struct TextCall { pub opcode: u32, pub args: Vec<String>, pub pseudo: Vec<String>, pub labels: Vec<String> }

fn split_args(s: &str) -> Vec<String> {
    let mut out = vec![]; let mut cur = String::new();
    let (mut depth, mut in_str, mut esc) = (0i32, false, false);
    for c in s.chars() {
        if in_str { cur.push(c); if esc { esc = false } else if c == '\\' { esc = true } else if c == '"' { in_str = false } continue; }
        match c {
            '"' => { in_str = true; cur.push(c) },
            '(' | '[' => { depth += 1; cur.push(c) },
            ')' | ']' => { depth -= 1; cur.push(c) },
            ',' if depth == 0 => { out.push(cur.trim().to_string()); cur.clear(); },
            c => cur.push(c),
        }
    }
    if !cur.trim().is_empty() { out.push(cur.trim().to_string()); }
    out
}

/// Calls of the (single) script body in order, with the labels placed directly before each.
pub fn parse_decompiled(text: &str, script_kw: &str) -> Result<Vec<TextCall>, String> {
    let mut lines = text.lines();
    loop {
        match lines.next() {
            None => return Err("no script in decompiled text".into()),
            Some(l) => if l.starts_with(script_kw) && l.trim_end().ends_with('{') { break; },
        }
    }
    let mut out = vec![]; let mut labels: Vec<String> = vec![];
    for l in lines {
        if l.starts_with('}') { return Ok(out); }
        let t = l.trim();
        if t.is_empty() || t.starts_with("//") { continue; }
        if t.starts_with("ins_") && t.ends_with(");") {
            let open = t.find('(').ok_or("no paren")?;
            let opcode: u32 = t[4..open].parse().map_err(|_| format!("bad opcode in {t:?}"))?;
            let mut args = vec![]; let mut pseudo = vec![];
            for a in split_args(&t[open + 1..t.len() - 2]) { if a.starts_with('@') { pseudo.push(a) } else { args.push(a) } }
            out.push(TextCall { opcode, args, pseudo, labels: std::mem::take(&mut labels) });
            continue;
        }
        let head = t.split("//").next().unwrap().trim();
        if let Some(name) = head.strip_suffix(':') {
            let c0 = name.chars().next().unwrap_or(' ');
            if c0 == '+' || c0 == '-' || c0.is_ascii_digit() { continue; } // time label
            if name.chars().all(|c| c.is_ascii_alphanumeric() || c == '_') { labels.push(name.to_string()); continue; }
        }
        return Err(format!("unrecognised line in decompiled script: {t:?}"));
    }
    Err("unterminated script".into())
}

/// the documented literal syntax: decimal / 0x / 0b as u32 (2^31..2^32 wraps), optional minus
fn parse_int_text(t: &str, en: &Option<String>) -> Option<i32> {
    match (t, en.as_deref()) {
        ("true", Some("bool")) => return Some(1),
        ("false", Some("bool")) => return Some(0),
        ("sprite0", Some("<sprite>")) => return Some(0),
        ("script0", Some("<script>")) => return Some(0),
        _ => {},
    }
    let (neg, body) = match t.strip_prefix('-') { Some(b) => (true, b), None => (false, t) };
    let v: u32 = if let Some(h) = body.strip_prefix("0x") { u32::from_str_radix(h, 16).ok()? }
        else if let Some(h) = body.strip_prefix("0b") { u32::from_str_radix(h, 2).ok()? }
        else { body.parse().ok()? };
    let v = v as i32;
    Some(if neg { v.wrapping_neg() } else { v })
}
fn parse_float_text(t: &str) -> Option<u32> {
    match t { "INF" => return Some(f32::INFINITY.to_bits()), "-INF" => return Some(f32::NEG_INFINITY.to_bits()), _ => {} }
    if !t.chars().all(|c| c.is_ascii_digit() || c == '.' || c == '-') || !t.contains('.') { return None; }
    t.parse::<f32>().ok().map(f32::to_bits)
}
fn parse_reg_text(t: &str, sigil: char) -> Option<i32> {
    t.strip_prefix(sigil)?.strip_prefix("REG[")?.strip_suffix(']')?.parse().ok()
}

/// Does the printed argument denote the expected value?  `label_off`: label name -> script offset.
fn printed_matches(exp: &Pr, text: &str, label_off: &BTreeMap<String, u32>) -> bool {
    match exp {
        Pr::Int(v, en) => parse_int_text(text, en) == Some(*v),
        Pr::Reg(n) => parse_reg_text(text, '$') == Some(*n),
        Pr::FReg(n) => parse_reg_text(text, '%') == Some(*n),
        Pr::Flt(b) => parse_float_text(text) == Some(*b),
        Pr::Str(s) => unquote(text).as_deref() == Some(s.as_str()),
        Pr::Off(off) => text.strip_prefix("offsetof(").and_then(|x| x.strip_suffix(')')).and_then(|n| label_off.get(n)) == Some(off),
        Pr::Time(v) => {
            if let Some(n) = text.strip_prefix("timeof(").and_then(|x| x.strip_suffix(')')) { label_off.contains_key(n) && *v == LABEL_TIME }
            else { parse_int_text(text, &None) == Some(*v) }
        },
    }
}

// =============================================================================================
// Cases, groups, execution

#[derive(Clone, Debug)]
pub struct Case { pub sig: usize, pub calls: Vec<Vec<A>>, pub family: &'static str }

#[derive(Default)]
pub struct Acc {
    pub evaluations: u64,
    pub traces: u64,
    pub cases_done: u64,
    pub nontrivial: u64,
    pub planned: u64,
    pub ctx: String,
    pub by_ctx: BTreeMap<String, u64>,
    pub families: BTreeMap<String, (u64, u64)>,
    pub outcomes: BTreeMap<String, u64>,
    pub failures: Vec<Failure>,
    pub notes: BTreeMap<String, u64>,
}
impl Acc {
    fn outcome(&mut self, k: &str) {
        *self.outcomes.entry(k.to_string()).or_insert(0) += 1; self.cases_done += 1;
        *self.by_ctx.entry(format!("{}:{}", self.ctx, k)).or_insert(0) += 1;
    }
    fn note(&mut self, k: &str) { *self.notes.entry(k.to_string()).or_insert(0) += 1; }
    fn merge(&mut self, o: Acc) {
        self.evaluations += o.evaluations; self.traces += o.traces; self.cases_done += o.cases_done; self.nontrivial += o.nontrivial; self.planned += o.planned;
        for (k, v) in o.families { let e = self.families.entry(k).or_insert((0, 0)); e.0 += v.0; e.1 += v.1; }
        for (k, v) in o.outcomes { *self.outcomes.entry(k).or_insert(0) += v; }
        for (k, v) in o.notes { *self.notes.entry(k).or_insert(0) += v; }
        for (k, v) in o.by_ctx { *self.by_ctx.entry(k).or_insert(0) += v; }
        self.failures.extend(o.failures);
    }
}

struct BCall { case: usize, line: usize, opcode: u32, model: CallModel }
struct Built { mapfile: String, source: String, calls: Vec<BCall>, sig_of_mapline: BTreeMap<usize, usize> }

fn build(host: Host, sigs: &[Vec<P>], cases: &[Case], live: &[usize], corrupt: u8) -> Built {
    let mut mapfile = String::from(host.mapfile_head());
    let mut map_line = host.mapfile_head().matches('\n').count();
    let mut op_of_sig: BTreeMap<usize, u32> = BTreeMap::new();
    let mut sig_of_mapline = BTreeMap::new();
    let mut source = String::from(host.source_head());
    let mut line = host.source_head().matches('\n').count();
    let mut calls = vec![];
    let mut offset = 0u32;
    let mut furi: Option<Vec<u8>> = None;
    let mut nlabel = 0usize;
    let mut corrupt = corrupt;
    for &ci in live {
        let case = &cases[ci];
        let next = host.opcode_base() + op_of_sig.len() as u32;
        let opcode = *op_of_sig.entry(case.sig).or_insert_with(|| {
            mapfile.push_str(&format!("{} {}\n", next, sig_text(&sigs[case.sig])));
            map_line += 1;
            sig_of_mapline.insert(map_line, case.sig);
            next
        });
        for args in &case.calls {
            let label = format!("L{nlabel}");
            if args.iter().any(|a| matches!(a, A::LabOff | A::LabTime)) { source.push_str(&format!("{label}:\n")); line += 1; nlabel += 1; }
            let mut model = model_call(host, &sigs[case.sig], args, offset, &mut furi);
            // detection self-tests: 1 = one expected blob byte, 2 = one expected decoded value
            if corrupt == 1 && !model.blob.is_empty() { model.blob[0] ^= 1; corrupt = 0; }
            if corrupt == 2 { if let Some(Pr::Int(v, _)) = model.printed.first_mut() { *v += 1; corrupt = 0; } }
            offset += host.header_size() + model.blob.len() as u32;
            let text: Vec<String> = args.iter().map(|a| a.src(&label)).collect();
            source.push_str(&format!("    ins_{}({});\n", opcode, text.join(", ")));
            line += 1;
            calls.push(BCall { case: ci, line, opcode, model });
        }
    }
    source.push_str("}\n");
    Built { mapfile, source, calls, sig_of_mapline }
}

fn err_slug(e: &str) -> &'static str {
    match e {
        "compile-time constant" => "reg-in-jump-arg",
        "too large for buffer" => "string-too-large",
        "string encoding error" => "string-unencodable",
        "language without registers" => "reg-without-registers",
        _ => "other",
    }
}

fn detail(host: Host, sigs: &[Vec<P>], case: &Case, note: Value) -> Value {
    json!({
        "host": host.name(), "family": case.family, "sig": sig_text(&sigs[case.sig]),
        "calls": case.calls.iter().map(|c| c.iter().map(|a| a.to_json()).collect::<Vec<_>>()).collect::<Vec<_>>(),
        "note": note,
    })
}

fn short(s: &str) -> String { s.lines().filter(|l| !l.trim().is_empty()).take(14).collect::<Vec<_>>().join("\n") }

fn has_pad_before_arg(ps: &[P]) -> bool {
    match ps.iter().position(|p| p.is_pad()) { Some(i) => ps[i..].iter().any(|p| !p.is_pad()), None => false }
}

/// Run one group of cases through compile -> (walk, compare) -> decompile -> compare -> recompile.
pub fn check_group(host: Host, sigs: &[Vec<P>], cases: &[Case], idxs: Vec<usize>, acc: &mut Acc, corrupt: u8) {
    let tool = host.tool();
    let mut live = idxs;
    acc.ctx = host.name().into();
    let split = |live: &[usize], acc: &mut Acc| {
        let (l, r) = live.split_at(live.len() / 2);
        check_group(host, sigs, cases, l.to_vec(), acc, 0);
        check_group(host, sigs, cases, r.to_vec(), acc, 0);
    };
    // ---- phase 1: compile; cases whose line carries an error are judged and removed
    let (built, bytes, cdiag) = loop {
        if live.is_empty() { return; }
        let b = build(host, sigs, cases, &live, corrupt);
        let c = drive::compile(tool, b.source.as_bytes(), &CompileOpts { mapfiles: vec![&b.mapfile], ..Default::default() });
        acc.evaluations += 1;
        if let Some(p) = &c.panic {
            if live.len() > 1 { return split(&live, acc); }
            let case = &cases[live[0]];
            acc.failures.push(Failure { signature: p.signature(), detail: detail(host, sigs, case, json!({"stage": "compile", "panic": p.text})) });
            acc.outcome("violation:panic");
            return;
        }
        if let Some(bytes) = c.bytes {
            // calls for which an ERROR is documented but which compiled: judged by the presence of a diagnostic
            // and taken out (their bytes are not a faithful encoding, so nothing further is compared)
            let diags = parse_diags(&c.diag);
            let mut out: BTreeSet<usize> = BTreeSet::new();
            for bc in b.calls.iter() {
                if let Some(e) = bc.model.error {
                    if !out.insert(bc.case) { continue; }
                    if diags.iter().any(|d| d.src_lines.contains(&bc.line)) { acc.outcome("diagnosed-warning-instead-of-error"); }
                    else {
                        acc.outcome("violation:undiagnosed");
                        acc.failures.push(Failure { signature: format!("C12:undiagnosed:{}", err_slug(e)), detail: detail(host, sigs, &cases[bc.case], json!({"diag": short(&c.diag)})) });
                    }
                }
            }
            if out.is_empty() { break (b, bytes, c.diag); }
            live.retain(|ci| !out.contains(ci));
            continue;
        }
        let diags = parse_diags(&c.diag);
        let mut msgs: BTreeMap<usize, Vec<String>> = BTreeMap::new();  // case index -> error messages
        let mut rejected_sig: BTreeMap<usize, Vec<String>> = BTreeMap::new();
        for d in diags.iter().filter(|d| d.sev != "warning") {
            for bc in &b.calls { if d.src_lines.contains(&bc.line) { msgs.entry(bc.case).or_default().push(d.msg.clone()); } }
            for ml in &d.map_lines { if let Some(&s) = b.sig_of_mapline.get(ml) { rejected_sig.entry(s).or_default().push(d.msg.clone()); } }
        }
        for &ci in &live { if let Some(m) = rejected_sig.get(&cases[ci].sig) { msgs.entry(ci).or_default().extend(m.iter().map(|x| format!("(mapfile) {x}"))); } }
        if msgs.is_empty() {
            if live.len() > 1 { return split(&live, acc); }
            msgs.insert(live[0], diags.iter().map(|d| d.msg.clone()).collect());
            if !drive::has_error(&c.diag) {
                let case = &cases[live[0]];
                acc.failures.push(Failure { signature: "C12:failure-without-error-diagnostic".into(), detail: detail(host, sigs, case, json!({"diag": short(&c.diag)})) });
                acc.outcome("violation:failure-without-error-diagnostic");
                return;
            }
        }
        for (&ci, m) in &msgs {
            let case = &cases[ci];
            let ps = &sigs[case.sig];
            let models: Vec<&CallModel> = b.calls.iter().filter(|bc| bc.case == ci).map(|bc| &bc.model).collect();
            let expected = models.iter().find_map(|mm| mm.error);
            let has_needs = models.iter().any(|mm| !mm.needs.is_empty());
            if let Some(e) = expected {
                if m.iter().any(|x| x.contains(e)) { acc.outcome("diagnosed-error") } else { acc.outcome("diagnosed-error-other-message"); acc.note(&format!("expected '{e}' got '{}'", m.first().cloned().unwrap_or_default())); }
            } else if has_needs {
                acc.outcome("diagnosed-error");
            } else {
                let sig = if m.iter().any(|x| x.starts_with("(mapfile)")) { format!("C12:valid-sig-rejected:{}", sig_text(ps)) }
                    else if has_pad_before_arg(ps) && m.iter().any(|x| x.contains("type error")) { "C12:padding-shifts-params:type-error".to_string() }
                    else if has_pad_before_arg(ps) && m.iter().any(|x| x.contains("compile-time constant")) { "C12:padding-shifts-params:const-error".to_string() }
                    else { format!("C12:unexpected-error:{}", sig_text(ps)) };
                acc.outcome(&format!("violation:{}", sig.splitn(3, ':').nth(1).unwrap_or("?")));
                acc.failures.push(Failure { signature: sig, detail: detail(host, sigs, case, json!({"stage": "compile", "messages": m})) });
            }
        }
        live.retain(|ci| !msgs.contains_key(ci));
    };
    // ---- phase 2: bytes + mask vs M7
    let n_cases = live.len();
    let single = n_cases == 1;
    let mut post = Acc { ctx: host.name().into(), ..Default::default() };
    let mut verdict: BTreeMap<usize, String> = BTreeMap::new();
    let fail = |post: &mut Acc, verdict: &mut BTreeMap<usize, String>, ci: usize, sig: String, note: Value| {
        verdict.entry(ci).or_insert_with(|| format!("violation:{}", sig.splitn(3, ':').nth(1).unwrap_or("?")));
        post.failures.push(Failure { signature: sig, detail: detail(host, sigs, &cases[ci], note) });
    };
    let instrs = match walk(host, &bytes) {
        Ok(i) if i.len() == built.calls.len() => i,
        other => {
            if !single { return split(&live, acc); }
            let why = match other { Ok(i) => format!("{} instructions written for {} calls", i.len(), built.calls.len()), Err(e) => e };
            fail(&mut post, &mut verdict, live[0], format!("C12:written-file-unreadable:{}", sig_text(&sigs[cases[live[0]].sig])), json!({"why": why}));
            acc.outcome(&verdict[&live[0]]); acc.merge(post);
            return;
        },
    };
    let diags = parse_diags(&cdiag);
    let mut skip = vec![false; built.calls.len()];
    for (k, bc) in built.calls.iter().enumerate() {
        let ins = &instrs[k];
        let ps = &sigs[cases[bc.case].sig];
        let st = sig_text(ps);
        let line_diags: Vec<&Diag> = diags.iter().filter(|d| d.src_lines.contains(&bc.line)).collect();
        let has_diag = !line_diags.is_empty();
        post.traces += 1;
        if ins.opcode != bc.opcode {
            fail(&mut post, &mut verdict, bc.case, format!("C12:opcode:{st}"), json!({"expected": bc.opcode, "found": ins.opcode}));
            skip[k] = true; continue;
        }
        if let Some(e) = bc.model.error {
            skip[k] = true;
            if has_diag { verdict.entry(bc.case).or_insert("diagnosed-warning".into()); }
            else { fail(&mut post, &mut verdict, bc.case, format!("C12:undiagnosed:{}", err_slug(e)), json!({"call": k, "blob": hex(&ins.blob), "mask": ins.mask})); }
            continue;
        }
        let mut exact = true;
        for need in &bc.model.needs {
            match need {
                Need::Narrow { letter, what } => {
                    exact = false;
                    if !has_diag { fail(&mut post, &mut verdict, bc.case, format!("C12:silent-narrowing:{letter}:{what}"), json!({"call": k, "written_blob": hex(&ins.blob), "diag": short(&cdiag)})); }
                },
                Need::MaskOverflow => {
                    exact = false;
                    if !has_diag { fail(&mut post, &mut verdict, bc.case, "C12:mask-bit-dropped:beyond-16".into(), json!({"call": k, "written_mask": ins.mask})); }
                },
                Need::ImmReg => {
                    if !has_diag { fail(&mut post, &mut verdict, bc.case, "C12:undiagnosed:reg-in-imm".into(), json!({"call": k, "written_mask": ins.mask})); }
                },
            }
        }
        if !bc.model.needs.is_empty() && has_diag { verdict.entry(bc.case).or_insert("diagnosed-warning".into()); }
        if bc.model.reinterp && !has_diag && std::env::var("VERIF_C12_STRICT_SIGN").is_ok() {
            fail(&mut post, &mut verdict, bc.case, "C12:silent-sign-reinterpretation".into(), json!({"call": k, "written_blob": hex(&ins.blob)}));
        }
        if !exact { skip[k] = true; continue; }
        if ins.blob != bc.model.blob {
            fail(&mut post, &mut verdict, bc.case, format!("C12:bytes:{st}"), json!({"call": k, "expected": hex(&bc.model.blob), "found": hex(&ins.blob)}));
            skip[k] = true;
        }
        if ins.mask != bc.model.mask {
            fail(&mut post, &mut verdict, bc.case, format!("C12:mask:{st}"), json!({"call": k, "expected": bc.model.mask, "found": ins.mask}));
            skip[k] = true;
        }
        if host == Host::Tl06 && ins.extra != bc.model.extra.unwrap_or(0) {
            fail(&mut post, &mut verdict, bc.case, format!("C12:arg0:{st}"), json!({"call": k, "expected": bc.model.extra, "found": ins.extra}));
            skip[k] = true;
        }
        if ins.time != LABEL_TIME { fail(&mut post, &mut verdict, bc.case, format!("C12:time:{st}"), json!({"found": ins.time})); }
    }
    // ---- phase 3: decompile, compare printed values
    let d = drive::decompile(tool, &bytes, &DecompOpts { width: 1_000_000, mapfiles: vec![&built.mapfile], ..Default::default() });
    acc.evaluations += 1;
    let text = match (&d.panic, &d.text) {
        (None, Some(t)) => t.clone(),
        _ => {
            if !single { return split(&live, acc); }
            let sig = match &d.panic { Some(p) => p.signature(), None => format!("C12:decompile-failed:{}", sig_text(&sigs[cases[live[0]].sig])) };
            fail(&mut post, &mut verdict, live[0], sig, json!({"stage": "decompile", "diag": short(&d.diag), "panic": d.panic.as_ref().map(|p| p.text.clone())}));
            acc.outcome(&verdict[&live[0]]); acc.merge(post);
            return;
        },
    };
    if !d.diag.trim().is_empty() { post.note("groups-with-decompile-diagnostics"); }
    let tcalls = match parse_decompiled(&text, "script ") {
        Ok(t) if t.len() == built.calls.len() => t,
        other => {
            if !single { return split(&live, acc); }
            let why = match other { Ok(t) => format!("{} calls printed for {} instructions", t.len(), built.calls.len()), Err(e) => e };
            fail(&mut post, &mut verdict, live[0], format!("C12:decompiled-text:{}", sig_text(&sigs[cases[live[0]].sig])), json!({"why": why, "text": short(&text)}));
            acc.outcome(&verdict[&live[0]]); acc.merge(post);
            return;
        },
    };
    let mut label_off = BTreeMap::new();
    for (k, t) in tcalls.iter().enumerate() { for l in &t.labels { label_off.insert(l.clone(), instrs[k].offset); } }
    for (k, bc) in built.calls.iter().enumerate() {
        if skip[k] { continue; }
        let t = &tcalls[k];
        let st = sig_text(&sigs[cases[bc.case].sig]);
        post.traces += 1;
        if t.opcode != bc.opcode || t.args.len() != bc.model.printed.len() || !t.pseudo.is_empty() {
            fail(&mut post, &mut verdict, bc.case, format!("C12:decode-shape:{st}"), json!({"call": k, "printed": format!("{t:?}")}));
            continue;
        }
        for (j, (e, a)) in bc.model.printed.iter().zip(&t.args).enumerate() {
            if !printed_matches(e, a, &label_off) {
                fail(&mut post, &mut verdict, bc.case, format!("C12:decode:{st}"), json!({"call": k, "arg": j, "expected": format!("{e:?}"), "printed": a, "decompile_diag": short(&d.diag)}));
                break;
            }
        }
    }
    // ---- phase 4: recompile the decompiled text
    let r = drive::compile(tool, text.as_bytes(), &CompileOpts { mapfiles: vec![&built.mapfile], ..Default::default() });
    acc.evaluations += 1;
    match (&r.panic, &r.bytes) {
        (None, Some(b2)) if *b2 == bytes => { post.traces += built.calls.len() as u64; },
        (None, Some(b2)) => {
            let culprit = match walk(host, b2) {
                Ok(i2) => (0..instrs.len().min(i2.len())).find(|&k| instrs[k] != i2[k]),
                Err(_) => None,
            };
            match culprit {
                Some(k) => { let ci = built.calls[k].case; fail(&mut post, &mut verdict, ci, format!("C12:recompile:{}", sig_text(&sigs[cases[ci].sig])), json!({"call": k, "printed": format!("{:?}", tcalls[k])})); },
                None if single => fail(&mut post, &mut verdict, live[0], format!("C12:recompile:{}", sig_text(&sigs[cases[live[0]].sig])), json!({"why": "bytes differ"})),
                None => return split(&live, acc),
            }
        },
        _ => {
            if !single { return split(&live, acc); }
            let sig = match &r.panic { Some(p) => p.signature(), None => format!("C12:recompile-error:{}", sig_text(&sigs[cases[live[0]].sig])) };
            fail(&mut post, &mut verdict, live[0], sig, json!({"stage": "recompile", "diag": short(&r.diag), "text": short(&text)}));
        },
    }
    // ---- outcomes
    for &ci in &live {
        match verdict.get(&ci) {
            Some(v) => post.outcome(v),
            None => {
                let re = built.calls.iter().any(|bc| bc.case == ci && bc.model.reinterp);
                post.outcome(if re { "ok-sign-reinterpreted" } else { "ok" });
            },
        }
    }
    acc.merge(post);
}

fn hex(b: &[u8]) -> String { b.iter().map(|x| format!("{x:02x}")).collect::<Vec<_>>().join(" ") }

// =============================================================================================
// Generation: per-parameter boundary sets, one deviation at a time

fn flt(f: f32) -> A { A::Flt(f.to_bits()) }

fn default_arg(p: &P, k: usize) -> A {
    match p {
        P::Int { .. } => A::Int(k as i32 + 1),
        P::Float { .. } => flt(k as f32 + 1.5),
        P::Off => A::LabOff,
        P::Time => A::LabTime,
        P::Str { size: StrSize::Fixed(0, _), .. } => A::Str("".into()),
        P::Str { size: StrSize::Fixed(1, false), .. } => A::Str("".into()),
        P::Str { size: StrSize::Fixed(1, true), .. } => A::Str("a".into()),
        P::Str { .. } => A::Str("ab".into()),
        P::Pad1 | P::Pad4 => unreachable!(),
    }
}

fn alt_values(p: &P) -> Vec<A> {
    let i = |v: &[i64]| v.iter().map(|&x| A::Int(x as i32)).collect::<Vec<_>>();
    match p {
        P::Int { letter, arg0, en, .. } => {
            let w = if *arg0 { 2 } else { int_layout(*letter).0 };
            let mut v = match w {
                4 => i(&[0, -1, i32::MAX as i64, i32::MIN as i64, 0x7FFF, 0x8000, 0xFFFF, 0x10000]),
                2 => i(&[0, -1, -32768, 32767, 32768, 65535, 65536, -32769, i32::MAX as i64, i32::MIN as i64]),
                _ => i(&[0, -1, -128, 127, 128, 255, 256, -129, 65536, i32::MIN as i64]),
            };
            if en.is_some() { v.push(A::Int(1)); v.push(A::Int(2)); }
            v
        },
        P::Float { .. } => vec![flt(0.0), flt(-0.0), flt(-1.5), flt(1e30), flt(1e-30), flt(f32::INFINITY), flt(f32::NEG_INFINITY), flt(16777216.0), flt(0.1)],
        P::Off => vec![A::Int(0)],
        P::Time => vec![A::Int(7), A::Int(LABEL_TIME), A::Int(-1)],
        P::Str { size, .. } => {
            let st = |x: &str| A::Str(x.to_string());
            match size {
                StrSize::Block(_) | StrSize::Pascal(_) => vec![st(""), st("a"), st("abc"), st("abcd"), st("abcde"), st("abcdefg"), st("abcdefgh"), st("ソ"), st("ソa"), st("aソ\"\\"), st("a\nb"), st("|f"), st("€")],
                StrSize::Fixed(len, _) => {
                    let len = *len as usize;
                    let mut v = vec![st("")];
                    for n in [len.saturating_sub(2), len.saturating_sub(1), len, len + 1] { if n > 0 { v.push(A::Str("a".repeat(n))); } }
                    if len >= 2 { v.push(A::Str("ソ".repeat(len / 2))); v.push(A::Str("ソ".repeat(len / 2 - 1) + "a")); }
                    v.push(st("€"));
                    v
                },
            }
        },
        P::Pad1 | P::Pad4 => unreachable!(),
    }
}

/// register alternatives for the k-th non-padding parameter; the first one fits the parameter
fn reg_alts(p: &P, k: usize) -> Vec<A> {
    let k = k as i32;
    match p {
        P::Int { arg0: true, .. } => vec![A::Reg(20000 + k)],
        P::Int { letter, .. } => match int_layout(*letter).0 { 4 => vec![A::Reg(20000 + k)], 2 => vec![A::Reg(20000 + k), A::Reg(70000 + k)], _ => vec![A::Reg(100 + k), A::Reg(20000 + k)] },
        P::Float { .. } => vec![A::FReg(30000 + k)],
        P::Off | P::Time => vec![A::Reg(20000 + k)],
        _ => vec![],
    }
}

#[derive(Clone, Copy, PartialEq)]
pub enum Depth { Full, Long, Cross }

/// Argument lists for one signature: the default list, every single value deviation, registers at
/// <= 2 positions.  `Long` (length-16 family) restricts value deviations and register pairs to the
/// special positions (first, last, non-`S`); `Cross` adds (value deviation x one register elsewhere).
pub fn arglists(ps: &[P], host: Host, depth: Depth) -> Vec<Vec<A>> {
    let np: Vec<&P> = ps.iter().filter(|p| !p.is_pad()).collect();
    let def: Vec<A> = np.iter().enumerate().map(|(k, p)| default_arg(p, k)).collect();
    let mut out = vec![def.clone()];
    let plain_s = pint('S');
    let special: Vec<bool> = np.iter().enumerate().map(|(k, p)| depth != Depth::Long || k == 0 || k + 1 == np.len() || **p != plain_s).collect();
    for (k, p) in np.iter().enumerate() {
        if !special[k] { continue; }
        for a in alt_values(p) { if a != def[k] { let mut l = def.clone(); l[k] = a; out.push(l); } }
    }
    if host.has_regs() {
        for (k, p) in np.iter().enumerate() {
            for a in reg_alts(p, k) { let mut l = def.clone(); l[k] = a; out.push(l); }
        }
        for k in 0..np.len() { for j in k + 1..np.len() {
            if !special[k] || !special[j] { continue; }
            if matches!(np[k], P::Off | P::Time) || matches!(np[j], P::Off | P::Time) { continue; }
            if let (Some(a), Some(b)) = (reg_alts(np[k], k).first().cloned(), reg_alts(np[j], j).first().cloned()) {
                let mut l = def.clone(); l[k] = a; l[j] = b; out.push(l);
            }
        } }
        if depth == Depth::Cross {
            for (k, p) in np.iter().enumerate() { for a in alt_values(p) { if a == def[k] { continue; }
                for j in 0..np.len() { if j == k || matches!(np[j], P::Off | P::Time) { continue; }
                    if let Some(b) = reg_alts(np[j], j).first().cloned() { let mut l = def.clone(); l[k] = a.clone(); l[j] = b; out.push(l); }
                }
            } }
        }
    } else {
        // one register per register-typed position: must be refused in a language without registers
        for (k, p) in np.iter().enumerate() { if let Some(a) = reg_alts(p, k).first().cloned() { let mut l = def.clone(); l[k] = a; out.push(l); } }
    }
    out
}

pub fn base_alphabet() -> Vec<P> {
    let mut v: Vec<P> = "SsUuCcbf".chars().map(|c| if c == 'f' { P::Float { imm: false } } else { pint(c) }).collect();
    v.extend([P::Pad4, P::Pad1, pint('n'), pint('N'), pint('E'), P::Off, P::Time,
        pstr('z', StrSize::Block(4), None, false), pstr('m', StrSize::Block(4), Some(MASK77), false)]);
    v
}

pub fn attr_variants() -> Vec<P> {
    let mut v = vec![
        pint_a('S', true, false, None), pint_a('S', false, true, None), pint_a('S', true, true, None),
        pint_a('s', true, false, None), pint_a('s', false, true, None), pint_a('u', false, true, None), pint_a('u', true, false, None),
        pint_a('b', true, false, None), pint_a('b', false, true, None), pint_a('c', true, false, None), pint_a('c', false, true, None),
        pint_a('U', false, true, None), pint_a('C', true, false, None), pint_a('n', true, false, None),
        pint_a('S', false, false, Some("bool")), pint_a('s', false, false, Some("bool")), pint_a('b', false, false, Some("bool")),
        pint_a('U', false, true, Some("bool")), pint_a('S', true, false, Some("bool")),
        P::Float { imm: true },
    ];
    for (l, m) in [('z', None), ('m', Some(MASK77))] {
        v.extend([pstr(l, StrSize::Block(1), m, false), pstr(l, StrSize::Block(8), m, false), pstr(l, StrSize::Block(3), m, false),
            pstr(l, StrSize::Fixed(8, false), m, false), pstr(l, StrSize::Fixed(8, true), m, false),
            pstr(l, StrSize::Fixed(1, false), m, false), pstr(l, StrSize::Fixed(1, true), m, false), pstr(l, StrSize::Fixed(0, true), m, false)]);
    }
    v.extend([pstr('P', StrSize::Pascal(4), None, false), pstr('P', StrSize::Pascal(4), Some(MASK77), false)]);
    v.extend([pstr('m', StrSize::Block(4), Some([0, 7, 16]), false), pstr('m', StrSize::Block(4), Some([0, 0, 1]), false), pstr('m', StrSize::Fixed(8, true), Some([0, 1, 0]), false)]);
    v.extend([pstr('m', StrSize::Block(4), Some([0xff, 0, 0]), false), pstr('z', StrSize::Block(4), Some(MASK77), false),
        pstr('p', StrSize::Pascal(4), None, false), pstr('p', StrSize::Pascal(1), None, false), pstr('p', StrSize::Pascal(4), Some(MASK77), false),
        pstr('m', StrSize::Block(4), Some(MASK77), true), pstr('m', StrSize::Fixed(8, false), Some(MASK77), true)]);
    v
}

/// every sequence over `alpha` of length 1..=max_len
pub fn all_seqs(alpha: &[P], max_len: usize) -> Vec<Vec<P>> {
    let mut out = vec![]; let mut cur: Vec<Vec<P>> = vec![vec![]];
    for _ in 0..max_len {
        let mut next = vec![];
        for s in &cur { for a in alpha { let mut t = s.clone(); t.push(a.clone()); next.push(t); } }
        out.extend(next.iter().cloned());
        cur = next;
    }
    out
}

// =============================================================================================
// Invalid signatures must be rejected by the mapfile loader with an error diagnostic

/// `items`: (signature text, reason).  One mapfile with all of them; every line must carry an error.
pub fn check_rejects(host: Host, items: &[(String, &'static str)], acc: &mut Acc) {
    let tool = host.tool();
    acc.ctx = host.name().into();
    let mut mapfile = String::from(host.mapfile_head());
    let first_line = host.mapfile_head().matches('\n').count() + 1;
    for (k, (t, _)) in items.iter().enumerate() { mapfile.push_str(&format!("{} {}\n", host.opcode_base() as usize + k, t)); }
    let source = format!("{}}}\n", host.source_head());
    let c = drive::compile(tool, source.as_bytes(), &CompileOpts { mapfiles: vec![&mapfile], ..Default::default() });
    acc.evaluations += 1;
    if c.panic.is_some() && items.len() > 1 { for it in items { check_rejects(host, std::slice::from_ref(it), acc); } return; }
    let diags = parse_diags(&c.diag);
    for (k, (t, reason)) in items.iter().enumerate() {
        acc.traces += 1;
        let det = |note: Value| json!({"host": host.name(), "family": "sig-reject", "sig": t, "reason": reason, "note": note});
        if let Some(p) = &c.panic {
            acc.failures.push(Failure { signature: p.signature(), detail: det(json!({"panic": p.text})) });
            acc.outcome("violation:panic"); continue;
        }
        let errs: Vec<&Diag> = diags.iter().filter(|d| d.sev != "warning" && d.map_lines.contains(&(first_line + k))).collect();
        if !errs.is_empty() && c.bytes.is_none() { acc.outcome("sig-rejected"); continue; }
        if items.len() > 1 { check_rejects(host, &[(t.clone(), *reason)], acc); continue; }
        if c.bytes.is_none() && drive::has_error(&c.diag) { acc.outcome("sig-rejected"); continue; }
        // accepted: record what happens when it is then used
        let use_src = format!("{}    ins_{}({});\n}}\n", host.source_head(), host.opcode_base(), if t.contains('z') || t.contains('m') || t.contains('p') { "\"ab\"" } else { "1" });
        let u = drive::compile(tool, use_src.as_bytes(), &CompileOpts { mapfiles: vec![&mapfile], ..Default::default() });
        acc.evaluations += 1;
        let letter = t.chars().next().unwrap_or('?');
        acc.failures.push(Failure { signature: format!("C12:invalid-sig-accepted:{reason}:{letter}"), detail: det(json!({
            "load_diag": short(&c.diag), "use_panic": u.panic.as_ref().map(|p| p.text.clone()), "use_diag": short(&u.diag), "use_compiled": u.bytes.is_some() })) });
        acc.outcome("violation:invalid-sig-accepted");
    }
}

// =============================================================================================
// Intrinsic binding: operands of sugar must land in the positions the signature dictates

pub struct IKind { pub decl: &'static str, pub ops: Vec<A>, pub letters: &'static str, pub jump: bool, pub stmt: &'static str }

pub fn ikinds() -> Vec<IKind> {
    vec![
        IKind { decl: "AssignOp(op=\"=\"; type=\"int\")", ops: vec![A::Reg(20000), A::Int(5)], letters: "SS", jump: false, stmt: "$REG[20000] = 5;" },
        IKind { decl: "AssignOp(op=\"=\"; type=\"float\")", ops: vec![A::FReg(30000), flt(2.5)], letters: "ff", jump: false, stmt: "%REG[30000] = 2.5;" },
        IKind { decl: "BinOp(op=\"+\"; type=\"int\")", ops: vec![A::Reg(20000), A::Reg(20001), A::Int(5)], letters: "SSS", jump: false, stmt: "$REG[20000] = $REG[20001] + 5;" },
        IKind { decl: "BinOp(op=\"-\"; type=\"float\")", ops: vec![A::FReg(30000), A::FReg(30001), flt(2.5)], letters: "fff", jump: false, stmt: "%REG[30000] = %REG[30001] - 2.5;" },
        IKind { decl: "UnOp(op=\"sin\"; type=\"float\")", ops: vec![A::FReg(30000), A::FReg(30001)], letters: "ff", jump: false, stmt: "%REG[30000] = sin(%REG[30001]);" },
        IKind { decl: "CondJmp(op=\"==\"; type=\"int\")", ops: vec![A::Reg(20000), A::Int(7)], letters: "SS", jump: true, stmt: "if ($REG[20000] == 7) goto L0{AT};" },
        IKind { decl: "CountJmp()", ops: vec![A::Reg(20000)], letters: "S", jump: true, stmt: "if (--$REG[20000]) goto L0{AT};" },
        IKind { decl: "Jmp()", ops: vec![], letters: "", jump: true, stmt: "goto L0{AT};" },
    ]
}

/// (kind index, signature, explicit time?) for every arrangement: jump pair `ot` / `to` / `o` at any
/// operand boundary, then no padding or one `_` / `-` at any position.
pub fn intrinsic_cases() -> Vec<(usize, Vec<P>, bool)> {
    let mut out = vec![];
    for (ki, k) in ikinds().iter().enumerate() {
        let ops: Vec<P> = k.letters.chars().map(|c| if c == 'f' { P::Float { imm: false } } else { pint(c) }).collect();
        let mut bases: Vec<Vec<P>> = vec![];
        if k.jump {
            for at in 0..=ops.len() { for j in [vec![P::Off, P::Time], vec![P::Time, P::Off], vec![P::Off]] {
                let mut b = ops[..at].to_vec(); b.extend(j); b.extend(ops[at..].iter().cloned()); bases.push(b);
            } }
        } else { bases.push(ops.clone()); }
        for b in bases {
            let mut sigs = vec![b.clone()];
            for at in 0..=b.len() { for pad in [P::Pad4, P::Pad1] {
                // padding between `o` and `t` makes them non-consecutive: documented as invalid for intrinsics
                if at > 0 && at < b.len() && matches!(b[at - 1], P::Off | P::Time) && matches!(b[at], P::Off | P::Time) { continue; }
                let mut x = b.clone(); x.insert(at, pad); sigs.push(x);
            } }
            for sg in sigs {
                out.push((ki, sg.clone(), false));
                if sg.contains(&P::Time) { out.push((ki, sg, true)); }
            }
        }
    }
    out
}

pub fn check_intrinsic(ki: usize, ps: &[P], explicit_time: bool, acc: &mut Acc) {
    let host = Host::Anm12;
    let tool = host.tool();
    acc.ctx = "anm12-intrinsic".into();
    let k = &ikinds()[ki];
    let st = sig_text(ps);
    let mapfile = format!("!anmmap\n!ins_signatures\n2000 {st}\n2100 S\n!ins_intrinsics\n2000 {}\n", k.decl);
    let stmt = k.stmt.replace("{AT}", if explicit_time { " @ 7" } else { "" });
    let source = format!("{}    ins_2100(1);\nL0:\n    {}\n}}\n", host.source_head(), stmt);
    // operands by role, in signature order
    let mut ops = k.ops.iter();
    let args: Vec<A> = ps.iter().filter(|p| !p.is_pad()).map(|p| match p {
        P::Off => A::LabOff,
        P::Time => if explicit_time { A::Int(7) } else { A::LabTime },
        _ => ops.next().expect("operand count").clone(),
    }).collect();
    let mut furi = None;
    let model = model_call(host, ps, &args, 12, &mut furi);
    let det = |note: Value| json!({"host": "anm12", "family": "intrinsic", "kind": ki, "decl": k.decl, "sig": st, "explicit_time": explicit_time, "stmt": stmt, "note": note});
    let c = drive::compile(tool, source.as_bytes(), &CompileOpts { mapfiles: vec![&mapfile], ..Default::default() });
    acc.evaluations += 1;
    let bytes = match (&c.panic, c.bytes) {
        (Some(p), _) => { acc.failures.push(Failure { signature: p.signature(), detail: det(json!({"stage": "compile", "panic": p.text})) }); acc.outcome("violation:panic"); return; },
        (None, None) => {
            acc.failures.push(Failure { signature: format!("C12:intrinsic-binding-rejected:{}", k.decl.split('(').next().unwrap()), detail: det(json!({"diag": short(&c.diag)})) });
            acc.outcome("violation:intrinsic-binding-rejected"); return;
        },
        (None, Some(b)) => b,
    };
    acc.traces += 1;
    let found = walk(host, &bytes).ok().filter(|i| i.len() == 2).map(|i| i[1].clone());
    let ok = matches!(&found, Some(i) if i.opcode == 2000 && i.blob == model.blob && i.mask == model.mask);
    if !ok {
        acc.failures.push(Failure { signature: format!("C12:intrinsic-operands:{}:{st}", k.decl.split('(').next().unwrap()),
            detail: det(json!({"expected_blob": hex(&model.blob), "expected_mask": model.mask, "found": format!("{found:?}"), "diag": short(&c.diag)})) });
        acc.outcome("violation:intrinsic-operands"); return;
    }
    let d = drive::decompile(tool, &bytes, &DecompOpts { width: 1_000_000, mapfiles: vec![&mapfile], ..Default::default() });
    acc.evaluations += 1;
    let text = match (&d.panic, d.text) {
        (Some(p), _) => { acc.failures.push(Failure { signature: p.signature(), detail: det(json!({"stage": "decompile", "panic": p.text})) }); acc.outcome("violation:panic"); return; },
        (None, None) => { acc.failures.push(Failure { signature: format!("C12:decompile-failed:intrinsic:{st}"), detail: det(json!({"diag": short(&d.diag)})) }); acc.outcome("violation:decompile-failed"); return; },
        (None, Some(t)) => t,
    };
    let r = drive::compile(tool, text.as_bytes(), &CompileOpts { mapfiles: vec![&mapfile], ..Default::default() });
    acc.evaluations += 1;
    acc.traces += 1;
    if let Some(p) = &r.panic { acc.failures.push(Failure { signature: p.signature(), detail: det(json!({"stage": "recompile", "panic": p.text, "text": short(&text)})) }); acc.outcome("violation:panic"); return; }
    if r.bytes.as_deref() != Some(&bytes[..]) {
        acc.failures.push(Failure { signature: format!("C12:recompile:intrinsic:{st}"), detail: det(json!({"text": text.lines().rev().take(8).collect::<Vec<_>>(), "diag": short(&r.diag)})) });
        acc.outcome("violation:recompile"); return;
    }
    acc.outcome("ok-intrinsic");
}

// =============================================================================================
// The run

struct Plan { host: Host, sigs: Vec<Vec<P>>, meta: Vec<(&'static str, Depth)>, groups: Vec<Vec<usize>>, rejects: Vec<(String, &'static str)>, est: usize }

impl Plan {
    fn new(host: Host) -> Plan { Plan { host, sigs: vec![], meta: vec![], groups: vec![], rejects: vec![], est: 0 } }
    fn cases_of_group(&self, gi: usize) -> Vec<Case> {
        let mut out = vec![];
        for &si in &self.groups[gi] {
            let (family, depth) = self.meta[si];
            for args in arglists(&self.sigs[si], self.host, depth) { out.push(Case { sig: si, calls: vec![args], family }); }
        }
        out
    }
}

/// Adds a signature (deduplicated by text); groups are cut by an estimate of the number of cases.
fn add_sig(plan: &mut Plan, seen: &mut BTreeSet<String>, ps: Vec<P>, family: &'static str, depth: Depth, per_group: &mut Vec<usize>, group_cap: usize) {
    let text = sig_text(&ps);
    if !seen.insert(text.clone()) { return; }
    if let Err(why) = sig_validity(&ps, plan.host) { plan.rejects.push((text, why)); return; }
    let m = ps.iter().filter(|p| !p.is_pad()).count();
    plan.est += match depth { Depth::Full => 1 + 11 * m + m * m / 2, Depth::Long => 45, Depth::Cross => 1 + 11 * m + 10 * m * m };
    per_group.push(plan.sigs.len());
    plan.sigs.push(ps);
    plan.meta.push((family, depth));
    if plan.est >= group_cap || per_group.len() >= plan.host.max_sigs() { plan.groups.push(std::mem::take(per_group)); plan.est = 0; }
}

fn plan_anm(extra: bool) -> Plan {
    // quick explores what used to be the thorough space (~20 s); thorough adds all length-5 signatures over a
    // 10-letter alphabet
    let thorough = true;
    let mut plan = Plan::new(Host::Anm12);
    let mut seen = BTreeSet::new();
    let mut g = vec![];
    let cap = 600;
    let alpha = base_alphabet();
    // A: exhaustive short signatures
    for ps in all_seqs(&alpha, if thorough { 4 } else { 3 }) {
        let depth = if thorough { Depth::Cross } else { Depth::Full };
        add_sig(&mut plan, &mut seen, ps, "short", depth, &mut g, cap);
    }
    if extra {
        let reduced: Vec<P> = vec![pint('S'), pint('s'), pint('b'), P::Float { imm: false }, P::Pad4, P::Pad1, P::Off, P::Time,
            pstr('z', StrSize::Block(4), None, false), pstr('m', StrSize::Block(4), Some(MASK77), false)];
        for ps in all_seqs(&reduced, 5) { if ps.len() == 5 { add_sig(&mut plan, &mut seen, ps, "short5", Depth::Full, &mut g, cap); } }
    }
    // B: attribute variants alone and next to each context symbol
    let ctx = [pint('S'), pint('s'), pint('b'), P::Float { imm: false }, P::Pad4, P::Pad1, pstr('z', StrSize::Block(4), None, false)];
    let vars = attr_variants();
    for v in &vars {
        add_sig(&mut plan, &mut seen, vec![v.clone()], "attr", Depth::Cross, &mut g, cap);
        for c in &ctx {
            add_sig(&mut plan, &mut seen, vec![c.clone(), v.clone()], "attr", Depth::Cross, &mut g, cap);
            add_sig(&mut plan, &mut seen, vec![v.clone(), c.clone()], "attr", Depth::Cross, &mut g, cap);
            if thorough { for c2 in &ctx { add_sig(&mut plan, &mut seen, vec![c.clone(), v.clone(), c2.clone()], "attr", Depth::Full, &mut g, cap); } }
        }
    }
    if thorough { for v in &vars { for w in &vars { add_sig(&mut plan, &mut seen, vec![v.clone(), w.clone()], "attr", Depth::Full, &mut g, cap); } } }
    // malformed attribute combinations (must be rejected)
    for (t, why) in [("z", "string-without-size"), ("m(bs=4)", "m-without-mask"), ("p(len=4)", "p-with-len"), ("z(bs=4;len=4)", "bs-and-len"),
        ("S(arg0)", "arg0-dword"), ("s(arg0)", "arg0-outside-timeline"), ("Ss(arg0)", "arg0-not-first"), ("Q", "unknown-letter"), ("S(enum=\"foo\")", "unknown-enum"), ("S(", "unclosed-attrs"),
        ("z(bs=0)", "bs-zero"), ("m(bs=0;mask=0,0,0)", "bs-zero"), ("p(bs=0)", "bs-zero"), ("Sz(bs=0)", "bs-zero")] {
        if seen.insert(t.to_string()) { plan.rejects.push((t.to_string(), why)); }
    }
    // C: length 16 with <= 2 non-S positions
    let s = pint('S');
    let others: Vec<P> = alpha.iter().filter(|p| **p != s).cloned().collect();
    let small: Vec<P> = vec![P::Pad4, P::Pad1, pint('s'), P::Float { imm: false }];
    for i in 0..16 { for a in &others {
        let mut ps = vec![s.clone(); 16]; ps[i] = a.clone();
        add_sig(&mut plan, &mut seen, ps, "len16", Depth::Long, &mut g, cap);
    } }
    let two: &[P] = if thorough { &others } else { &small };
    for i in 0..16 { for j in i + 1..16 { for a in two { for b in two {
        let mut ps = vec![s.clone(); 16]; ps[i] = a.clone(); ps[j] = b.clone();
        add_sig(&mut plan, &mut seen, ps, "len16", Depth::Long, &mut g, cap);
    } } } }
    // D: more than 16 parameters (mask bits beyond the 16th do not exist)
    for n in [17usize, 18, 20] {
        for tail in [s.clone(), P::Float { imm: false }, pint('s')] {
            let mut ps = vec![s.clone(); n]; ps[n - 1] = tail.clone();
            add_sig(&mut plan, &mut seen, ps, "len17+", Depth::Long, &mut g, cap);
            let mut ps = vec![s.clone(); n + 1]; ps[3] = P::Pad4; ps[n] = tail;
            add_sig(&mut plan, &mut seen, ps, "len17+", Depth::Long, &mut g, cap);
        }
    }
    if !g.is_empty() { plan.groups.push(g); }
    plan
}

fn plan_msg(_thorough: bool) -> Plan {
    let mut plan = Plan::new(Host::Msg08);
    let mut seen = BTreeSet::new();
    let mut g = vec![];
    let strs = [pstr('z', StrSize::Block(4), None, false), pstr('m', StrSize::Block(4), Some(MASK77), false), pstr('z', StrSize::Fixed(8, false), None, false),
        pstr('m', StrSize::Fixed(8, true), Some(MASK77), false), pstr('p', StrSize::Pascal(4), None, false), pstr('m', StrSize::Block(4), Some(MASK77), true),
        pstr('m', StrSize::Block(1), Some([0xff, 0, 0]), false)];
    let pre = [vec![], vec![pint('S')], vec![pint('s'), P::Pad1], vec![pint('b'), pint('c')], vec![P::Float { imm: false }], vec![P::Pad4]];
    for st in &strs { for p in &pre {
        let mut ps = p.clone(); ps.push(st.clone());
        add_sig(&mut plan, &mut seen, ps, "msg", Depth::Full, &mut g, 100_000);
    } }
    for ps in [vec![pint('S'), pint('s'), pint('u'), pint('b'), pint('c')], vec![pint('U'), P::Float { imm: false }, pint('C')]] {
        add_sig(&mut plan, &mut seen, ps, "msg", Depth::Full, &mut g, 100_000);
    }
    if !g.is_empty() { plan.groups.push(g); }
    plan
}

fn plan_tl(_thorough: bool) -> Plan {
    let mut plan = Plan::new(Host::Tl06);
    let mut seen = BTreeSet::new();
    let mut g = vec![];
    let a0 = |l: char, en: Option<&str>| P::Int { letter: l, imm: false, hex: false, en: en.map(String::from), arg0: true };
    for first in [a0('s', None), a0('u', None), a0('b', None), a0('c', None), a0('s', Some("bool"))] {
        for rest in [vec![], vec![pint('S')], vec![pint('S'), pint('S')], vec![P::Pad4, pint('S')], vec![pint('s'), P::Pad1, P::Pad1], vec![P::Float { imm: false }],
            vec![pstr('z', StrSize::Block(4), None, false)]] {
            let mut ps = vec![first.clone()]; ps.extend(rest);
            add_sig(&mut plan, &mut seen, ps, "timeline-arg0", Depth::Full, &mut g, 2000);
        }
    }
    add_sig(&mut plan, &mut seen, vec![pint('S'), pint('S')], "timeline-arg0", Depth::Full, &mut g, 2000);
    add_sig(&mut plan, &mut seen, vec![pint('S'), a0('s', None)], "timeline-arg0", Depth::Full, &mut g, 2000);
    add_sig(&mut plan, &mut seen, vec![a0('S', None)], "timeline-arg0", Depth::Full, &mut g, 2000);
    add_sig(&mut plan, &mut seen, vec![a0('s', None), a0('s', None)], "timeline-arg0", Depth::Full, &mut g, 2000);
    if !g.is_empty() { plan.groups.push(g); }
    plan
}

enum Work { Group(usize, usize), Rejects(usize, usize, usize), Intrinsic(usize) }

pub fn run(tier: &str) -> Report {
    let mut rep = Report::new("C12", tier, "model_checking");
    let extra = rep.is_thorough();
    let thorough = true;
    let corrupt: u8 = std::env::var("VERIF_C12_SELFTEST_CORRUPT").ok().and_then(|v| v.parse().ok()).unwrap_or(0);
    let only = std::env::var("VERIF_C12_FAMILY").ok();
    let t0 = std::time::Instant::now();
    let plans = vec![plan_anm(extra), plan_msg(thorough), plan_tl(thorough)];
    let mut work = vec![];
    for (pi, p) in plans.iter().enumerate() {
        for gi in 0..p.groups.len() {
            if let Some(o) = &only { if !format!("{}/{}", p.host.name(), p.meta[p.groups[gi][0]].0).contains(o.as_str()) { continue; } }
            work.push(Work::Group(pi, gi));
        }
        if only.is_some() { continue; }
        let mut k = 0;
        while k < p.rejects.len() { let e = (k + 32).min(p.rejects.len()); work.push(Work::Rejects(pi, k, e)); k = e; }
    }
    let icases = intrinsic_cases();
    if only.is_none() || only.as_deref() == Some("intrinsic") { for i in 0..icases.len() { work.push(Work::Intrinsic(i)); } }
    let t_plan = t0.elapsed().as_secs_f64();
    let deadline = rep.deadline() - std::time::Duration::from_secs(if extra { 150 } else { 30 });
    let results = par_map(&work, Some(deadline), |wi, w| {
        let mut acc = Acc::default();
        match *w {
            Work::Group(pi, gi) => {
                let p = &plans[pi];
                let cases = p.cases_of_group(gi);
                acc.planned += cases.len() as u64;
                let mut seen_sig = BTreeSet::new();
                for c in &cases {
                    let mut f = None;
                    if p.sigs[c.sig].iter().any(|x| x.nontrivial()) || c.calls.iter().any(|a| model_call(p.host, &p.sigs[c.sig], a, 0, &mut f).edge) { acc.nontrivial += 1; }
                    let e = acc.families.entry(format!("{}/{}", p.host.name(), c.family)).or_insert((0, 0));
                    e.1 += 1; if seen_sig.insert(c.sig) { e.0 += 1; }
                }
                check_group(p.host, &p.sigs, &cases, (0..cases.len()).collect(), &mut acc, if wi == 0 { corrupt } else { 0 });
            },
            Work::Intrinsic(i) => {
                let (ki, ps, et) = &icases[i];
                acc.planned += 1; acc.nontrivial += 1;
                let e = acc.families.entry("anm12/intrinsic".into()).or_insert((0, 0)); e.0 += 1; e.1 += 1;
                check_intrinsic(*ki, ps, *et, &mut acc);
            },
            Work::Rejects(pi, a, b) => { let p = &plans[pi]; acc.planned += (b - a) as u64; acc.nontrivial += (b - a) as u64; check_rejects(p.host, &p.rejects[a..b], &mut acc); },
        }
        // keep the replay detail of the first two failures per signature of this work item only (memory)
        let mut per: BTreeMap<String, u32> = BTreeMap::new();
        for f in acc.failures.iter_mut() { let n = per.entry(f.signature.clone()).or_insert(0); *n += 1; if *n > 2 { f.detail = Value::Null; } }
        acc
    });
    let mut total = Acc::default();
    let mut not_run = 0u64;
    for r in results { match r { Some(a) => total.merge(a), None => not_run += 1 } }
    let n_sigs: u64 = plans.iter().map(|p| p.sigs.len() as u64).sum();
    let n_rejects: u64 = plans.iter().map(|p| p.rejects.len() as u64).sum();
    rep.evaluations = total.evaluations;
    rep.transitions = total.evaluations;
    rep.states = total.planned;
    rep.traces_validated = total.traces;
    rep.nontrivial = total.nontrivial;
    rep.rule = "the signature contains padding, a sub-dword, a string or o/t, or a value lies at a width edge (or the signature is one the loader must reject)".into();
    for (k, v) in &total.outcomes { rep.outcome_n(k, *v); }
    for f in total.failures.drain(..) { rep.failures.push(f); }
    if not_run > 0 { rep.cap_hit = Some(format!("wall cap: {not_run} of {} work items not run", work.len())); }
    if total.cases_done != total.planned {
        rep.machinery_errors.push(format!("case accounting: {} outcomes for {} cases", total.cases_done, total.planned));
    }
    rep.exhaustive = not_run == 0 && only.is_none();
    rep.bound_completed = format!(
        "ANM th12 user mapfile: all signatures of length <= {} over the 17-letter alphabet {{S s U u C c b f _ - n N E o t z(bs=4) m(bs=4;mask=0x77,7,16)}} (invalid ones must be rejected){}; \
         {} attribute variants alone / before / after 7 context letters{}; length-16 all-S signatures with 1 position over the 16 other letters and 2 positions over {}; 17/18/20(+padding) parameters; \
         MSG th08 string signatures; TH06 timeline arg0 signatures; 8 intrinsic kinds bound to every arrangement of their operands with ot/to/o at any boundary and one padding at any position.  Argument lists: default list, every single boundary-value deviation, registers at 1 and 2 positions{}",
        if thorough { 4 } else { 3 }, if extra { " + all of length 5 over {S s b f _ - o t z m}" } else { "" }, attr_variants().len(), if thorough { " (+ triples and pairs of variants)" } else { "" },
        if thorough { "the 16 other letters" } else { "{_ - s f}" }, if thorough { ", value deviation x register elsewhere (short and attribute families)" } else { "" });
    rep.extra.insert("signatures_valid".into(), json!(n_sigs));
    rep.extra.insert("signatures_rejected_expected".into(), json!(n_rejects));
    rep.extra.insert("families".into(), json!(total.families.iter().map(|(k, v)| json!({"family": k, "signatures": v.0, "cases": v.1})).collect::<Vec<_>>()));
    rep.extra.insert("notes".into(), json!(total.notes));
    rep.extra.insert("outcomes_by_host".into(), json!(total.by_ctx));
    rep.extra.insert("plan_seconds".into(), json!(t_plan));
    for p in &plans { if !p.groups.is_empty() { let cs = p.cases_of_group(p.groups.len() / 2); for ci in [0usize, cs.len() / 2, cs.len().saturating_sub(1)] { if let Some(c) = cs.get(ci) { rep.sample(detail(p.host, &p.sigs, c, json!(null))); } } } }
    rep.assumptions = vec![
        "encoding_rs Shift-JIS tables are trusted (same library as truth)".into(),
        "a value 'fits' a w-byte parameter when it is representable in w bytes as signed OR unsigned (signedness is documented as display only); such values are compared modulo 2^(8w)".into(),
        "NaN payloads are out of scope here (C08/C11)".into(),
    ];
    rep.explanation = "Every (signature, argument list) is compiled by the real compiler through a user mapfile; args blob, parameter mask and arg0 of each written instruction are compared with the harness model M7, the decompiled arguments are compared by value, and the decompiled text must recompile to the same bytes.  Compile errors are attributed to cases by source line; cases with an error are judged (expected diagnostic or violation) and the rest of the batch is recompiled.".into();
    rep
}

pub fn replay(d: &Value) -> i32 {
    let host = match d["host"].as_str().and_then(Host::from_name) { Some(h) => h, None => { eprintln!("replay: bad host"); return 2 } };
    let sig = d["sig"].as_str().unwrap_or("");
    let mut acc = Acc::default();
    if d["family"] == "intrinsic" {
        let ps = match parse_sig(sig) { Some(p) => p, None => { eprintln!("replay: cannot parse signature {sig:?}"); return 2 } };
        check_intrinsic(d["kind"].as_u64().unwrap_or(0) as usize, &ps, d["explicit_time"].as_bool().unwrap_or(false), &mut acc);
    } else if d["family"] == "sig-reject" {
        let reason: &'static str = Box::leak(d["reason"].as_str().unwrap_or("?").to_string().into_boxed_str());
        check_rejects(host, &[(sig.to_string(), reason)], &mut acc);
    } else {
        let ps = match parse_sig(sig) { Some(p) => p, None => { eprintln!("replay: cannot parse signature {sig:?}"); return 2 } };
        let calls: Option<Vec<Vec<A>>> = d["calls"].as_array().map(|cs| cs.iter().map(|c| c.as_array().map(|a| a.iter().filter_map(A::from_json).collect()).unwrap_or_default()).collect());
        let case = Case { sig: 0, calls: calls.unwrap_or_default(), family: "replay" };
        let b = build(host, &[ps.clone()], &[case.clone()], &[0], 0);
        println!("--- mapfile\n{}--- source\n{}", b.mapfile, b.source);
        for bc in &b.calls { println!("--- model: blob [{}] mask {:#x} arg0 {:?} needs {:?} error {:?} printed {:?}", hex(&bc.model.blob), bc.model.mask, bc.model.extra, bc.model.needs, bc.model.error, bc.model.printed); }
        let c = drive::compile(host.tool(), b.source.as_bytes(), &CompileOpts { mapfiles: vec![&b.mapfile], ..Default::default() });
        println!("--- compile: bytes={} panic={:?}\n{}", c.bytes.is_some(), c.panic.as_ref().map(|p| &p.text), short(&c.diag));
        if let Some(bytes) = &c.bytes {
            if let Ok(ins) = walk(host, bytes) { for i in &ins { println!("--- written: opcode {} blob [{}] mask {:#x} arg0 {}", i.opcode, hex(&i.blob), i.mask, i.extra); } }
            let dd = drive::decompile(host.tool(), bytes, &DecompOpts { width: 1_000_000, mapfiles: vec![&b.mapfile], ..Default::default() });
            if let Some(t) = &dd.text { for l in t.lines().filter(|l| l.trim_start().starts_with("ins_")) { println!("--- decompiled: {}", l.trim()); } }
            if !dd.diag.trim().is_empty() { println!("--- decompile diag:\n{}", short(&dd.diag)); }
        }
        check_group(host, &[ps], &[case], vec![0], &mut acc, 0);
    }
    println!("--- outcomes: {:?}", acc.outcomes);
    for f in &acc.failures { println!("FAIL {}  {}", f.signature, f.detail["note"]); }
    if acc.failures.is_empty() { 0 } else { 1 }
}
