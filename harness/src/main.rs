#![allow(dead_code, unused_imports, unused_variables)]
mod common;
mod tl;
mod gen;
mod c01;
mod c02;
mod c03;
mod c04;
mod c08;
mod c16;
mod c18;
mod c19;
mod c20;
mod c06;
mod c07;
mod c09;
mod c10;
mod c11;
mod c13;
mod c14;
mod drive;
mod m2;
mod c12;
mod c15;
mod c17;

use common::*;

fn main() {
    let args: Vec<String> = std::env::args().collect();
    if args.len() >= 2 && args[1] == "as-truth-core" {
        truth::cli_def::truth_main("verif", &args[2..]);
    }
    // glibc malloc returns every large block to the kernel by default; with 16 threads each creating
    // thousands of short-lived compiler contexts per second that costs 10x in page faults and mmap
    // contention.  The tunables are read at process start, so re-exec once with them set.
    //
    // Worker subprocesses (C04/C16 fault enumeration) must NOT run with these tunables: they judge memory and time
    // behaviour of the real code on hostile inputs, and with the mmap threshold raised a 2 GiB `vec![0; n]` is
    // really zeroed instead of being a lazy mapping.  They are re-exec'ed with the tunables removed.
    let is_worker = std::env::vars_os().any(|(k, _)| { let k = k.to_string_lossy(); k.starts_with("VERIF_C") && k.ends_with("_WORKER") });
    let want = if is_worker { "worker" } else { "main" };
    if matches!(args.get(1).map(|s| s.as_str()), Some("run") | Some("replay")) && std::env::var("VERIF_MALLOC").ok().as_deref() != Some(want) {
        use std::os::unix::process::CommandExt;
        let mut cmd = std::process::Command::new("/proc/self/exe");
        cmd.args(&args[1..]).env("VERIF_MALLOC", want);
        cmd.env("MALLOC_TRIM_THRESHOLD_", "4294967296");
        if is_worker {
            // keep freed memory, but leave the mmap threshold alone so that huge allocations stay lazy mappings
            cmd.env_remove("MALLOC_MMAP_THRESHOLD_").env("MALLOC_TOP_PAD_", "67108864");
        } else {
            cmd.env("MALLOC_MMAP_THRESHOLD_", "4294967296").env("MALLOC_TOP_PAD_", "268435456");
        }
        let err = cmd.exec();
        eprintln!("re-exec failed ({err}); continuing as is");
    }
    install_panic_hook();
    std::env::remove_var("TRUTH_MAP_PATH");
    std::env::set_var("RUST_BACKTRACE", "0");
    match args.get(1).map(|s| s.as_str()) {
        Some("run") => {
            let id = args[2].clone();
            let tier = args.get(3).cloned().unwrap_or_else(|| "quick".into());
            let rep = match id.as_str() {
                "C01" => c01::run(&tier),
                "C02" | "C05" => c02::run(&id, &tier),
                "C03" => c03::run(&tier),
                "C04" => c04::run(&tier),
                "C08" => c08::run(&tier),
                "C16" => c16::run(&tier),
                "C18" => c18::run(&tier),
                "C19" => c19::run(&tier),
                "C20" => c20::run(&tier),
                "C06" => c06::run(&tier),
                "C07" => c07::run(&tier),
                "C09" => c09::run(&tier),
                "C10" => c10::run(&tier),
                "C11" => c11::run(&tier),
                "C12" => c12::run(&tier),
                "C13" => c13::run(&tier),
                "C14" => c14::run(&tier),
                "C15" => c15::run(&tier),
                "C17" => c17::run(&tier),
                _ => { eprintln!("unknown property {id}"); std::process::exit(2) }
            };
            let code = finish(rep);
            drive::cleanup_scratch();
            std::process::exit(code);
        },
        Some("hash-probe") => { c19::hash_probe(); },
        Some("m2-selftest") => std::process::exit(m2::selftest()),
        Some("c14-debug") => { c14::debug_print(); },
        Some("c19-debug") => { c19::debug_print(); },
        Some("replay") => {
            let id = args[2].clone();
            let doc: serde_json::Value = serde_json::from_str(&std::fs::read_to_string(&args[3]).expect("read replay file")).expect("parse replay");
            let detail = &doc["detail"];
            let code = match id.as_str() {
                "C01" => c01::replay(detail),
                "C02" | "C05" => c02::replay(detail, &id),
                "C03" => c03::replay(detail),
                "C04" => c04::replay(detail),
                "C08" => c08::replay(detail),
                "C16" => c16::replay(detail),
                "C18" => c18::replay(detail),
                "C19" => c19::replay(detail),
                "C20" => c20::replay(detail),
                "C06" => c06::replay(detail),
                "C07" => c07::replay(detail),
                "C09" => c09::replay(detail),
                "C10" => c10::replay(detail),
                "C11" => c11::replay(detail),
                "C12" => c12::replay(detail),
                "C13" => c13::replay(detail),
                "C14" => c14::replay(detail),
                "C15" => c15::replay(detail),
                "C17" => c17::replay(detail),
                _ => 2,
            };
            std::process::exit(code);
        },
        _ => { eprintln!("usage: truth-verif run <ID> [quick|thorough] | replay <ID> <path> | as-truth-core ..."); std::process::exit(2) }
    }
}
