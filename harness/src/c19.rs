//! C19: output is a deterministic function of the inputs.  The only run-to-run variation of a
//! single-threaded truth process is the hash seed drawn from getrandom(); the harness owns it through
//! an LD_PRELOAD seam (shim/getrandom.c) and enumerates the (input, seed) grid.

use std::collections::{BTreeMap, BTreeSet};
use serde_json::json;

use crate::common::*;
use crate::drive::{self, run_cli};

const ANM_HEAD: &str = r#"
entry {
    path: "subdir/file.png",
    has_data: false,
    img_width: 512, img_height: 512, img_format: 3,
    offset_x: 0, offset_y: 0, colorkey: 0, memory_priority: 0, low_res_scale: false,
    sprites: {
        sprite0: {id: 0, x: 0.0, y: 0.0, w: 512.0, h: 480.0},
        sprite1: {id: 1, x: 0.0, y: 0.0, w: 512.0, h: 480.0},
        sprite2: {id: 2, x: 0.0, y: 0.0, w: 512.0, h: 480.0},
    },
}
"#;
const STD06_HEAD: &str = r#"
meta {
    unknown: 0, stage_name: "dm",
    bgm: [ {path: "bgm/a.mid", name: "dm"}, {path: "bgm/b.mid", name: "dm"}, {path: " ", name: " "}, {path: " ", name: " "} ],
    objects: {}, instances: [],
}
"#;
const MSG06_HEAD: &str = "meta { table: { 0: {script: \"script0\"}, 1: {script: \"script1\"} } }\n";

#[derive(Clone)]
pub struct Input { pub name: &'static str, pub tool: &'static str, pub game: &'static str, pub extra: Vec<&'static str>, pub source: String, pub mapfile: Option<String>, pub also_decompile: bool }

pub fn corpus() -> Vec<Input> {
    let mut v = vec![];
    // register names come from the user-facing map files, which the bare CLI does not load: sources are written with
    // I0..I3 / F0..F3 and spelled as raw registers of the game here
    let regs = |tool: &str, game: &str, src: String| -> String {
        let (ib, fb, step): (i32, i32, i32) = match (tool, game) { ("truanm", _) => (10000, 10004, 1), ("truecl", "th06") => (-10001, -10005, -1), ("truecl", _) => (10000, 10004, 1), _ => return src };
        let mut s = src;
        for k in 0..4 { s = s.replace(&format!("I{k}"), &format!("$REG[{}]", ib + step * k)).replace(&format!("F{k}"), &format!("%REG[{}]", fb + step * k)); }
        s
    };
    let mut add = |name, tool: &'static str, game: &'static str, extra: Vec<&'static str>, source: String, mapfile: Option<&str>, dec: bool| v.push(Input { name, tool, game, extra, source: regs(tool, game, source), mapfile: mapfile.map(String::from), also_decompile: dec });
    // -- competing diagnostics
    add("ecl07-param-aliases", "truecl", "th07", vec![], "void sub0(int a, int b, float x) {\n    $REG[10029] = $REG[10030] + 1;\n    a = b;\n    %REG[10033] = x;\n}\nscript timeline0 {}\n".into(), None, true);
    add("ecl07-param-aliases-4", "truecl", "th07", vec![], "void sub0(int a, int b, int c, int d, float x, float y) {\n    $REG[10029] = $REG[10030] + $REG[10031] + $REG[10032];\n    a = b + c + d;\n    %REG[10033] = x + %REG[10034];\n    y = 1.0;\n}\nvoid sub1(int p, int q) { $REG[10029] = $REG[10030]; p = q; }\nscript timeline0 {}\n".into(), None, true);
    add("ecl08-param-aliases", "truecl", "th08", vec![], "void sub0(int a, int b, float x) {\n    $REG[10029] = $REG[10030] + 1;\n    a = b;\n}\nscript timeline0 {}\n".into(), None, true);
    add("ecl06-too-complex", "truecl", "th06", vec![], "void sub0() {\n    int a = 1; int b = 2; int c = 3; int d = 4; int e = 5; int f = 6; int g = 7; int h = 8; int i = 9;\n    float x = 1.0; float y = 2.0; float z = 3.0; float w = 4.0; float u = 5.0; float t = 6.0;\n    I0 = a + b + c + d + e + f + g + h + i;\n}\nscript timeline0 {}\n".into(), None, false);
    add("anm12-two-undefined", "truanm", "th12", vec![], format!("{ANM_HEAD}script s0 {{ ins_1(); foo(nope1, nope2); bar(nope3); }}\nscript s1 {{ baz(nope4); }}\n"), None, false);
    add("anm12-dup-labels", "truanm", "th12", vec![], format!("{ANM_HEAD}script s0 {{ a: a: b: b: goto c; goto d; }}\n"), None, false);
    add("anm12-type-errors", "truanm", "th12", vec![], format!("{ANM_HEAD}script s0 {{ I0 = 1.5; F0 = 2; I1 = \"x\"; ins_3(1.0); }}\n"), None, false);
    add("anm12-unknown-sigs", "truanm", "th12", vec![], format!("{ANM_HEAD}script s0 {{ ins_9001(1); ins_9002(2); ins_9003(3); ins_9004(4); }}\n"), None, false);
    add("anm12-bad-enums-mapfile", "truanm", "th12", vec![], format!("{ANM_HEAD}script s0 {{ ins_1(); }}\n"),
        Some("!anmmap\n!enum(name=\"Alpha\")\n1 ok_a\n2 1bad\n!enum(name=\"Beta\")\n1 ok_b\n2 2bad\n!enum(name=\"Gamma\")\n3 3bad\n!ins_signatures\n9001 S(enum=\"Nope1\")\n9002 S(enum=\"Nope2\")\n"), false);
    add("anm12-enum-conflicts", "truanm", "th12", vec![], format!("{ANM_HEAD}script s0 {{ ins_9001(same); ins_9002(same); ins_9001(other); }}\n"),
        Some("!anmmap\n!enum(name=\"Alpha\")\n1 same\n2 other\n!enum(name=\"Beta\")\n5 same\n6 other\n!enum(name=\"Gamma\")\n7 same\n!ins_signatures\n9001 S(enum=\"Alpha\")\n9002 S(enum=\"Beta\")\n"), false);
    add("anm12-many-aliases", "truanm", "th12", vec![], format!("{ANM_HEAD}script s0 {{ aa(1); bb(2); cc(3); I0 = AA + BB + CC; }}\n"),
        Some("!anmmap\n!ins_names\n9001 aa\n9002 bb\n9003 cc\n!ins_signatures\n9001 S\n9002 S\n9003 S\n!gvar_names\n10000 AA\n10001 BB\n10002 CC\n!gvar_types\n10000 $\n10001 $\n10002 $\n"), true);
    // -- ordinary inputs of every tool (compile, then decompile the product)
    add("anm06-basic", "truanm", "th06", vec![], format!("{ANM_HEAD}script s0 {{ ins_6(); +5: ins_2(1.0, 2.0); }}\nscript s1 {{ ins_7(); }}\n"), None, true);
    add("anm12-locals", "truanm", "th12", vec![], format!("{ANM_HEAD}script s0 {{ int a = 3; int b = a * 2 + I0; float f = 1.5; F0 = f * 2.0; I1 = a + b; loop {{ +1: I0 += 1; if (I0 > 5) break; }} }}\nscript s1 {{ times(3) {{ ins_1(); }} }}\n"), None, true);
    add("anm17-sprites", "truanm", "th17", vec![], format!("{ANM_HEAD}script s0 {{ ins_300(sprite1); ins_300(sprite2); }}\n"), None, true);
    add("std06-basic", "trustd", "th06", vec![], format!("{STD06_HEAD}script main {{ ins_0(0.0, 0.0, 0.0); +10: ins_2(1.0, 2.0, 3.0); ins_3(5); }}\n"), None, true);
    add("msg06-two-scripts", "trumsg", "th06", vec![], format!("{MSG06_HEAD}script script0 {{ ins_1(1, 2); ins_3(0, 0, \"hello\"); +5: ins_0(); }}\nscript script1 {{ ins_3(0, 0, \"world\"); ins_0(); }}\n"), None, true);
    add("msg-unused-scripts", "trumsg", "th06", vec![], format!("{MSG06_HEAD}script script0 {{ ins_0(); }}\nscript script1 {{ ins_0(); }}\nscript unused_a {{ ins_0(); }}\nscript unused_b {{ ins_0(); }}\nscript unused_c {{ ins_0(); }}\n"), None, false);
    add("ecl06-switches", "truecl", "th06", vec![], "void sub0() {\n    int a = 1:2:3:4;\n    I0 = a;\n    {\"01\"}: I1 = 5;\n    times(3) { ins_0(); }\n}\nvoid sub1() { I0 = 0; }\nscript timeline0 { ins_1(sub0, 1.0, 2.0, 3.0); +10: ins_2(sub1, 1.0, 2.0, 3.0, 50, 1000, 1); }\n".into(), None, true);
    add("ecl08-calls", "truecl", "th08", vec![], "void sub0(int a, float x) { I2 = a; }\nvoid sub1() { sub0(5, 1.5); sub0(I0 + 1, F0); }\nscript timeline0 {}\n".into(), None, true);
    // -- one input per hash-ordered container in truth (intrinsic tables, resolver ribs, meta field sets, timeline
    //    names, label reference counts): each fills the container with several entries and uses what is looked up in it
    add("anm12-both-countjmps", "truanm", "th12", vec![], format!("{ANM_HEAD}script s0 {{ times(I2 = 5) {{ ins_1(); }} times(3) {{ ins_2(); }} if (--I3) goto l; ins_1();\nl:\n ins_2(); }}\n"),
        Some("!anmmap\n!ins_signatures\n500 Sot\n!ins_intrinsics\n500 CountJmp(op=\">\")\n"), true);
    add("anm12-alternative-intrinsics", "truanm", "th12", vec![], format!("{ANM_HEAD}script s0 {{ I0 = -I1; I0 += 2; I0 = I1 + I2; F0 = -F1; F0 *= 2.0; if (I0 == 1) goto l; if (I0 != 1) goto l; if (I0 < 1) goto l; if (F0 > 1.0) goto l; I1 = I0 % 3; times(2) {{ ins_1(); }}\nl:\n ins_2(); }}\n"),
        Some("!anmmap\n!ins_signatures\n600 SS\n601 SS\n602 SSS\n603 ff\n604 ff\n605 SSot\n606 SSot\n607 Sot\n!ins_intrinsics\n600 UnOp(op=\"-\"; type=\"int\")\n601 AssignOp(op=\"+=\"; type=\"int\")\n602 BinOp(op=\"+\"; type=\"int\")\n603 UnOp(op=\"-\"; type=\"float\")\n604 AssignOp(op=\"*=\"; type=\"float\")\n605 CondJmp(op=\"==\"; type=\"int\")\n606 CondJmp(op=\"!=\"; type=\"int\")\n607 CountJmp(op=\">\")\n"), true);
    add("anm12-meta-unknown-fields", "truanm", "th12", vec![], format!("{}script s0 {{ ins_1(); }}\n", ANM_HEAD.replacen("entry {", "entry {\n    bogus_a: 1, bogus_b: 2, bogus_c: 3, bogus_d: 4,", 1)), None, false);
    add("ecl08-timeline-redefinitions", "truecl", "th08", vec![], "void sub0() { }\nscript tl_a { }\nscript tl_a { }\nscript tl_b { }\nscript tl_b { }\nscript tl_c { }\nscript tl_c { }\n".into(), None, false);
    add("anm12-label-forest", "truanm", "th12", vec![], format!("{ANM_HEAD}script s0 {{\na:\n I0 = 1;\nb:\n if (I0 == 2) goto a;\n if (I0 == 3) goto b;\nc:\n loop {{ I0 += 1; if (I0 > 7) break; loop {{ I1 += 1; if (I1 > 3) break; }} }}\n if (I0 == 4) goto d;\n if (I0 == 5) goto e;\n goto c;\nd:\n ins_1();\ne:\n ins_2();\n while (I2 < 3) {{ I2 += 1; if (I2 == 2) goto f; }}\nf:\n do {{ I3 += 1; }} while (I3 < 2);\n times(2) {{ times(3) {{ ins_1(); }} }}\n}}\nscript s1 {{\nx:\n goto y;\ny:\n goto z;\nz:\n goto x;\n}}\n"), None, true);
    add("anm12-scope-redefinitions", "truanm", "th12", vec![], format!("{ANM_HEAD}script s0 {{ int a = 1; int a = 2; float b = 1.0; float b = 2.0; int c; int c; const int K = 1; const int K = 2; const int L = 1; const int L = 2; I0 = a + c + K + L; F0 = b; }}\n"), None, false);
    add("anm12-many-unknown-names", "truanm", "th12", vec![], format!("{ANM_HEAD}script s0 {{ I0 = u1 + u2 + u3 + u4 + u5; goto q1; goto q2; goto q3; q9(); q8(); q7(); }}\n"), None, false);
    add("std12-meta-unknown-fields", "trustd", "th12", vec![], "meta { zzz_a: 1, zzz_b: 2, zzz_c: 3, unknown: 0, anm_path: \"a.anm\", objects: {}, instances: [] }\nscript main { ins_0(); }\n".into(), None, false);
    add("msg06-meta-unknown-fields", "trumsg", "th06", vec![], format!("{}script script0 {{ ins_0(); }}\n", MSG06_HEAD.replacen("meta {", "meta {\n    qq_a: 1, qq_b: 2, qq_c: 3,", 1)), None, false);
    // -- debug info with several entries of every kind (locals, consts, labels, scripts), several mapfiles' worth of names
    add("anm12-debuginfo-rich", "truanm", "th12", vec![], format!("const int KA = 1; const int KB = KA + 1; const float KC = 2.5; const int KD = KB * 3;\n{ANM_HEAD}script s0 {{ int a = KA; int b = KB; float c = KC; int d = KD;\nla:\n I0 = a + b + d; F0 = c;\nlb:\n+5:\n if (I0 > 3) goto la;\nlc:\n goto lb; }}\nscript s1 {{ int x = 1; int y = 2; I1 = x + y;\nld:\n goto ld; }}\nscript s2 {{ const int KE = 9; I2 = KE; }}\n"), None, true);
    add("ecl08-debuginfo-rich", "truecl", "th08", vec![], "const int KA = 1; const int KB = 2; const float KC = 1.5;\nvoid sub0(int a, int b, float x) {\n    int p = a + KA; int q = b + KB; float r = x * KC;\nl0:\n    I0 = p + q; F0 = r;\n    if (I0 < 10) goto l0;\nl1:\n}\nvoid sub1() { int u = 3:4:5:6; I1 = u; sub0(1, 2, 1.0); }\nvoid sub2() { float w = 2.0; F1 = w; }\nscript timeline0 { ins_9(3); }\nscript timeline1 { ins_9(4); }\n".into(), None, true);
    add("msg06-debuginfo-rich", "trumsg", "th06", vec![], format!("const int KA = 3; const int KB = 4;\n{MSG06_HEAD}script script0 {{ ins_1(KA, KB);\nl0:\n ins_3(0, 0, \"a\");\n+5:\nl1:\n ins_0(); }}\nscript script1 {{ ins_1(KB, KA); ins_0(); }}\n"), None, true);
    add("anm12-enum-names-on-decompile", "truanm", "th12", vec![], format!("{ANM_HEAD}script s0 {{ ins_9001(1); ins_9001(2); ins_9002(1); ins_9002(5); ins_9003(1, 5); AA = 3; I1 = BB; }}\n"),
        Some("!anmmap\n!enum(name=\"Alpha\")\n1 a_one\n2 a_two\n3 a_three\n!enum(name=\"Beta\")\n1 b_one\n5 b_five\n6 b_six\n!ins_signatures\n9001 S(enum=\"Alpha\")\n9002 S(enum=\"Beta\")\n9003 S(enum=\"Alpha\")S(enum=\"Beta\")\n!ins_names\n9001 takeAlpha\n9002 takeBeta\n9003 takeBoth\n!gvar_names\n10000 AA\n10001 BB\n10002 CC\n!gvar_types\n10000 $\n10001 $\n10002 $\n"), true);
    add("ecl07-many-warnings-decompile", "truecl", "th07", vec![], "void sub0() {\n    ins_9001(@blob=\"01000000 02\");\n    ins_9002(@blob=\"01000000 02000000 03\");\n    ins_9003(@blob=\"0100\");\n    ins_9004(@blob=\"05000000\");\n}\nscript timeline0 {}\n".into(),
        Some("!eclmap\n!ins_signatures\n9001 S\n9002 SS\n9003 S\n9004 f\n"), true);
    // -- several unknown enums in signatures (validated by iterating the signature table); "did you mean" with a tie
    add("anm12-three-unknown-enums", "truanm", "th12", vec![], format!("{ANM_HEAD}script s0 {{ ins_1(); }}\n"),
        Some("!anmmap\n!ins_signatures\n9001 S(enum=\"Nope1\")\n9002 S(enum=\"Nope2\")\n9003 S(enum=\"Nope3\")\n9004 S(enum=\"Nope4\")\n"), false);
    add("anm12-similar-enum-tie", "truanm", "th12", vec![], format!("{ANM_HEAD}script s0 {{ ins_1(); }}\n"),
        Some("!anmmap\n!enum(name=\"Alphb\")\n1 xb\n!enum(name=\"Alphc\")\n1 xc\n!enum(name=\"Alphd\")\n1 xd\n!enum(name=\"Alphe\")\n1 xe\n!ins_signatures\n9001 S(enum=\"Alpha\")\n"), false);
    // -- old ECL: one sub called with different argument registers from different subs (the decompiler infers the callee's
    //    parameter list from the call sites it sees)
    add("ecl07-conflicting-call-signatures", "truecl", "th07", vec![], "void callee(int a) { $REG[10000] = a; }\nvoid c1() { $REG[10037] = 3; ins_41(callee); }\nvoid c2() { %REG[10041] = 2.5; ins_41(callee); }\nvoid c3() { $REG[10037] = 1; $REG[10038] = 2; ins_41(callee); }\nvoid c4() { $REG[10037] = 1; %REG[10041] = 2.0; %REG[10042] = 3.0; ins_41(callee); }\nvoid c5() { callee2(1, 2.0); callee(7); }\nvoid callee2(int a, float x) { $REG[10000] = a; }\nvoid c6() { %REG[10041] = 1.0; ins_41(callee2); }\nscript timeline0 {}\n".into(), None, true);
    add("ecl08-conflicting-call-signatures", "truecl", "th08", vec![], "void callee(int a) { $REG[10000] = a; }\nvoid c1() { $REG[10061] = 3; ins_52(callee); }\nvoid c2() { %REG[10065] = 2.5; ins_52(callee); }\nvoid c3() { $REG[10061] = 1; $REG[10062] = 2; ins_52(callee); }\nvoid c4() { $REG[10061] = 1; %REG[10065] = 2.0; %REG[10066] = 3.0; ins_52(callee); }\nvoid c5() { callee2(1, 2.0); callee(7); }\nvoid callee2(int a, float x) { $REG[10000] = a; }\nvoid c6() { %REG[10065] = 1.0; ins_52(callee2); }\nscript timeline0 {}\n".into(), None, true);
    // -- old ECL has two languages in one mapfile (subs, timelines): the same opcode numbers declared in both, each with
    //    something to report (unknown enums; attributes the format does not consume; unknown intrinsic names)
    add("ecl06-two-language-unknown-enums", "truecl", "th06", vec![], "void sub0() { ins_0(); }\nscript timeline0 {}\n".into(),
        Some("!eclmap\n!ins_signatures\n9001 S(enum=\"NopeE1\")\n9002 S(enum=\"NopeE2\")\n9003 S(enum=\"NopeE3\")\n!timeline_ins_signatures\n9001 S(enum=\"NopeT1\")\n9002 S(enum=\"NopeT2\")\n9003 S(enum=\"NopeT3\")\n"), false);
    add("ecl08-two-language-unknown-enums", "truecl", "th08", vec![], "void sub0() { ins_0(); }\nscript timeline0 {}\n".into(),
        Some("!eclmap\n!timeline_ins_signatures\n9001 S(enum=\"NopeT1\")\n9002 S(enum=\"NopeT2\")\n!ins_signatures\n9001 S(enum=\"NopeE1\")\n9002 S(enum=\"NopeE2\")\n"), false);
    add("ecl07-two-language-unconsumed-attributes", "truecl", "th07", vec![], "void sub0() { ins_0(); }\nscript timeline0 {}\n".into(),
        Some("!eclmap\n!ins_signatures\n9001 S(hex;bs=4;len=8;furibug)\n9002 f(bs=4;hex;nulless)\n!timeline_ins_signatures\n9001 S(bs=4;len=8;nulless)\n9002 f(len=8;hex;furibug)\n"), true);
    // -- several attributes that a parameter's format does not consume (one warning each, from one attribute table)
    add("msg06-unconsumed-attributes", "trumsg", "th06", vec![], format!("{MSG06_HEAD}script script0 {{ ins_100(1); ins_101(1.5); ins_0(); }}\nscript script1 {{ ins_0(); }}\n"),
        Some("!msgmap\n!ins_signatures\n100 S(hex;bs=4;len=8;mask=1,2,3;furibug;nulless)\n101 f(imm;bs=4;len=8;hex;arg0;nulless)\n102 z(bs=4;hex;imm;arg0;enum=\"bool\")\n"), true);
    add("anm12-unconsumed-attributes", "truanm", "th12", vec![], format!("{ANM_HEAD}script s0 {{ ins_9001(1); I0 = I1 + I2; }}\n"),
        Some("!anmmap\n!ins_signatures\n9001 S(hex;bs=4;len=8;mask=1,2,3;furibug;nulless)\n9002 SSS\n!ins_intrinsics\n9002 BinOp(op=\"+\"; type=\"int\"; zeta=\"1\"; alpha=\"2\"; mid=\"3\"; beta=\"4\")\n"), true);
    v
}

struct RunOut { status: i32, stdout: Vec<u8>, stderr: Vec<u8>, out_file: Option<Vec<u8>>, dbg_file: Option<Vec<u8>> }

fn shim_path() -> std::path::PathBuf { verif_root().join("target/libverif_seed.so") }

fn run_one(input: &Input, dir: &std::path::Path, seed: u64, decompile_bytes: Option<&[u8]>) -> RunOut {
    let _ = std::fs::create_dir_all(dir);
    let env = vec![("LD_PRELOAD", shim_path().to_string_lossy().to_string()), ("VERIF_HASH_SEED", seed.to_string())];
    let mut args: Vec<String> = vec![input.tool.to_string()];
    let mapfile_path = dir.join("map.txt");
    if let Some(m) = &input.mapfile { std::fs::write(&mapfile_path, m).unwrap(); }
    // relative paths + cwd so that diagnostics do not contain per-run directories
    let (out_name, r);
    match decompile_bytes {
        None => {
            std::fs::write(dir.join("in.spec"), &input.source).unwrap();
            args.extend(["compile".into(), "-g".into(), input.game.into(), "in.spec".into(), "-o".into(), "out.bin".into(), "--output-debug-info".into(), "dbg.json".into()]);
            out_name = Some("out.bin");
        },
        Some(b) => {
            std::fs::write(dir.join("in.bin"), b).unwrap();
            args.extend(["decompile".into(), "-g".into(), input.game.into(), "in.bin".into()]);
            out_name = None;
        },
    }
    for e in &input.extra { args.push(e.to_string()); }
    if input.mapfile.is_some() { args.push("-m".into()); args.push("map.txt".into()); }
    let _ = std::fs::remove_file(dir.join("out.bin"));
    let _ = std::fs::remove_file(dir.join("dbg.json"));
    r = run_cli_in(&args, &env, dir);
    let out_file = out_name.and_then(|n| std::fs::read(dir.join(n)).ok());
    let dbg_file = if decompile_bytes.is_none() { std::fs::read(dir.join("dbg.json")).ok() } else { None };
    RunOut { status: r.status, stdout: r.stdout, stderr: r.stderr, out_file, dbg_file }
}

fn run_cli_in(args: &[String], env: &[(&str, String)], cwd: &std::path::Path) -> drive::CliOut {
    let exe = drive::exe_snapshot();
    let mut cmd = std::process::Command::new(exe);
    cmd.arg("as-truth-core").args(args).current_dir(cwd);
    cmd.env_remove("TRUTH_MAP_PATH").env_remove("_TRUTH_DEBUG__TEST").env("RUST_BACKTRACE", "0");
    for (k, v) in env { cmd.env(k, v); }
    let out = cmd.output().expect("spawn cli");
    drive::CliOut { status: out.status.code().unwrap_or(-1), stdout: out.stdout, stderr: out.stderr }
}

/// side probe: which iteration orders of a 3-key HashMap does a seed realise (run in a subprocess with the shim)
pub fn hash_probe() {
    let mut m = std::collections::HashMap::new();
    m.insert("alpha", 1); m.insert("beta", 2); m.insert("gamma", 3);
    let order: Vec<&str> = m.keys().copied().collect();
    println!("{}", order.join(","));
}

pub fn run(tier: &str) -> Report {
    let mut rep = Report::new("C19", tier, "exploration");
    let thorough = tier == "thorough";
    let seeds: Vec<u64> = if thorough { (0..48).collect() } else { (0..8).collect() };
    if !shim_path().exists() { rep.machinery_errors.push(format!("{} missing: run ./setup.sh", shim_path().display())); return rep; }
    let _ = run_cli; // (the generic helper is not used here: we need a cwd)
    let base = drive::scratch_dir().join("c19");
    // seam self-test: equal seeds => equal probe output; count distinct orders realised
    let mut orders = BTreeSet::new();
    for &s in &seeds {
        let env = vec![("LD_PRELOAD", shim_path().to_string_lossy().to_string()), ("VERIF_HASH_SEED", s.to_string())];
        let exe = drive::exe_snapshot();
        let run = |env: &Vec<(&str, String)>| { let mut c = std::process::Command::new(&exe); c.arg("hash-probe"); for (k, v) in env { c.env(k, v); } String::from_utf8_lossy(&c.output().expect("probe").stdout).to_string() };
        let a = run(&env); let b = run(&env);
        if a != b || a.trim().is_empty() { rep.machinery_errors.push(format!("hash seam does not own the seed: seed {s} gave {a:?} then {b:?}")); return rep; }
        orders.insert(a);
    }
    rep.extra.insert("three_key_orders_realised_of_6".into(), json!(orders.len()));
    if orders.len() < 3 { rep.machinery_errors.push(format!("seed set realises only {} of 6 iteration orders of a 3-key map: seam ineffective", orders.len())); return rep; }

    let inputs = corpus();
    // work items: (input index, phase)
    let items: Vec<usize> = (0..inputs.len()).collect();
    let deadline = rep.deadline();
    let results = par_map(&items, Some(deadline), |_, &i| {
        let input = &inputs[i];
        let dir = base.join(format!("{}", input.name));
        let mut runs: Vec<(String, u64, RunOut)> = vec![];
        for &s in &seeds { runs.push(("compile".into(), s, run_one(input, &dir.join("w"), s, None))); }
        // equal seed twice (seam sanity per input)
        let again = run_one(input, &dir.join("w"), seeds[0], None);
        let compiled = runs[0].2.out_file.clone();
        let mut dec_runs = vec![];
        if input.also_decompile { if let Some(b) = &compiled { for &s in &seeds { dec_runs.push(("decompile".to_string(), s, run_one(input, &dir.join("w"), s, Some(b)))); } } }
        (runs, again, dec_runs)
    });
    for (i, r) in results.into_iter().enumerate() {
        let Some((runs, again, dec_runs)) = r else { rep.cap_hit = Some("wall cap".into()); continue; };
        let input = &inputs[i];
        let first = &runs[0].2;
        if again.status != first.status || again.stdout != first.stdout || again.stderr != first.stderr || again.out_file != first.out_file || again.dbg_file != first.dbg_file {
            rep.machinery_errors.push(format!("input {}: two runs with the SAME seed differ: uncaptured nondeterminism", input.name));
        }
        for (phase, group) in [("compile", &runs), ("decompile", &dec_runs)] {
            if group.is_empty() { continue; }
            rep.states += 1;
            let n_diag = String::from_utf8_lossy(&group[0].2.stderr).lines().filter(|l| l.starts_with("warning") || l.starts_with("error")).count();
            if n_diag >= 2 { rep.nontrivial += 1; }
            let mut distinct: BTreeMap<(i32, Vec<u8>, Vec<u8>, Option<Vec<u8>>, Option<Vec<u8>>), Vec<u64>> = BTreeMap::new();
            for (_, s, o) in group.iter() {
                rep.evaluations += 1; rep.transitions += 1;
                distinct.entry((o.status, o.stdout.clone(), o.stderr.clone(), o.out_file.clone(), o.dbg_file.clone())).or_default().push(*s);
            }
            rep.outcome(&format!("{phase}:{}", if distinct.len() == 1 { "deterministic" } else { "VARIES" }));
            if distinct.len() > 1 {
                let variants: Vec<_> = distinct.iter().map(|(k, seeds)| json!({"seeds": seeds, "status": k.0, "stderr_head": String::from_utf8_lossy(&k.2).lines().filter(|l| l.starts_with("warning") || l.starts_with("error") || l.contains("│")).take(12).collect::<Vec<_>>() })).collect();
                let what = if distinct.keys().map(|k| &k.3).collect::<BTreeSet<_>>().len() > 1 { "output-file" } else if distinct.keys().map(|k| &k.4).collect::<BTreeSet<_>>().len() > 1 { "debug-info-file" } else if distinct.keys().map(|k| &k.1).collect::<BTreeSet<_>>().len() > 1 { "stdout" } else if distinct.keys().map(|k| k.0).collect::<BTreeSet<_>>().len() > 1 { "exit-status" } else { "diagnostic-order" };
                rep.fail(format!("C19:{}:{}:{}", what, phase, input.name), json!({"input": input.name, "phase": phase, "tool": input.tool, "game": input.game, "source": input.source, "mapfile": input.mapfile, "n_variants": distinct.len(), "variants": variants}));
            }
        }
        if i % 4 == 0 { rep.sample(json!({"input": input.name, "tool": input.tool, "game": input.game, "source_head": input.source.chars().take(160).collect::<String>()})); }
    }
    // ---------- bundled game files: decompile (and ANM extract listing) under every seed
    {
        let files = crate::c01::bundled_seeds();
        let idx: Vec<usize> = (0..files.len()).collect();
        let results = par_map(&idx, Some(deadline), |_, &i| {
            let f = &files[i];
            let dir = base.join(format!("bundled-{i}"));
            let _ = std::fs::create_dir_all(&dir);
            std::fs::write(dir.join("in.bin"), &f.bytes).unwrap();
            let mut outs: BTreeMap<(i32, Vec<u8>, Vec<u8>), Vec<u64>> = BTreeMap::new();
            for &s in &seeds {
                let env = vec![("LD_PRELOAD", shim_path().to_string_lossy().to_string()), ("VERIF_HASH_SEED", s.to_string())];
                let mut args = f.tool.cli("decompile"); args.push("in.bin".into());
                let r = run_cli_in(&args, &env, &dir);
                outs.entry((r.status, r.stdout, r.stderr)).or_default().push(s);
            }
            outs
        });
        for (i, r) in results.into_iter().enumerate() {
            let Some(outs) = r else { rep.cap_hit = Some("wall cap".into()); continue; };
            rep.states += 1; rep.evaluations += seeds.len() as u64; rep.transitions += seeds.len() as u64;
            let n_diag = outs.keys().next().map(|k| String::from_utf8_lossy(&k.2).lines().filter(|l| l.starts_with("warning") || l.starts_with("error")).count()).unwrap_or(0);
            if n_diag >= 2 { rep.nontrivial += 1; }
            rep.outcome(&format!("bundled-decompile:{}", if outs.len() == 1 { "deterministic" } else { "VARIES" }));
            if outs.len() > 1 {
                let what = if outs.keys().map(|k| &k.1).collect::<BTreeSet<_>>().len() > 1 { "stdout" } else if outs.keys().map(|k| k.0).collect::<BTreeSet<_>>().len() > 1 { "exit-status" } else { "diagnostic-order" };
                rep.fail(format!("C19:{}:decompile:bundled:{}", what, files[i].label), json!({"bundled": files[i].label, "n_variants": outs.len(), "seeds": outs.values().collect::<Vec<_>>()}));
            }
        }
        rep.extra.insert("bundled_files_decompiled".into(), json!(files.len()));
    }
    rep.exhaustive = true;
    rep.bound_completed = format!("{} inputs x (compile{}) x seeds {:?}..{}", inputs.len(), ", decompile of the product", seeds[0], seeds.len());
    rep.rule = "full grid of (input, phase, hash seed); non-trivial = the command printed >= 2 diagnostics (competing entries whose order could depend on iteration order)".into();
    rep.assumptions = vec!["glibc getrandom()/getentropy() is the only source of run-to-run variation (single-threaded process; no clock or pid in outputs)".into(), "hash seeds are a proxy for hash-map iteration orders; the side probe reports how many of the 6 orders of a 3-key map the seed set realised".into()];
    rep.explanation = "each command is executed as a fresh subprocess of the real CLI under LD_PRELOAD=libverif_seed.so for every seed; exit status, stdout, stderr and the output file must be byte-identical across seeds; the same seed is run twice to prove the seam owns the nondeterminism".into();
    rep
}

pub fn replay(detail: &serde_json::Value) -> i32 {
    if let Some(lbl) = detail["bundled"].as_str() {
        let Some(f) = crate::c01::bundled_seeds().into_iter().find(|s| s.label == lbl) else { println!("unknown bundled file"); return 2; };
        let dir = drive::scratch_dir().join("c19-replay-b"); let _ = std::fs::create_dir_all(&dir);
        std::fs::write(dir.join("in.bin"), &f.bytes).unwrap();
        let mut outs = BTreeSet::new();
        for s in 0..8u64 {
            let env = vec![("LD_PRELOAD", shim_path().to_string_lossy().to_string()), ("VERIF_HASH_SEED", s.to_string())];
            let mut args = f.tool.cli("decompile"); args.push("in.bin".into());
            let r = run_cli_in(&args, &env, &dir);
            outs.insert((r.status, r.stdout, r.stderr));
        }
        drive::cleanup_scratch();
        println!("{} distinct outcomes over 8 seeds", outs.len());
        return if outs.len() > 1 { 1 } else { 0 };
    }
    let name = detail["input"].as_str().unwrap_or("");
    let Some(input) = corpus().into_iter().find(|i| i.name == name) else { println!("unknown input"); return 2; };
    let base = drive::scratch_dir().join("c19-replay");
    let mut outs = BTreeSet::new();
    for s in 0..8u64 {
        let o = run_one(&input, &base.join("w"), s, None);
        println!("seed {s}: status {} stderr md5-ish len {}", o.status, o.stderr.len());
        outs.insert((o.status, o.stdout, o.stderr, o.out_file, o.dbg_file));
    }
    drive::cleanup_scratch();
    println!("{} distinct outcomes over 8 seeds", outs.len());
    if outs.len() > 1 { 1 } else { 0 }
}

/// debug aid: exit status and diagnostics head of every corpus input at seed 0
pub fn debug_print() {
    let base = drive::scratch_dir().join("c19-debug");
    for input in corpus() {
        let o = run_one(&input, &base.join("w"), 0, None);
        let diags: Vec<String> = String::from_utf8_lossy(&o.stderr).lines().filter(|l| l.starts_with("warning") || l.starts_with("error")).map(|l| l.chars().take(110).collect()).collect();
        println!("{:32} status {} out_file {} diags {}", input.name, o.status, o.out_file.as_ref().map(|b| b.len() as i64).unwrap_or(-1), diags.len());
        for d in diags.iter().take(6) { println!("      {d}"); }
        if input.also_decompile { if let Some(b) = &o.out_file { let d = run_one(&input, &base.join("w"), 0, Some(b)); println!("      decompile status {} stdout {} bytes, stderr lines {}", d.status, d.stdout.len(), String::from_utf8_lossy(&d.stderr).lines().count()); } }
    }
    drive::cleanup_scratch();
}
