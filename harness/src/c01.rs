//! C01: decompile -> recompile reproduces the binary bit for bit, under every subset of the
//! --no-* flags, formatter widths and with/without a user mapfile of aliases.
//! Binaries: compiler outputs for generated programs in every host format, plus all bundled files.

use std::collections::{BTreeMap, BTreeSet};
use serde_json::json;
use truth::Game;

use crate::common::*;
use crate::drive::{self, Kind, Tool, CompileOpts, DecompOpts};
use crate::tl::{Table, TableCfg};

#[derive(Clone)]
pub struct Host {
    pub name: &'static str,
    pub tool: Tool,
    pub magic: &'static str,
    /// (A B C D P COUNT, X Y R W) register ids; None = language without registers
    pub regs: Option<([i32; 6], [i32; 4])>,
    pub op_base: u16,
    pub has_jump: bool,
    pub has_difficulty: bool,
    pub strings: bool,
}

pub fn hosts() -> Vec<Host> {
    let t = |k, g: &str| Tool::new(k, g.parse::<Game>().unwrap());
    vec![
        Host { name: "anm12", tool: t(Kind::Anm, "th12"), magic: "!anmmap", regs: Some(([10000, 10001, 10002, 10003, 10008, 10009], [10004, 10005, 10006, 10007])), op_base: 2000, has_jump: true, has_difficulty: false, strings: false },
        Host { name: "anm07", tool: t(Kind::Anm, "th07"), magic: "!anmmap", regs: Some(([10000, 10001, 10002, 10003, 10008, 10009], [10004, 10005, 10006, 10007])), op_base: 2000, has_jump: true, has_difficulty: false, strings: false },
        Host { name: "anm06", tool: t(Kind::Anm, "th06"), magic: "!anmmap", regs: None, op_base: 100, has_jump: true, has_difficulty: false, strings: false },
        Host { name: "ecl06", tool: t(Kind::Ecl, "th06"), magic: "!eclmap", regs: Some(([-10001, -10002, -10003, -10004, -10009, -10010], [-10005, -10006, -10007, -10008])), op_base: 2000, has_jump: true, has_difficulty: true, strings: false },
        Host { name: "ecl07", tool: t(Kind::Ecl, "th07"), magic: "!eclmap", regs: Some(([10000, 10001, 10002, 10003, 10012, 10013], [10004, 10005, 10006, 10007])), op_base: 2000, has_jump: true, has_difficulty: true, strings: false },
        Host { name: "ecl08", tool: t(Kind::Ecl, "th08"), magic: "!eclmap", regs: Some(([10000, 10001, 10002, 10003, 10004, 10005], [10016, 10017, 10018, 10019])), op_base: 2000, has_jump: true, has_difficulty: true, strings: false },
        Host { name: "std06", tool: t(Kind::Std, "th06"), magic: "!stdmap", regs: None, op_base: 100, has_jump: true, has_difficulty: false, strings: false },
        Host { name: "std12", tool: t(Kind::Std, "th12"), magic: "!stdmap", regs: None, op_base: 100, has_jump: true, has_difficulty: false, strings: false },
        Host { name: "msg06", tool: t(Kind::Msg, "th06"), magic: "!msgmap", regs: None, op_base: 100, has_jump: false, has_difficulty: false, strings: true },
        Host { name: "msg09", tool: t(Kind::Msg, "th09"), magic: "!msgmap", regs: None, op_base: 100, has_jump: false, has_difficulty: false, strings: true },
        Host { name: "msg12", tool: t(Kind::Msg, "th12"), magic: "!msgmap", regs: None, op_base: 100, has_jump: false, has_difficulty: false, strings: true },
    ]
}

/// One host per (tool, game) that `hosts()` does not already cover: every game truth supports for ANM, STD, MSG and
/// old-format ECL.  They get a reduced program set (see `run`); the point is that every game's format parameters
/// (header layout, instruction layout, opcode width, built-in signatures and intrinsics) take part in a round trip.
pub fn all_game_hosts() -> Vec<Host> {
    let have: BTreeSet<(Kind, Game)> = hosts().iter().map(|h| (h.tool.kind, h.tool.game)).collect();
    let games = ["th06", "th07", "th08", "th09", "th095", "th10", "alcostg", "th11", "th12", "th125", "th128", "th13", "th14", "th143", "th15", "th16", "th165", "th17", "th18", "th185"];
    let mut v = vec![];
    for gname in games {
        let game: Game = gname.parse().unwrap();
        for kind in [Kind::Anm, Kind::Std, Kind::Msg, Kind::Ecl] {
            if kind == Kind::Ecl && game > Game::Th095 { continue; }
            if have.contains(&(kind, game)) { continue; }
            let (pfx, magic) = match kind { Kind::Anm => ("anm", "!anmmap"), Kind::Std => ("std", "!stdmap"), Kind::Msg => ("msg", "!msgmap"), _ => ("ecl", "!eclmap") };
            let name: &'static str = Box::leak(format!("{pfx}-{gname}").into_boxed_str());
            let regs = match kind {
                Kind::Anm if game >= Game::Th07 => Some(([10000, 10001, 10002, 10003, 10008, 10009], [10004, 10005, 10006, 10007])),
                Kind::Ecl => Some(match game {
                    Game::Th06 => ([-10001, -10002, -10003, -10004, -10009, -10010], [-10005, -10006, -10007, -10008]),
                    Game::Th07 => ([10000, 10001, 10002, 10003, 10012, 10013], [10004, 10005, 10006, 10007]),
                    Game::Th095 => ([10000, 10001, 10002, 10003, 10004, 10005], [10008, 10009, 10010, 10011]),
                    _ => ([10000, 10001, 10002, 10003, 10004, 10005], [10016, 10017, 10018, 10019]),
                }),
                _ => None,
            };
            let byte_opcodes = game == Game::Th06 && kind == Kind::Anm || kind == Kind::Msg || kind == Kind::Std;
            v.push(Host { name, tool: Tool::new(kind, game), magic, regs, op_base: if byte_opcodes { 100 } else { 2000 }, has_jump: kind != Kind::Msg, has_difficulty: kind == Kind::Ecl, strings: kind == Kind::Msg });
        }
    }
    v
}

const MARKERS: [(&str, &str); 13] = [("m0", ""), ("mS", "S"), ("mf", "f"), ("mSS", "SS"), ("mSf", "Sf"), ("mfS", "fS"), ("mff", "ff"), ("mSSS", "SSS"), ("mfff", "fff"), ("mSfSf", "SfSf"), ("mz", "z(bs=4)"),
    ("mS8", "SSSSSSSS"), ("mf8S", "ffffffffS")];

impl Host {
    /// marker signature for this host (TH06-TH09 STD needs exactly 12 bytes of arguments per instruction)
    fn marker_sig(&self, sig: &str) -> Option<String> {
        if !(self.tool.kind == Kind::Std && self.tool.game < Game::Th095) { return Some(sig.to_string()); }
        if sig.len() > 3 || sig.contains('z') { return None; }
        Some(format!("{sig}{}", "_".repeat(3 - sig.len())))
    }

    pub fn user_mapfile(&self) -> String {
        let mut s = format!("{}\n", self.magic);
        if let Some((ints, floats)) = &self.regs {
            s += "!gvar_names\n";
            for (n, r) in ["A", "B", "C", "D", "P", "COUNT"].iter().zip(ints) { s += &format!("{r} {n}\n"); }
            for (n, r) in ["X", "Y", "R", "W"].iter().zip(floats) { s += &format!("{r} {n}\n"); }
        }
        s += "!ins_names\n";
        for (i, (n, sig)) in MARKERS.iter().enumerate() { if *n == "mz" && !self.strings || self.marker_sig(sig).is_none() { continue; } s += &format!("{} {}\n", self.op_base + i as u16, n); }
        s += "!ins_signatures\n";
        for (i, (n, sig)) in MARKERS.iter().enumerate() { if *n == "mz" && !self.strings { continue; } if let Some(sig) = self.marker_sig(sig) { s += &format!("{} {}\n", self.op_base + i as u16, sig); } }
        s
    }
    /// the same signatures without any names (what a user who only knows the layouts would have)
    pub fn sigs_only_mapfile(&self) -> String {
        let mut s = format!("{}\n!ins_signatures\n", self.magic);
        for (i, (n, sig)) in MARKERS.iter().enumerate() { if *n == "mz" && !self.strings { continue; } if let Some(sig) = self.marker_sig(sig) { s += &format!("{} {}\n", self.op_base + i as u16, sig); } }
        s
    }
    pub fn wrap(&self, body: &str) -> String {
        // the generators' raw-register atoms name test-language ids; use this host's registers instead
        let body = match &self.regs {
            Some((ints, floats)) => body.replace("REG[1002]", &format!("REG[{}]", ints[2])).replace("REG[1005]", &format!("REG[{}]", floats[1])),
            None => body.to_string(),
        };
        let body = body.as_str();
        let inner = body.trim().strip_prefix('{').and_then(|b| b.strip_suffix('}')).unwrap_or(body);
        match self.tool.kind {
            Kind::Anm => format!("entry {{\n    path: \"subdir/file.png\", has_data: false, img_width: 512, img_height: 512, img_format: 3,\n    offset_x: 0, offset_y: 0, colorkey: 0, memory_priority: 0, low_res_scale: false,\n    sprites: {{ sprite0: {{id: 0, x: 0.0, y: 0.0, w: 512.0, h: 480.0}}, sprite1: {{id: 1, x: 1.0, y: 0.0, w: 12.0, h: 48.0}} }},\n}}\nscript s0 {{ {inner} }}\nscript s1 {{ m0(); }}\n"),
            Kind::Ecl => format!("void sub0() {{ {inner} }}\nvoid sub1() {{ m0(); }}\nscript timeline0 {{ }}\n"),
            Kind::Std => if self.tool.game < Game::Th095 {
                format!("meta {{\n    unknown: 0, stage_name: \"dm\",\n    bgm: [ {{path: \"bgm/a.mid\", name: \"dm\"}}, {{path: \"bgm/b.mid\", name: \"dm\"}}, {{path: \" \", name: \" \"}}, {{path: \" \", name: \" \"}} ],\n    objects: {{}}, instances: [],\n}}\nscript main {{ {inner} }}\n")
            } else {
                format!("meta {{\n    unknown: 0, anm_path: \"stage01.anm\",\n    objects: {{ thing: {{ layer: 4, pos: [10.0, 20.0, 30.0], size: [10.0, 20.0, 30.0], quads: [] }} }},\n    instances: [],\n}}\nscript main {{ {inner} }}\n")
            },
            Kind::Msg | Kind::End => if self.tool.game < Game::Th09 {
                format!("meta {{ table: {{ 0: {{script: \"script0\"}}, 1: {{script: \"script1\"}} }} }}\nscript script0 {{ {inner} }}\nscript script1 {{ m0(); }}\n")
            } else {
                format!("meta {{ table: {{ 0: {{script: \"script0\", flags: 256}}, 1: {{script: \"script1\", flags: 256}} }} }}\nscript script0 {{ {inner} }}\nscript script1 {{ m0(); }}\n")
            },
            Kind::Mission => body.to_string(),
        }
    }
}

/// bodies for hosts without registers: sequences over markers with literal arguments, time labels, labels + gotos, strings
fn gen_plain(ch: &mut Chooser, host: &Host, n: usize) -> String {
    let mut out = vec![];
    let mut label_here = vec![];
    for i in 0..n {
        let mut kinds = vec!["m0", "mS", "mfff", "rel", "abs", "mSf"];
        if host.has_jump { kinds.push("goto-back"); kinds.push("goto-fwd"); }
        if host.strings { kinds.push("str"); kinds.push("str2"); }
        if host.tool.kind == Kind::Anm { kinds.push("interrupt"); }
        let k = kinds[ch.pick(kinds.len())];
        out.push(match k {
            "m0" => "m0();".to_string(),
            "mS" => format!("mS({});", [1, 0, -1, 2147483647, -2147483648i64, 65536][ch.pick(6)]),
            "mfff" => format!("mfff({}, 0.0, -1.5);", ["1.0", "0.5", "100000.0", "0.1"][ch.pick(4)]),
            "mSf" => "mSf(3, 2.5);".to_string(),
            "rel" => format!("+{}:", [1, 5, 0, 100][ch.pick(4)]),
            "abs" => format!("{}:", [5, 0, -1, 10, 30000][ch.pick(5)]),
            "goto-back" => { label_here.push(0usize); format!("goto L0;") },
            "goto-fwd" => { label_here.push(n); format!("goto L{n};") },
            "str" => format!("mz(\"{}\");", ["a", "", "abcd", "日本語", "a\\\"b\\\\c", "ソ"][ch.pick(6)]),
            "str2" => "mz(\"|furi\"); mz(\"next\");".to_string(),
            "interrupt" => "interrupt[1]:".to_string(),
            _ => unreachable!(),
        });
        let _ = i;
    }
    let mut text = String::from("{ ");
    if label_here.contains(&0) { text.push_str("L0: "); }
    text.push_str(&out.join(" "));
    if label_here.contains(&n) { text.push_str(&format!(" L{n}: m0();")); }
    text.push_str(" }");
    text
}

/// Raw spellings of every built-in intrinsic instruction of a register-language host: `ins_N(args)` with every choice
/// of {register, literal} per plain operand (jump operands name a label), taken from the game's built-in signature and
/// intrinsic tables (data).  These binaries exist (any tool or hand-written `ins_N(..)` can emit them) and decompile into
/// expression / jump syntax, so they take the intrinsic raise and lower paths with operand shapes the sugar never produces.
fn raw_intrinsic_bodies(host: &Host) -> Vec<(String, &'static str)> {
    let Some((ints, floats)) = &host.regs else { return vec![] };
    let lang = if host.tool.kind == Kind::Ecl { truth::LanguageKey::Ecl } else { truth::LanguageKey::Anm };
    let mut scope = truth::Builder::new().capture_diagnostics(true).build();
    let mut truth = scope.truth();
    let m = truth::verif_hooks::core_mapfile(truth.ctx().emitter, host.tool.game, lang);
    let sigs: BTreeMap<i32, String> = m.ins_signatures.iter().map(|(k, v)| (*k, v.value.clone())).collect();
    let mut out = vec![];
    for (op, intr) in &m.ins_intrinsics {
        let Some(sig) = sigs.get(op) else { continue };
        // operand letters (attributes in parentheses are dropped; padding takes no argument)
        let mut letters = vec![]; let mut depth = 0;
        for c in sig.chars() { match c { '(' => depth += 1, ')' => depth -= 1, _ if depth > 0 => {}, '_' | '-' => {}, c if c.is_ascii_alphabetic() => letters.push(c), _ => {} } }
        let plain: Vec<usize> = letters.iter().enumerate().filter(|(_, c)| matches!(c, 'S' | 'f')).map(|(i, _)| i).collect();
        if plain.len() > 4 || letters.iter().any(|c| !matches!(c, 'S' | 'f' | 'o' | 't')) { continue; }
        for choice in 0..(1u32 << plain.len()) {
            let args: Vec<String> = letters.iter().enumerate().map(|(i, c)| {
                let k = plain.iter().position(|&p| p == i);
                let lit = k.map_or(false, |k| choice >> k & 1 == 1);
                match c {
                    'S' => if lit { format!("{}", 3 + i) } else { format!("$REG[{}]", ints[i % 4]) },
                    'f' => if lit { format!("{}.5", 2 + i) } else { format!("%REG[{}]", floats[i % 4]) },
                    'o' => "offsetof(L0)".to_string(),
                    _ => "timeof(L0)".to_string(),
                }
            }).collect();
            // all *input* operands literal: the decompiled expression / condition is constant and is folded on recompilation
            let is_lit = |k: usize| choice >> k & 1 == 1;
            let all_inputs_literal = if intr.value.starts_with("BinOp") { plain.len() == 3 && !is_lit(0) && is_lit(1) && is_lit(2) }
                else if intr.value.starts_with("UnOp") { plain.len() == 2 && !is_lit(0) && is_lit(1) }
                else if intr.value.starts_with("CondJmp(") { plain.len() == 2 && is_lit(0) && is_lit(1) } else { false };
            out.push((format!("{{ L0: m0(); ins_{op}({}); m0(); }}", args.join(", ")), if all_inputs_literal { "raw-intrinsic-lits" } else { "raw-intrinsic" }));
        }
    }
    out
}

const LOSS_WARNINGS: [&str; 11] = ["will be lost", "lost", "ignoring nonzero data found in padding", "will be truncated at first null", "missing null terminator will be appended",
    "missing end-of-script marker will be added", "only one will be kept", "unexpected leftover bytes", "unused mask bits", "non-boolean value found", "strange image data size"];

#[derive(Clone)]
pub struct Seed { pub host: String, pub tool: Tool, pub label: String, pub bytes: Vec<u8>, pub user_map: Option<String>, pub sigs_map: Option<String>, pub source: Option<String> }

pub struct CaseOut { pub round_trips: u64, pub exempt: u64, pub failures: Vec<Failure>, pub nontrivial: bool, pub classes: Vec<String> }

pub fn check_seed(seed: &Seed, opt_sets: &[u32], widths: &[usize]) -> CaseOut { check_seed_ex(seed, opt_sets, widths, true) }

pub fn check_seed_ex(seed: &Seed, opt_sets: &[u32], widths: &[usize], with_sigs_only: bool) -> CaseOut {
    let mut out = CaseOut { round_trips: 0, exempt: 0, failures: vec![], nontrivial: false, classes: vec![] };
    let mut raw_text: Option<String> = None;
    // map settings: with the user's aliases; with signatures only (names absent); with nothing (blobs)
    let mut mapsets: Vec<(&str, Vec<&str>)> = vec![("none", vec![])];
    if let Some(m) = &seed.user_map { mapsets.insert(0, ("aliases", vec![m.as_str()])); }
    if with_sigs_only { if let Some(m) = &seed.sigs_map { mapsets.push(("sigs-only", vec![m.as_str()])); } }
    for (mapname, maps) in &mapsets {
        for &bits in opt_sets {
            for &w in widths {
                let detail = |kind: &str, extra: serde_json::Value| json!({"host": seed.host, "label": seed.label, "source": seed.source, "kind": kind, "opts_bits": bits, "flags": drive::flags_from_bits(bits), "width": w, "mapset": mapname, "info": extra,
                    "bytes_hex": if seed.bytes.len() <= 4096 { seed.bytes.iter().map(|b| format!("{b:02x}")).collect::<String>() } else { String::new() }});
                let d = drive::decompile(seed.tool, &seed.bytes, &DecompOpts { options: drive::options_from_bits(bits), width: w, mapfiles: maps.clone(), display_name: "seed.bin" });
                out.round_trips += 1;
                if let Some(p) = &d.panic { out.failures.push(Failure { signature: format!("C01:{}:decompile-{}", seed.host, p.signature()), detail: detail("decompile-panic", json!({"panic": p.text})) }); continue; }
                let Some(text) = d.text else {
                    out.failures.push(Failure { signature: format!("C01:{}:decompile-failed:{}", seed.host, seed.label), detail: detail("decompile-failed", json!({"diag": d.diag})) }); continue;
                };
                if LOSS_WARNINGS.iter().any(|wn| d.diag.contains(wn)) { out.exempt += 1; out.classes.push("exempt:loss-warning".into()); continue; }
                if bits & 31 == 31 && bits < 32 && w == 99 && *mapname == "none" { raw_text = Some(text.clone()); }
                if bits == 0 && w == 99 { if let Some(rt) = &raw_text { if *rt != text { out.nontrivial = true; } } }
                if text.contains(':') && (text.contains("label") || text.contains("+")) || text.contains('"') { out.nontrivial |= seed.bytes.len() > 64; }
                let image_sources: Vec<&[u8]> = if seed.tool.kind == Kind::Anm { vec![&seed.bytes[..]] } else { vec![] };
                let c = drive::compile(seed.tool, text.as_bytes(), &CompileOpts { mapfiles: maps.clone(), image_sources, ..Default::default() });
                if let Some(p) = &c.panic { out.failures.push(Failure { signature: format!("C01:{}:recompile-{}", seed.host, p.signature()), detail: detail("recompile-panic", json!({"panic": p.text, "text": text})) }); continue; }
                match c.bytes {
                    None => {
                        let first = c.diag.lines().find(|l| l.starts_with("error")).unwrap_or("").chars().filter(|ch| !ch.is_ascii_digit()).take(70).collect::<String>();
                        out.failures.push(Failure { signature: format!("C01:{}:recompile-failed:{first}:{}", seed.host, seed.label), detail: detail("recompile-failed", json!({"diag": c.diag, "text": text})) });
                    },
                    Some(b2) => {
                        if b2 != seed.bytes {
                            let pos = b2.iter().zip(&seed.bytes).position(|(a, b)| a != b).unwrap_or(b2.len().min(seed.bytes.len()));
                            // a non-canonical NaN (sign or payload bits) is printed as `NAN` and comes back as 0x7FC00000 (the C08 finding)
                            let o = pos & !3;
                            let nan_lost = text.contains("NAN") && b2.len() == seed.bytes.len() && o + 4 <= b2.len()
                                && f32::from_le_bytes([seed.bytes[o], seed.bytes[o + 1], seed.bytes[o + 2], seed.bytes[o + 3]]).is_nan()
                                && b2[o..o + 4] == 0x7FC00000u32.to_le_bytes()
                                && b2[o + 4..] == seed.bytes[o + 4..];
                            let sig = if nan_lost { "C01:bytes-differ:nan-bits-lost".to_string() }
                                else if seed.label.starts_with("raw-intrinsic-lits:") { "C01:bytes-differ:intrinsic-with-all-literal-operands-is-refolded".to_string() }
                                else if has_const_cond_jump(&text) { "C01:bytes-differ:conditional-jump-on-two-literals-is-refolded".to_string() } else { format!("C01:{}:bytes-differ:{}", seed.host, seed.label) };
                            out.failures.push(Failure { signature: sig, detail: detail("bytes-differ", json!({"first_diff_offset": pos, "len_original": seed.bytes.len(), "len_recompiled": b2.len(), "text": text, "decompile_diag": d.diag})) });
                        } else { out.classes.push("identical".into()); }
                    },
                }
            }
        }
    }
    out
}

pub fn bundled_seeds() -> Vec<Seed> {
    let mut v = vec![];
    for dir in ["/repo/tests/integration/bits-2-bits", "/repo/tests/integration/resources"] {
        let Ok(rd) = std::fs::read_dir(dir) else { continue; };
        let mut names: Vec<_> = rd.filter_map(|e| e.ok()).map(|e| e.path()).collect();
        names.sort();
        for p in names {
            let fname = p.file_name().unwrap().to_string_lossy().to_string();
            let ext = p.extension().map(|e| e.to_string_lossy().to_string()).unwrap_or_default();
            let kind = match ext.as_str() { "anm" => Kind::Anm, "std" => Kind::Std, "msg" => Kind::Msg, _ => continue };
            let game = fname.split('-').next().unwrap_or("").parse::<Game>();
            let Ok(game) = game else { continue; };
            let Ok(bytes) = std::fs::read(&p) else { continue; };
            v.push(Seed { host: format!("bundled-{ext}"), tool: Tool::new(kind, game), label: fname, bytes, user_map: None, sigs_map: None, source: None });
        }
    }
    v
}

pub fn run(tier: &str) -> Report {
    let mut rep = Report::new("C01", tier, "model_checking");
    let thorough = tier == "thorough";
    let deadline = rep.deadline();
    // ---------- generate source programs per host
    let table = Table::new(&TableCfg::FULL);
    let mut reg_bodies: Vec<(String, &'static str)> = vec![];
    let mut seen = BTreeSet::new();
    {
        let (k, jumps, bound) = if thorough { (4, 2, 4) } else { (3, 2, 3) };
        for kk in 1..=k {
            explore_dfs(bound, 200_000, &|ch| crate::c07::gen_flat(ch, kk, jumps), &mut |_, (b, _)| { if seen.insert(b.clone()) { reg_bodies.push((b, "flat")); } });
        }
        let (b2, d2) = if thorough { (3, 2) } else { (2, 2) };
        explore_dfs(b2, 200_000, &|ch| { let mut g = crate::c06::GB { ch, marker: 0, n_struct: 0, has_inner_label_or_nest: false, max_depth: d2, count_jmp: true, gotos: false }; let b = g.block(d2, false); format!("{{ {b} }}") },
            &mut |_, b| { if seen.insert(b.clone()) { reg_bodies.push((b, "block")); } });
        let (b3, d3) = if thorough { (3, 2) } else { (2, 2) };
        explore_dfs(b3, 200_000, &|ch| { let mut g = crate::gen::G::new(ch, &table); g.max_depth = d3; g.body(2) }, &mut |_, b| { if seen.insert(b.clone()) { reg_bodies.push((b, "expr")); } });
    }
    let mut seeds: Vec<Seed> = vec![];
    let mut compile_stats: BTreeMap<String, (u64, u64)> = BTreeMap::new();
    let full_hosts = hosts().len();
    for (host_ix, host) in hosts().into_iter().chain(all_game_hosts()).enumerate() {
        let reduced = host_ix >= full_hosts;
        let user_map = host.user_mapfile();
        let sigs_map = host.sigs_only_mapfile();
        let mut bodies: Vec<(String, &'static str)> = vec![];
        if host.regs.is_some() {
            for (bi, (b, fam)) in reg_bodies.iter().enumerate() {
                // the all-games hosts take every 40th generated body (quick) / every 8th (thorough)
                if reduced && bi % (if thorough { 8 } else { 40 }) != 0 { continue; }
                // difficulty syntax only where the language has it
                if !host.has_difficulty && (b.contains("{\"") || b.contains(':') && b.contains("(") && crate::c01::has_switch(b)) { continue; }
                bodies.push((b.clone(), fam));
            }
        }
        if host.has_difficulty && !reduced {
            // runs of 2-3 consecutive same-opcode instructions under difficulty labels (contiguous masks, masks with
            // holes, overlapping and non-adjacent masks, aux-style high bits): the decompiler's switch recognition
            let labels = ["0", "1", "01", "02", "13", "3", "23", "012", "0123", "4", "*"];
            let n = labels.len();
            for a in 0..n { for b in 0..n {
                for same in [false, true] {
                    bodies.push((format!("{{ {{\"{}\"}}: mS({}); {{\"{}\"}}: mS({}); {{\"*\"}}: m0(); }}", labels[a], 10, labels[b], if same { 10 } else { 20 }), "diffrun"));
                }
                if thorough || (a + b) % 3 == 0 { for c in 0..n {
                    bodies.push((format!("{{ {{\"{}\"}}: mS(10); {{\"{}\"}}: mS(20); {{\"{}\"}}: mS(30); }}", labels[a], labels[b], labels[c]), "diffrun"));
                }}
            }}
        }
        if host.name == "ecl06" {
            // EoSD's two-part conditional jump (ins_27/28 = compare, ins_29.. = jump on the hidden flag) under difficulty
            // labels: lone compares, compare + jump with equal / different labels, two labelled pairs in a row
            let labels = ["0", "1", "01", "23", "3", "0123", "02", "*"];
            for a in labels { for b in labels {
                bodies.push((format!("{{ {{\"{a}\"}}: ins_27(A, 10); {{\"{b}\"}}: ins_27(A, 20); m0(); }}"), "diffrun-cmp"));
                bodies.push((format!("{{ {{\"{a}\"}}: ins_28(X, 1.5); {{\"{b}\"}}: ins_28(X, 2.5); m0(); }}"), "diffrun-cmp"));
                bodies.push((format!("{{ L0: {{\"{a}\"}}: ins_27(A, 10); {{\"{b}\"}}: ins_29(timeof(L0), offsetof(L0)); m0(); }}"), "diffrun-cmp"));
                bodies.push((format!("{{ L0: {{\"{a}\"}}: ins_27(A, 10); {{\"{a}\"}}: ins_31(timeof(L0), offsetof(L0)); {{\"{b}\"}}: ins_27(A, 20); {{\"{b}\"}}: ins_31(timeof(L0), offsetof(L0)); m0(); }}"), "diffrun-cmp"));
            }}
        }
        if host.name == "ecl06" {
            // a label that is the `else` label of a reconstructible if / else chain AND is mentioned by a lone jump piece that
            // stays in instruction syntax (`ins_29(timeof(L), offsetof(L))`, separated from its compare by a time label):
            // the mention before, inside and behind the chain, with and without the compare
            for jop in [29, 31, 33] { for cmp in ["ins_27(A, 10); +1: ", "+1: ", ""] {
                let raw = format!("{cmp}ins_{jop}(timeof(NOT0), offsetof(NOT0));");
                bodies.push((format!("{{ {raw} if (A != 0) goto NOT0; m0(); goto END; NOT0: mS(1); END: m0(); }}"), "raw-jump-chain"));
                bodies.push((format!("{{ if (A != 0) goto NOT0; m0(); {raw} goto END; NOT0: mS(1); END: m0(); }}"), "raw-jump-chain"));
                bodies.push((format!("{{ if (A != 0) goto NOT0; m0(); goto END; NOT0: mS(1); {raw} END: m0(); }}"), "raw-jump-chain"));
                bodies.push((format!("{{ if (A != 0) goto NOT0; m0(); goto END; NOT0: mS(1); END: m0(); {raw} m0(); }}"), "raw-jump-chain"));
                bodies.push((format!("{{ L0: if (A != 0) goto NOT0; m0(); goto END; NOT0: mS(1); END: m0(); {raw} if (--C) goto L0; }}"), "raw-jump-chain"));
            }}
        }
        if host.has_difficulty && !reduced {
            // the same runs with a time label inside (a folded statement has only one time): all triples of pairwise
            // disjoint masks, label before the 2nd or the 3rd instruction
            let labels = ["0", "1", "01", "02", "13", "3", "23", "012", "2", "12", "123"];
            let mask = |l: &str| l.chars().fold(0u8, |m, c| m | 1 << c.to_digit(10).unwrap());
            for a in labels { for b in labels { for c in labels {
                if mask(a) & mask(b) != 0 || mask(a) & mask(c) != 0 || mask(b) & mask(c) != 0 { continue; }
                bodies.push((format!("{{ {{\"{a}\"}}: mS(10); {{\"{b}\"}}: mS(20); +5: {{\"{c}\"}}: mS(30); +7: m0(); }}"), "diffrun-timed"));
                bodies.push((format!("{{ {{\"{a}\"}}: mS(10); +5: {{\"{b}\"}}: mS(20); {{\"{c}\"}}: mS(30); }}"), "diffrun-timed"));
            }}}
        }
        if host.regs.is_some() { for (b, fam) in raw_intrinsic_bodies(&host) { bodies.push((b, fam)); } }
        // wide instructions: every register mask with 0..=9 leading register bits, a hole, or only a late bit; without the
        // signature (map setting "none") the instruction is a blob whose `@mask` must carry exactly these bits
        if host.regs.is_some() {
            for pat in [0b1111_1111u32, 0b0111_1111, 0b1111_1110, 0b1_1111_1111, 0b1_0000_0000, 0b1000_0000, 0b1010_0101, 0] {
                let ia = ["A", "B", "C", "D"]; let fa = ["X", "Y", "R", "W"];
                let s8: Vec<String> = (0..8).map(|i| if pat >> i & 1 == 1 { ia[i % 4].to_string() } else { format!("{}", 3 + i) }).collect();
                let f8: Vec<String> = (0..9).map(|i| if pat >> i & 1 == 1 { (if i < 8 { fa[i % 4] } else { "A" }).to_string() } else if i < 8 { format!("{}.5", i) } else { "77".to_string() }).collect();
                bodies.push((format!("{{ m0(); mS8({}); mS(1); }}", s8.join(", ")), "wide-mask"));
                bodies.push((format!("{{ mf8S({}); +3: mf8S({}); }}", f8.join(", "), f8.join(", ")), "wide-mask"));
            }
        }
        let mut seen_plain = BTreeSet::new();
        let (pn, pb) = if reduced { if thorough { (3, 3) } else { (2, 2) } } else if thorough { (4, 4) } else { (3, 3) };
        for n in 1..=pn { explore_dfs(pb, 100_000, &|ch| gen_plain(ch, &host, n), &mut |_, b| { if seen_plain.insert(b.clone()) { bodies.push((b, "plain")); } }); }
        rep.transitions += bodies.len() as u64;
        let results = par_map(&bodies, Some(deadline), |_, (b, _)| {
            let src = host.wrap(b);
            let c = drive::compile(host.tool, src.as_bytes(), &CompileOpts { mapfiles: vec![&user_map], ..Default::default() });
            (src, c)
        });
        let mut ok = 0; let mut rejected = 0;
        let mut dedupe = BTreeSet::new();
        for (i, r) in results.into_iter().enumerate() {
            let Some((src, c)) = r else { rep.cap_hit = Some("wall cap while compiling seeds".into()); continue; };
            rep.evaluations += 1;
            match c.bytes {
                Some(bytes) if !c.has_warning() => { ok += 1; if dedupe.insert(bytes.clone()) { seeds.push(Seed { host: host.name.to_string(), tool: host.tool, label: format!("{}:{}", bodies[i].1, bodies[i].0), bytes, user_map: Some(user_map.clone()), sigs_map: Some(sigs_map.clone()), source: Some(src) }); } },
                _ => { rejected += 1; if let Some(p) = c.panic { rep.discard(&format!("seed-compile-panic:{}", p.signature())); } },
            }
        }
        compile_stats.insert(host.name.to_string(), (ok, rejected));
    }
    // ---------- extra families: mission MSG, ending MSG, ECL timelines (real built-in signatures)
    {
        let t = |k, g: &str| Tool::new(k, g.parse::<Game>().unwrap());
        let mut extra: Vec<(&'static str, Tool, String)> = vec![];
        let texts = ["abc", "", "日本語", "a\\\"b"];
        for n in 1..=2usize { for a in 0..texts.len() { for b in 0..texts.len() { for big in [false, true] {
            let e095 = |i: usize| format!("entry {{ stage: {}, scene: {}, face: {}, point: {}, text: [\"{}\", \"{}\", \"x{i}\"] }}\n", 1 + 9 * i, 2 + 4 * i, 3 * (1 - i), if big { 1234567 } else { 4 }, texts[a], texts[b]);
            extra.push(("mission095", t(Kind::Mission, "th095"), (0..n).map(e095).collect::<String>()));
            let e125 = |i: usize| format!("entry {{ stage: {}, scene: {}, player: {i}, unknown_1: {}, unknown_2: 9, point_1: 3, point_2: {}, furigana: [[1, 2], [3, 4], [5, {i}]], text: [\"{}\", \"{}\", \"c\", \"d\", \"\", \"f{i}\"] }}\n", 1 + 9 * i, 2 + 4 * i, 7 * i, if big { 1234567 } else { 4 }, texts[a], texts[b]);
            extra.push(("mission125", t(Kind::Mission, "th125"), (0..n).map(e125).collect::<String>()));
        }}}}
        // ending MSG (th10/th12): text instruction 3 (masked string), plain instructions, time labels
        for game in ["th10", "th12"] { for a in 0..texts.len() { for tl in ["", "+5:", "30:"] { for second in [false, true] {
            extra.push(("end", t(Kind::End, game), format!("meta {{ table: {{ 0: {{script: \"script0\"}} }} }}\nscript script0 {{ ins_0(); {tl} ins_3(\"{}\"); ins_4(); {} }}\n", texts[a], if second { "+1: ins_3(\"|furi\"); ins_3(\"next\");" } else { "" })));
        }}}}
        // ECL timelines th06 / th08 with the real timeline signatures
        for (game, lines, two) in [("th06", vec!["ins_0(sub0, 1.0, 2.0, 3.0, 50, 1000, 1);", "ins_1(sub1, 1.0, -2.0, 3.5);", "ins_9();", "ins_10(3, 4);", "+10:", "100:", "ins_2(sub1, 0.0, 0.0, 0.0, -1, 32767, 2147483647);", "ins_12(5);"], false),
                              ("th08", vec!["ins_0(sub0, 1.0, 2.0, 50, 1000, 1);", "ins_2(sub1, 1.0, -2.0, 3.5, 1, 2, 3);", "+10:", "100:", "ins_3(sub1, 0.5, -1, 32767, 2147483647);", "ins_7();", "ins_8(3, 4);", "ins_9(7);"], true)] {
            let n = lines.len();
            for i in 0..n { for j in 0..n { for k in [None, Some(0usize), Some(n - 1)] {
                let mut body = vec![lines[i], lines[j]]; if let Some(k) = k { body.push(lines[k]); }
                let second = if two { format!("script timeline1 {{ {} }}\n", lines[(i + j) % n]) } else { String::new() };
                extra.push(("timeline", t(Kind::Ecl, game), format!("void sub0() {{ }}\nvoid sub1() {{ }}\nscript timeline0 {{ {} }}\n{second}", body.join(" "))));
                // TH08+ timeline instructions carry a difficulty mask: the same body with labels on its instructions
                if two && k.is_none() && !lines[i].ends_with(':') && !lines[j].ends_with(':') {
                    for (la, lb) in [("0", "*"), ("12", "3"), ("*", "01"), ("3", "3"), ("0123", "1")] {
                        for tg in ["th08", "th09", "th095"] {
                            extra.push(("timeline", t(Kind::Ecl, tg), format!("void sub0() {{ }}\nvoid sub1() {{ }}\nscript timeline0 {{ {{\"{la}\"}}: {} {{\"{lb}\"}}: {} {} }}\n", lines[i], lines[j], lines[(i + j) % n])));
                        }
                    }
                }
            }}}
        }
        // ANM files in which 2..4 entries share one path (the recompile matches them to the image source's entries of that
        // path in order of appearance): every per-entry choice of {embedded dummy image of its own size / no image} x 2 paths
        for game in ["th06", "th12"] { for path in ["@R", "same.png"] { for n in 2..=4usize { for imgs in 0..(1u32 << n) {
            if path.starts_with('@') && imgs != 0 { continue; }   // (virtual paths carry no image)
            let mut src = String::new();
            for i in 0..n {
                let has = imgs >> i & 1 == 1;
                src += &format!("entry {{\n    path: \"{path}\", has_data: {}, img_width: {}, img_height: {}, img_format: {}, memory_priority: {},\n    sprites: {{ sp{i}: {{id: {}, x: 0.0, y: 0.0, w: {}.0, h: 4.0}} }},\n}}\nscript scr{i} {{ ins_{}(); }}\n",
                    if has { "\"dummy\"" } else { "false" }, 4 << i, 4 + 4 * i, [1, 3, 5, 7][i], 10 + i, i * 3, 4 + i, if game == "th06" { 15 } else { 1 });
            }
            extra.push(("anm-shared-path", t(Kind::Anm, game), src));
        }}}}
        rep.transitions += extra.len() as u64;
        let results = par_map(&extra, Some(deadline), |_, (_, tool, src)| drive::compile(*tool, src.as_bytes(), &CompileOpts::default()));
        let mut dedupe = BTreeSet::new();
        for (i, r) in results.into_iter().enumerate() {
            let Some(c) = r else { continue; };
            rep.evaluations += 1;
            let e = compile_stats.entry(extra[i].0.to_string()).or_insert((0, 0));
            match c.bytes { Some(bytes) if !c.has_warning() => { e.0 += 1; if dedupe.insert(bytes.clone()) { seeds.push(Seed { host: extra[i].0.to_string(), tool: extra[i].1, label: format!("extra:{}", extra[i].2), bytes, user_map: None, sigs_map: None, source: Some(extra[i].2.clone()) }); } }, _ => { e.1 += 1; } }
        }
    }
    let n_generated = seeds.len();
    seeds.extend(bundled_seeds());
    // round-robin over (host, family): if the wall cap cuts the run short (slow or loaded machine) it cuts the depth of every
    // family evenly instead of dropping the families that happen to come last
    {
        let mut rank: BTreeMap<String, usize> = BTreeMap::new();
        let mut keyed: Vec<(usize, usize, Seed)> = seeds.drain(..).enumerate().map(|(i, s)| {
            let fam = format!("{}:{}", s.host, s.label.split(':').next().unwrap_or(""));
            let r = rank.entry(fam).or_insert(0); *r += 1;
            (*r, i, s)
        }).collect();
        keyed.sort_by_key(|k| (k.0, k.1));
        seeds = keyed.into_iter().map(|k| k.2).collect();
    }
    rep.extra.insert("seed_compile_stats(ok,rejected)".into(), json!(compile_stats));
    rep.extra.insert("bundled_files".into(), json!(seeds.len() - n_generated));
    rep.states = seeds.len() as u64;
    // ---------- round trips
    // bits 1..16 = the five --no-* flags, 32 = --show-instr-offsets
    let opt_sets: Vec<u32> = if thorough { (0..64).collect() } else { vec![0, 1, 2, 4, 8, 16, 31, 32] };
    // quick: every option set at the default width; width 20 under the default options and under --show-instr-offsets on every 4th seed
    let widths: Vec<usize> = if thorough { vec![99, 1, 20, 40, 79, 200] } else { vec![99] };
    let results = par_map(&seeds, Some(deadline), |i, s| {
        // bundled files and every 50th generated seed get all widths 1..=200 (thorough) on the default options
        // seeds of the all-games hosts: default and all-off options at the default width (quick tier)
        let light = !thorough && (s.host.contains("-th") || s.host.contains("-alcostg"));
        let o = if light { check_seed_ex(s, &[0, 31, 32], &[99], false) } else { check_seed_ex(s, &opt_sets, &widths, thorough || i % 8 == 0) };
        let narrow = if !thorough && !light && i % 4 == 0 { Some(check_seed_ex(s, &[0, 32], &[20], false)) } else { None };
        let o = match narrow { Some(n) => CaseOut { round_trips: o.round_trips + n.round_trips, exempt: o.exempt + n.exempt, failures: o.failures.into_iter().chain(n.failures).collect(), nontrivial: o.nontrivial || n.nontrivial, classes: o.classes.into_iter().chain(n.classes).collect() }, None => o };
        let extra = if s.source.is_none() || i % 50 == 0 { let ws: Vec<usize> = if thorough { (1..=200).collect() } else { vec![1, 2, 3, 10, 40, 79, 80, 100, 200] }; Some(check_seed(s, &[0], &ws)) } else { None };
        (o, extra)
    });
    let mut sig_seen: BTreeMap<String, u64> = BTreeMap::new();
    for (i, r) in results.into_iter().enumerate() {
        let Some((o, extra)) = r else { rep.cap_hit = Some("wall cap during round trips".into()); continue; };
        for o in std::iter::once(o).chain(extra) {
            rep.evaluations += o.round_trips; rep.traces_validated += o.round_trips - o.exempt;
            if o.nontrivial { rep.nontrivial += 1; }
            for c in o.classes { rep.outcome(&format!("{}:{}", seeds[i].host, c)); }
            for f in o.failures { let n = sig_seen.entry(f.signature.clone()).or_insert(0); *n += 1; if *n == 1 { rep.failures.push(f); } rep.outcome(&format!("{}:VIOLATION", seeds[i].host)); }
        }
        if i % 997 == 0 || seeds[i].source.is_none() && i % 7 == 0 { rep.sample(json!({"host": seeds[i].host, "label": seeds[i].label.chars().take(200).collect::<String>(), "bytes": seeds[i].bytes.len()})); }
    }
    rep.nontrivial = rep.nontrivial.max(1);
    rep.extra.insert("failure_counts".into(), json!(sig_seen));
    rep.exhaustive = true;
    rep.bound_completed = format!("{} distinct generated binaries over {} hosts (flat jump graphs, structured blocks, expression bodies, plain instruction/label/string sequences) + {} bundled files; option subsets {:?}; widths {:?} (+ {} on bundled files and every 50th binary); map settings aliases / none (+ signatures-only on every binary in thorough, every 8th in quick)", n_generated, hosts().len(), seeds.len() - n_generated, opt_sets, widths, if thorough { "every width 1..=200" } else { "9 extra widths" });
    rep.rule = "binaries = compile(generated source, user mapfile of aliases) deduplicated by content, plus bundled game files; every (binary, option subset, width, map setting) is decompiled and recompiled; non-trivial = the default decompilation differs from the all-flags-off decompilation or contains labels/strings".into();
    rep.assumptions = vec!["decompile runs that print one of the listed information-loss warnings are exempt and counted".into(), "in-process drivers mirror cli_def (C19 runs the real CLI)".into()];
    rep.explanation = "compile(format_w(decompile_opts(B)), image source = B) == B byte for byte".into();
    rep
}

/// `if (<int literal> <cmp> <int literal>) goto` / `unless (...) goto` somewhere in a decompiled text
pub fn has_const_cond_jump(text: &str) -> bool {
    for line in text.lines() {
        let t = line.trim();
        // (--show-instr-offsets prefixes statements with `/* (0xNN) 0xNN */`)
        let t = if t.starts_with("/*") { t.find("*/").map(|i| t[i + 2..].trim()).unwrap_or(t) } else { t };
        let t = t.strip_prefix("} else ").unwrap_or(t);
        let rest = if let Some(r) = t.strip_prefix("if (") { r } else if let Some(r) = t.strip_prefix("unless (") { r } else if let Some(r) = t.strip_prefix("while (") { r } else if let Some(r) = t.strip_prefix("} while (") { r } else { continue };
        // the same instruction printed as a jump or, with block recovery, as the head of a block
        let Some(end) = rest.find(") goto ").or_else(|| rest.strip_suffix(") {").map(|r| r.len())).or_else(|| rest.strip_suffix(");").map(|r| r.len())) else { continue; };
        let cond: Vec<&str> = rest[..end].split(' ').collect();
        let is_lit = |s: &str| { let s = s.strip_prefix('-').unwrap_or(s); !s.is_empty() && s.chars().all(|c| c.is_ascii_digit()) };
        if cond.len() == 3 && is_lit(cond[0]) && is_lit(cond[2]) && ["==", "!=", "<", "<=", ">", ">="].contains(&cond[1]) { return true; }
    }
    false
}

pub fn has_switch(b: &str) -> bool {
    // "(a:b" style switches: a ':' inside parentheses
    let mut depth = 0i32;
    for c in b.chars() { match c { '(' => depth += 1, ')' => depth -= 1, ':' if depth > 0 => return true, _ => {} } }
    false
}

pub fn replay(detail: &serde_json::Value) -> i32 {
    let host_name = detail["host"].as_str().unwrap_or("");
    let bits = detail["opts_bits"].as_u64().unwrap_or(0) as u32;
    let w = detail["width"].as_u64().unwrap_or(99) as usize;
    let extra_tool = |name: &str, src: &str| -> Option<Tool> {
        let g = |s: &str| s.parse::<Game>().unwrap();
        Some(match name { "mission095" => Tool::new(Kind::Mission, g("th095")), "mission125" => Tool::new(Kind::Mission, g("th125")),
            "end" => Tool::new(Kind::End, g(if src.contains("th12") { "th12" } else { "th10" })), "timeline" => Tool::new(Kind::Ecl, g("th06")), "anm-shared-path" => Tool::new(Kind::Anm, g("th06")), _ => return None })
    };
    let seed = if let Some(tool) = extra_tool(host_name, detail["source"].as_str().unwrap_or("")) {
        let src = detail["source"].as_str().unwrap_or("").to_string();
        // (the game is not recoverable for end/timeline from the name alone: try the candidates)
        let mut found = None;
        for game in ["th06", "th08", "th09", "th10", "th12", "th095", "th125"] {
            let t = Tool::new(tool.kind, game.parse::<Game>().unwrap());
            if let Some(bytes) = drive::compile(t, src.as_bytes(), &CompileOpts::default()).bytes {
                let hexs: String = bytes.iter().map(|b| format!("{b:02x}")).collect();
                if detail["bytes_hex"].as_str() == Some(hexs.as_str()) { found = Some(Seed { host: host_name.into(), tool: t, label: "replay".into(), bytes, user_map: None, sigs_map: None, source: Some(src.clone()) }); break; }
            }
        }
        match found { Some(s) => s, None => { println!("cannot rebuild seed"); return 2; } }
    } else if let Some(h) = hosts().into_iter().chain(all_game_hosts()).find(|h| h.name == host_name) {
        let src = detail["source"].as_str().unwrap_or("").to_string();
        let um = h.user_mapfile();
        let c = drive::compile(h.tool, src.as_bytes(), &CompileOpts { mapfiles: vec![&um], ..Default::default() });
        let Some(bytes) = c.bytes else { println!("seed no longer compiles: {}", c.diag); return 2; };
        Seed { host: h.name.into(), tool: h.tool, label: "replay".into(), bytes, user_map: Some(um), sigs_map: Some(h.sigs_only_mapfile()), source: Some(src) }
    } else {
        let label = detail["label"].as_str().unwrap_or("");
        match bundled_seeds().into_iter().find(|s| s.label == label) { Some(s) => s, None => { println!("unknown seed"); return 2; } }
    };
    let o = check_seed(&seed, &[bits], &[w]);
    for f in &o.failures { println!("FAIL {}\n{}", f.signature, serde_json::to_string_pretty(&f.detail).unwrap().chars().take(6000).collect::<String>()); }
    if o.failures.is_empty() { println!("round trip ok ({} trips, {} exempt)", o.round_trips, o.exempt); 0 } else { 1 }
}
