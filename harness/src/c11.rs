//! C11: compile-time evaluation agrees with run-time evaluation and the documented machine semantics.
//! M6 = tl::m1_binop / m1_unop (i64 arithmetic + explicit truncation; shifts mod 32; IEEE f32).

use std::collections::BTreeSet;
use serde_json::json;

use crate::common::*;
use crate::gen::G;
use crate::tl::{self, *};

pub const B_INT: [i32; 24] = [0, 1, -1, 2, -2, 7, -7, 31, 32, 33, -32, 0x7FFF, 0x8000, 0xFFFF, 0x10000, i32::MIN, i32::MIN + 1, i32::MAX, i32::MAX - 1, 3, 5, 64, -33, 46341];
pub fn b_float() -> Vec<f32> {
    vec![0.0, -0.0, 0.5, -0.5, 1.0, -1.0, 1.5, -1.5, f32::MAX, f32::MIN_POSITIVE, 1.0e-40, f32::INFINITY, f32::NEG_INFINITY, 1.0e20, 1.0e-20, 16777217.0, 2147483648.0, -2147483904.0, 0.1, 3.0, f32::NAN]
}

pub fn lit_int(x: i32) -> String { if x < 0 { format!("(-{})", (x as i64).unsigned_abs()) } else { x.to_string() } }
pub fn lit_float(x: f32) -> String {
    if x.is_infinite() { return if x > 0.0 { "INF".into() } else { "(-INF)".into() }; }
    if x.is_nan() { return "NAN".into(); }
    let mut s = format!("{}", x.abs());
    if !s.contains('.') { s.push_str(".0"); }
    if x.is_sign_negative() { format!("(-{s})") } else { s }
}

#[derive(Debug, Clone)]
pub struct ConstCase { pub text: String, pub float_result: bool, pub expect: Option<Val>, pub truthiness_only: bool, pub edge: bool }

fn all_const_cases() -> Vec<ConstCase> {
    let mut v = vec![];
    let fl = b_float();
    for op in ARITH.iter().chain(CMPS.iter()).chain(BITS.iter()) {
        for &a in &B_INT { for &b in &B_INT {
            let expect = m1_binop(op, false, &Val::I(a), &Val::I(b));
            let edge = a == i32::MIN || a == i32::MAX || b == 0 || b < 0 || b >= 32 || b == i32::MIN || expect.is_none();
            v.push(ConstCase { text: format!("({} {op} {})", lit_int(a), lit_int(b)), float_result: false, expect, truthiness_only: *op == "&&" || *op == "||", edge });
        }}
    }
    for op in ARITH.iter().chain(CMPS.iter()) {
        for &a in &fl { for &b in &fl {
            let expect = m1_binop(op, true, &Val::F(a), &Val::F(b));
            let is_cmp = CMPS.contains(op);
            let edge = !a.is_finite() || !b.is_finite() || b == 0.0 || a == 0.0 || a.abs() < 1e-37 || b.abs() < 1e-37;
            v.push(ConstCase { text: format!("({} {op} {})", lit_float(a), lit_float(b)), float_result: !is_cmp, expect, truthiness_only: false, edge });
        }}
    }
    for op in ["-", "~", "!"] { for &a in &B_INT {
        v.push(ConstCase { text: format!("({op}({}))", lit_int(a)), float_result: false, expect: m1_unop(op, false, &Val::I(a)), truthiness_only: false, edge: a == i32::MIN || a == 0 });
    }}
    for op in ["-", "sin", "cos", "sqrt", "tan", "asin", "acos", "atan"] { for &a in &fl {
        let text = if op == "-" { format!("(-{})", lit_float(a)) } else { format!("{op}({})", lit_float(a)) };
        v.push(ConstCase { text, float_result: true, expect: m1_unop(op, true, &Val::F(a)), truthiness_only: false, edge: !a.is_finite() || a == 0.0 || a < 0.0 });
    }}
    // casts
    for &a in &fl { v.push(ConstCase { text: format!("int({})", lit_float(a)), float_result: false, expect: Some(Val::I(Val::F(a).as_int())), truthiness_only: false, edge: !a.is_finite() || a.abs() >= 2147483648.0 }); }
    for &a in &B_INT { v.push(ConstCase { text: format!("float({})", lit_int(a)), float_result: true, expect: Some(Val::F(a as f32)), truthiness_only: false, edge: a.unsigned_abs() > (1 << 24) }); }
    // ternary with constant condition
    for &c in &[0, 1, -1, i32::MIN] { v.push(ConstCase { text: format!("({} ? 10 : 20)", lit_int(c)), float_result: false, expect: Some(Val::I(if c != 0 { 10 } else { 20 })), truthiness_only: false, edge: c != 1 }); }
    v
}

/// Compile `mS(e);`/`mf(e);` statements (one per case) through the real pipeline and read the immediates back.
fn eval_batch(table: &Table, mapfile: &str, cases: &[&ConstCase]) -> Result<Vec<Val>, (String, String)> {
    let body = format!("{{ {} }}", cases.iter().map(|c| format!("{}({});", if c.float_result { "mf" } else { "mS" }, c.text)).collect::<Vec<_>>().join(" "));
    let hooks = make_language(&Pool { ints: 4, floats: 4 }, false);
    let r = catch(|| with_truth(mapfile, |truth| {
        let mut block = front_end(truth, &body, true).map_err(|(s, d)| (format!("rejected:{s}"), d))?;
        tl::const_simplify(truth, &mut block).map_err(|d| ("rejected:const_simplify".to_string(), d))?;
        let des = desugar(truth, &block).map_err(|d| ("rejected:desugar".to_string(), d))?;
        let (instrs, _) = tl::lower(truth, &hooks, &des.0, false).map_err(|d| ("rejected:lower".to_string(), d))?;
        Ok::<_, (String, String)>(instrs)
    }));
    let instrs = match r { Err(p) => return Err((p.signature(), p.text)), Ok(Err(e)) => return Err(e), Ok(Ok(i)) => i };
    if instrs.len() != cases.len() { return Err(("not-folded".into(), format!("{} instrs for {} cases: {:?}", instrs.len(), cases.len(), fmt_instrs(&instrs)))); }
    let mut out = vec![];
    for (ins, c) in instrs.iter().zip(cases) {
        let sig = if c.float_result { "f" } else { "S" };
        let args = decode_args(sig, ins).map_err(|e| ("undecodable".to_string(), e))?;
        match &args[0].1 { Arg::Imm(v) => out.push(v.clone()), other => return Err(("not-folded".into(), format!("{:?}", other))) }
    }
    Ok(out)
}


// ---------------------------------------------------------------------------------------------
// family (c2): chains of const definitions in any order.  Each const has a type and a body built from literals and
// references to the consts before it in dependency order, read plainly, through a casting sigil (`$F`, `%I`) or
// through `int()`/`float()`; the definitions are then written in every permutation and used before or after.
// Oracle: M6 evaluates the dependency chain itself; the immediates emitted for `mS(Ci)` / `mf(Ci)` must equal it,
// whatever the order.

#[derive(Debug, Clone)]
enum CE { LitI(i32), LitF(f32), Ref(usize, Option<char>), Cast(bool, Box<CE>), Bin(&'static str, Box<CE>, Box<CE>), Tern(Box<CE>, Box<CE>, Box<CE>) }

fn ce_atom(ch: &mut Chooser, float: bool, types: &[bool]) -> CE {
    let mut alts: Vec<CE> = vec![];
    if float { alts.push(CE::LitF(2.5)); alts.push(CE::LitF(-0.75)); } else { alts.push(CE::LitI(7)); alts.push(CE::LitI(16777217)); alts.push(CE::LitI(-3)); }
    for (j, &tj) in types.iter().enumerate() {
        if tj == float { alts.push(CE::Ref(j, None)); }
        alts.push(CE::Ref(j, Some(if float { '%' } else { '$' })));
        if tj != float { alts.push(CE::Cast(float, Box::new(CE::Ref(j, None)))); }
    }
    alts[ch.pick(alts.len())].clone()
}
fn ce_body(ch: &mut Chooser, float: bool, types: &[bool]) -> CE {
    match ch.pick(5) {
        0 => ce_atom(ch, float, types),
        4 => { let c = ce_atom(ch, false, types); let a = ce_atom(ch, float, types); let b = ce_atom(ch, float, types); CE::Tern(Box::new(c), Box::new(a), Box::new(b)) },
        k => { let op = ["+", "*", "/"][k - 1]; let a = ce_atom(ch, float, types); let b = ce_atom(ch, float, types); CE::Bin(op, Box::new(a), Box::new(b)) },
    }
}
fn ce_text(e: &CE) -> String {
    match e {
        CE::LitI(x) => lit_int(*x), CE::LitF(x) => lit_float(*x),
        CE::Ref(j, None) => format!("K{j}"), CE::Ref(j, Some(c)) => format!("{c}K{j}"),
        CE::Cast(f, a) => format!("{}({})", if *f { "float" } else { "int" }, ce_text(a)),
        CE::Bin(op, a, b) => format!("({} {op} {})", ce_text(a), ce_text(b)),
        CE::Tern(c, a, b) => format!("({} ? {} : {})", ce_text(c), ce_text(a), ce_text(b)),
    }
}
fn ce_eval(e: &CE, float: bool, vals: &[Option<Val>]) -> Option<Val> {
    let cast = |v: &Val, f: bool| if f { Val::F(match v { Val::I(i) => *i as f32, Val::F(x) => *x }) } else { Val::I(v.as_int()) };
    match e {
        CE::LitI(x) => Some(Val::I(*x)), CE::LitF(x) => Some(Val::F(*x)),
        CE::Ref(j, None) => vals[*j].clone(),
        CE::Ref(j, Some(c)) => vals[*j].as_ref().map(|v| cast(v, *c == '%')),
        CE::Cast(f, a) => { let inner = ce_eval(a, !*f, vals)?; Some(cast(&inner, *f)) },
        CE::Bin(op, a, b) => { let x = ce_eval(a, float, vals)?; let y = ce_eval(b, float, vals)?; m1_binop(op, float, &x, &y) },
        CE::Tern(c, a, b) => { let cv = ce_eval(c, false, vals)?; let x = ce_eval(a, float, vals)?; let y = ce_eval(b, float, vals)?; Some(if cv.as_int() != 0 { x } else { y }) },
    }
}

#[derive(Debug, Clone)]
struct Chain { types: Vec<bool>, bodies: Vec<CE>, order: Vec<usize>, uses_first: bool }

fn gen_chain(ch: &mut Chooser) -> Chain {
    let n = 2 + ch.pick(2);
    let mut types = vec![]; let mut bodies = vec![];
    for _ in 0..n { let f = ch.pick(2) == 1; let b = ce_body(ch, f, &types); types.push(f); bodies.push(b); }
    // every permutation of the definition order, for free
    let perms: Vec<Vec<usize>> = if n == 2 { vec![vec![0, 1], vec![1, 0]] } else { vec![vec![0, 1, 2], vec![0, 2, 1], vec![1, 0, 2], vec![1, 2, 0], vec![2, 0, 1], vec![2, 1, 0]] };
    let order = perms[ch.pick_free(perms.len())].clone();
    let uses_first = ch.pick_free(2) == 1;
    Chain { types, bodies, order, uses_first }
}
fn chain_text(c: &Chain) -> String {
    let defs: Vec<String> = c.order.iter().map(|&i| format!("const {} K{i} = {};", if c.types[i] { "float" } else { "int" }, ce_text(&c.bodies[i]))).collect();
    let uses: Vec<String> = (0..c.types.len()).map(|i| format!("{}(K{i});", if c.types[i] { "mf" } else { "mS" })).collect();
    if c.uses_first { format!("{{ {} {} }}", uses.join(" "), defs.join(" ")) } else { format!("{{ {} {} }}", defs.join(" "), uses.join(" ")) }
}
fn chain_expected(c: &Chain) -> Option<Vec<Val>> {
    let mut vals: Vec<Option<Val>> = vec![];
    for i in 0..c.types.len() { let v = ce_eval(&c.bodies[i], c.types[i], &vals); vals.push(v); }
    vals.into_iter().collect()
}

fn judge(c: &ConstCase, got: &Val) -> bool {
    match &c.expect {
        None => false,
        Some(e) => if c.truthiness_only { (e.as_int() != 0) == (got.as_int() != 0) } else { e.same(got) },
    }
}

pub fn run(tier: &str) -> Report {
    let mut rep = Report::new("C11", tier, "model_checking");
    let thorough = tier == "thorough";
    let table = Table::new(&TableCfg::FULL);
    let mapfile = table.mapfile_text(REGS);
    let deadline = rep.deadline();
    // ---------------- (a) + (d): every operator x boundary operands, exhaustive
    let cases = all_const_cases();
    let defined: Vec<&ConstCase> = cases.iter().filter(|c| c.expect.is_some()).collect();
    let undefined: Vec<&ConstCase> = cases.iter().filter(|c| c.expect.is_none()).collect();
    let batches: Vec<Vec<&ConstCase>> = defined.chunks(48).map(|c| c.to_vec()).collect();
    let results = par_map(&batches, Some(deadline), |_, batch| {
        match eval_batch(&table, &mapfile, batch) {
            Ok(vals) => vals.into_iter().map(Ok).collect::<Vec<_>>(),
            Err(_) => batch.iter().map(|c| eval_batch(&table, &mapfile, &[*c]).map(|v| v[0].clone())).collect(),
        }
    });
    for (bi, r) in results.into_iter().enumerate() {
        let Some(r) = r else { rep.cap_hit = Some("wall cap in (a)".into()); continue; };
        for (ci, res) in r.into_iter().enumerate() {
            let c = batches[bi][ci];
            rep.evaluations += 1; rep.states += 1; rep.transitions += 1; rep.traces_validated += 1;
            if c.edge { rep.nontrivial += 1; }
            match res {
                Ok(v) => {
                    if judge(c, &v) { rep.outcome("a:agree"); } else {
                        rep.outcome("a:disagree");
                        rep.fail(format!("C11:const-value:{}", c.text), json!({"family": "a", "expr": c.text, "float_result": c.float_result, "expected": format!("{:?}", c.expect), "got": format!("{:?}", v), "truthiness_only": c.truthiness_only}));
                    }
                },
                Err((class, d)) => { rep.outcome(&format!("a:{class}")); rep.fail(format!("C11:defined-const-rejected:{}:{}", class, c.text), json!({"family": "a", "expr": c.text, "float_result": c.float_result, "diag": d})); },
            }
        }
    }
    rep.sample(json!({"family": "a", "expr": defined[defined.len() / 2].text, "expected": format!("{:?}", defined[defined.len() / 2].expect)}));
    // (d) undefined constants must be reported as errors, not crash and not fold silently
    let results = par_map(&undefined, Some(deadline), |_, c| eval_batch(&table, &mapfile, &[*c]));
    for (i, r) in results.into_iter().enumerate() {
        let Some(r) = r else { continue; };
        let c = undefined[i];
        rep.evaluations += 1; rep.states += 1; rep.transitions += 1; rep.traces_validated += 1; rep.nontrivial += 1;
        match r {
            Err((class, diag)) if class.starts_with("rejected") && crate::drive::has_error(&diag) => rep.outcome("d:error-diagnostic"),
            Err((class, diag)) => { rep.outcome("d:crash-or-silent"); let op = c.text.split_whitespace().nth(1).unwrap_or("?").to_string(); rep.fail(format!("C11:undefined-const:{}:{}", op, class), json!({"family": "d", "expr": c.text, "float_result": c.float_result, "class": class, "diag": diag})); },
            Ok(v) => { rep.outcome("d:silently-folded"); rep.fail(format!("C11:undefined-const-folded:{}", c.text), json!({"family": "d", "expr": c.text, "float_result": c.float_result, "got": format!("{:?}", v)})); },
        }
    }
    if let Some(c) = undefined.first() { rep.sample(json!({"family": "d", "expr": c.text})); }

    // ---------------- (b) partially constant expressions: AstVm(e) == AstVm(const_simplify(e))
    let vals = valuations();
    let (bound, depth) = if thorough { (5, 3) } else { (4, 2) };
    let mut bodies: Vec<String> = vec![];
    let mut seen = BTreeSet::new();
    let stats = explore_dfs(bound, if thorough { 2_000_000 } else { 150_000 }, &|ch| {
        let mut g = G::new(ch, &table);
        g.allow_switch = false; g.allow_locals = false;
        let float = g.ch.pick(2) == 1;
        let e = g.expr(float, depth);
        format!("{{ {}({e}); }}", if float { "mf" } else { "mS" })
    }, &mut |_, body| { if seen.insert(body.clone()) { bodies.push(body); } });
    rep.transitions += stats.runs;
    if stats.capped { rep.cap_hit = Some("generator cap in (b)".into()); }
    let results = par_map(&bodies, Some(deadline), |_, body| {
        catch(|| with_truth(&mapfile, |truth| {
            let block = match front_end(truth, body, true) { Ok(b) => b, Err((s, _)) => return (format!("rejected:{s}"), None) };
            let mut simp = block.clone();
            if let Err(d) = tl::const_simplify(truth, &mut simp) { return ("rejected:const_simplify".into(), Some(Err(d))); }
            let changed = truth::fmt::stringify(&simp) != truth::fmt::stringify(&block);
            let mut diffs = vec![];
            for (vi, val) in vals.iter().enumerate() {
                let a = run_astvm(truth, &block.0, val, 0);
                let b = run_astvm(truth, &simp.0, val, 0);
                let au = a.stopped.is_some(); let bu = b.stopped.is_some();
                if au { continue; } // undefined source behaviour (e.g. division by a zero register)
                if bu { diffs.push(format!("valuation {vi}: simplified form is undefined ({:?}) but the original is not", b.stopped)); break; }
                if let Some(d) = compare_traces(&a, &b, &[], false) { diffs.push(format!("valuation {vi}: {d}")); break; }
            }
            (if changed { "b:simplified".to_string() } else { "b:unchanged".to_string() }, Some(Ok((diffs, truth::fmt::stringify(&simp)))))
        }))
    });
    for (i, r) in results.into_iter().enumerate() {
        let Some(r) = r else { rep.cap_hit = Some("wall cap in (b)".into()); continue; };
        rep.evaluations += 1; rep.states += 1;
        match r {
            Err(p) => { rep.outcome("b:panic"); rep.discard(&format!("b:{}", p.signature())); },
            Ok((class, None)) => rep.outcome(&class),
            Ok((class, Some(Err(d)))) => {
                // a partially-constant expression whose constant part is undefined: must be an error diagnostic
                if crate::drive::has_error(&d) { rep.outcome("b:undefined-const-diagnosed"); } else { rep.outcome(&class); rep.fail(format!("C11:simplify-failed-without-error:{}", bodies[i]), json!({"family": "b", "body": bodies[i], "diag": d})); }
            },
            Ok((class, Some(Ok((diffs, simp))))) => {
                rep.outcome(&class); rep.traces_validated += vals.len() as u64;
                if class == "b:simplified" { rep.nontrivial += 1; if i % 3001 == 0 { rep.sample(json!({"family": "b", "body": bodies[i], "simplified": simp})); } }
                if let Some(d) = diffs.first() { rep.fail(format!("C11:simplify-changes-behaviour:{}", bodies[i]), json!({"family": "b", "body": bodies[i], "simplified": simp, "diff": d})); }
            },
        }
    }

    // ---------------- (c) const X = e; f(X) == f(e); chains of three consts in all 3! orders
    let hooks = make_language(&Pool { ints: 4, floats: 4 }, false);
    let compile = |body: &str| -> Result<Vec<String>, String> {
        match catch(|| with_truth(&mapfile, |truth| {
            let mut block = front_end(truth, body, true).map_err(|(s, d)| format!("{s}: {d}"))?;
            tl::const_simplify(truth, &mut block)?;
            let des = desugar(truth, &block)?;
            let (instrs, _) = tl::lower(truth, &hooks, &des.0, false)?;
            Ok::<_, String>(fmt_instrs(&instrs))
        })) { Ok(r) => r, Err(p) => Err(p.signature()) }
    };
    let exprs: Vec<(&str, bool)> = vec![("(3 + 4)", false), ("(7 / 2)", false), ("((-7) % 3)", false), ("(1 << 33)", false), ("((-8) >> 1)", false), ("((-8) >>> 28)", false), ("(2.5 * 2.0)", true), ("(1.0 / 3.0)", true), ("int(2.9)", false), ("float(3)", true), ("(5 > 3)", false), ("(2147483647 + 1)", false), ("(2 ? 10 : 20)", false), ("(0 ? 10 : 20)", false), ("((-1) ? 1.5 : 2.5)", true), ("((6 & 4) ? 10 : 20)", false), ("(-(7))", false), ("(~5)", false), ("(!(5))", false), ("(3 && 0)", false), ("(7 % 3)", false), ("(1.5 < 2.5)", false), ("sin(0.0)", true)];
    for (e, f) in &exprs {
        let m = if *f { "mf" } else { "mS" }; let ty = if *f { "float" } else { "int" };
        let a = compile(&format!("{{ {m}({e}); }}"));
        let b = compile(&format!("{{ const {ty} X1 = {e}; {m}(X1); }}"));
        let c = compile(&format!("{{ {m}(X1); const {ty} X1 = {e}; }}"));
        rep.evaluations += 3; rep.states += 1; rep.traces_validated += 2; rep.nontrivial += 1;
        if a.is_err() || a != b || a != c {
            rep.outcome("c:differs");
            rep.fail(format!("C11:const-naming:{e}"), json!({"family": "c", "expr": e, "float": f, "inline": format!("{:?}", a), "named": format!("{:?}", b), "named_after_use": format!("{:?}", c)}));
        } else { rep.outcome("c:same"); }
    }
    // chains: X = 2; Y = X * 3 + 1; Z = Y - X  in every definition order
    let defs = ["const int X = 2;", "const int Y = X * 3 + 1;", "const int Z = Y - X;"];
    let perms: [[usize; 3]; 6] = [[0, 1, 2], [0, 2, 1], [1, 0, 2], [1, 2, 0], [2, 0, 1], [2, 1, 0]];
    let reference = compile("{ mS(((2 * 3 + 1) - 2)); mS((2 * 3 + 1)); mS(2); }");
    for p in perms {
        let body = format!("{{ {} {} {} mS(Z); mS(Y); mS(X); }}", defs[p[0]], defs[p[1]], defs[p[2]]);
        let got = compile(&body);
        rep.evaluations += 1; rep.states += 1; rep.traces_validated += 1; rep.nontrivial += 1;
        if got.is_err() || got != reference { rep.outcome("c:chain-differs"); rep.fail(format!("C11:const-chain:{:?}", p), json!({"family": "c-chain", "body": body, "got": format!("{:?}", got), "reference": format!("{:?}", reference)})); }
        else { rep.outcome("c:chain-same"); }
    }
    rep.sample(json!({"family": "c", "body": "{ const int Z = Y - X; const int X = 2; const int Y = X * 3 + 1; mS(Z); mS(Y); mS(X); }"}));

    // (c2) generated chains of const definitions, every definition order, uses before/after
    let mut chains: Vec<Chain> = vec![];
    let mut seen_c = BTreeSet::new();
    let cbound = if thorough { 6 } else { 4 };
    let cstats = explore_dfs(cbound, if thorough { 3_000_000 } else { 400_000 }, &|ch| gen_chain(ch), &mut |_, c| { if seen_c.insert(chain_text(&c)) { chains.push(c); } });
    rep.transitions += cstats.runs;
    if cstats.capped { rep.cap_hit = Some("generator cap in (c2)".into()); }
    let cres = par_map(&chains, Some(deadline), |_, c| {
        let body = chain_text(c);
        let expected = chain_expected(c);
        let got = catch(|| with_truth(&mapfile, |truth| {
            let mut block = front_end(truth, &body, true).map_err(|(s, d)| format!("{s}: {d}"))?;
            tl::const_simplify(truth, &mut block)?;
            let des = desugar(truth, &block)?;
            let (instrs, _) = tl::lower(truth, &hooks, &des.0, false)?;
            let mut out = vec![];
            for (i, ins) in instrs.iter().enumerate() {
                let sig = if *c.types.get(i).unwrap_or(&false) { "f" } else { "S" };
                let args = decode_args(sig, ins)?;
                match &args[0].1 { Arg::Imm(v) => out.push(v.clone()), other => return Err(format!("not folded: {:?}", other)) }
            }
            Ok::<_, String>(out)
        }));
        (body, expected, got)
    });
    let mut n_chain_nontrivial = 0u64;
    for (i, r) in cres.into_iter().enumerate() {
        let Some((body, expected, got)) = r else { rep.cap_hit = Some("wall cap in (c2)".into()); continue; };
        rep.evaluations += 1; rep.states += 1; rep.traces_validated += 1;
        let forward = chains[i].uses_first || chains[i].order.windows(2).any(|w| w[0] > w[1]);
        if forward { rep.nontrivial += 1; n_chain_nontrivial += 1; }
        let exp_text = format!("{:?}", expected);
        let det = |extra: serde_json::Value| json!({"family": "c2", "body": body, "expected": exp_text, "info": extra});
        match (expected, got) {
            (_, Err(p)) => { rep.outcome("c2:panic"); rep.fail(format!("C11:const-chain-panic:{body}"), det(json!({"panic": p.text}))); },
            (None, Ok(Err(d))) => { if crate::drive::has_error(&d) { rep.outcome("c2:undefined-diagnosed"); } else { rep.outcome("c2:undefined-no-error"); rep.fail(format!("C11:const-chain-undefined-without-error:{body}"), det(json!({"diag": d}))); } },
            (None, Ok(Ok(v))) => { rep.outcome("c2:undefined-folded"); rep.fail(format!("C11:const-chain-undefined-folded:{body}"), det(json!({"got": format!("{:?}", v)}))); },
            (Some(_), Ok(Err(d))) => { rep.outcome("c2:rejected"); rep.fail(format!("C11:const-chain-rejected:{body}"), det(json!({"diag": d}))); },
            (Some(e), Ok(Ok(v))) => {
                if e.len() == v.len() && e.iter().zip(&v).all(|(a, b)| a.same(b)) { rep.outcome("c2:agree"); }
                else { rep.outcome("c2:disagree"); rep.fail(format!("C11:const-chain-value:{body}"), det(json!({"got": format!("{:?}", v)}))); }
            },
        }
        if i % 5003 == 0 { rep.sample(json!({"family": "c2", "body": body})); }
    }
    let n_chains = chains.len();
    rep.exhaustive = true;
    rep.bound_completed = format!("(c2): {n_chains} const chains (2-3 consts of either type; bodies = atom, atom op atom or atom ? atom : atom; atoms = literal, plain / sigil-cast / int()/float() reference to an earlier const; deviations<={cbound}) x every definition order x uses before/after ({n_chain_nontrivial} with a forward reference); (a),(d): exhaustive over 19 int binops x {}^2, 11 float binops x {}^2, unary ops, casts, constant ternaries ({} cases); (b): partially-constant expressions, deviations<={bound}, depth<={depth} ({} bodies) x {} valuations; (c): {} expressions x 3 spellings + 6 definition orders", B_INT.len(), b_float().len(), cases.len(), bodies.len(), vals.len(), exprs.len());
    rep.rule = "(a) full product of operators x boundary operand sets through the real front end + const_simplify + Lowerer, emitted immediate read back; non-trivial = operand pair hits an edge (overflow, zero divisor, shift >=32 or <0, non-finite float, -0.0) or the expression was actually simplified (b)".into();
    rep.assumptions = vec!["M6 reference evaluator (i64 arithmetic + truncation, shifts mod 32, IEEE f32 via Rust)".into(), "&& and || are compared for truthiness only (DESIGN §7)".into(), "AstVm for (b)".into()];
    rep.explanation = "compile-time values compared with M6; undefined constants must be diagnosed; const-simplified expressions executed against the originals; named vs inline constants must emit identical instructions".into();
    rep
}

pub fn replay(detail: &serde_json::Value) -> i32 {
    let table = Table::new(&TableCfg::FULL);
    let mapfile = table.mapfile_text(REGS);
    match detail["family"].as_str().unwrap_or("") {
        "a" | "d" => {
            let text = detail["expr"].as_str().unwrap().to_string();
            let c = all_const_cases().into_iter().find(|c| c.text == text).expect("case not in the enumerated set");
            let r = eval_batch(&table, &mapfile, &[&c]);
            println!("expr {} expected {:?} got {:?}", c.text, c.expect, r);
            match (&c.expect, r) { (Some(_), Ok(v)) => if judge(&c, &v[0]) { 0 } else { 1 }, (None, Err((class, d))) => if class.starts_with("rejected") && crate::drive::has_error(&d) { 0 } else { 1 }, _ => 1 }
        },
        _ => { println!("replay of families b/c: re-run ./check C11 quick (cases are few and deterministic)"); 2 },
    }
}
