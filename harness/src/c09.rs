//! C09: the type checker accepts exactly the well-typed scripts (M4 = reference typer over the
//! generator's own model) and predicts the type of every accepted expression.

use std::collections::BTreeSet;
use serde_json::json;
use truth::ast;

use crate::common::*;
use crate::tl::{self, *};

#[derive(Debug, Clone, Copy, PartialEq, Eq)]
pub enum T { Int, Float, Str }

/// Result of M4 on a subexpression: its type if well-typed
type MT = Option<T>;

pub struct G9<'a, 'c> {
    pub ch: &'a mut Chooser<'c>,
    pub ill: bool,            // M4 found a type error somewhere
    pub mutated: bool,        // a non-default typed alternative was chosen (mutation)
    pub positions: BTreeSet<&'static str>,
}

fn numeric(t: T) -> bool { t != T::Str }

impl<'a, 'c> G9<'a, 'c> {
    fn bad(&mut self) -> MT { self.ill = true; None }

    /// atom "wanted" of type `want`: alternative 0 is an atom of the wanted type; the others are
    /// atoms of every type (mutations cost a deviation)
    fn atom(&mut self, want: T) -> (String, MT) {
        let alts: Vec<(&str, T)> = vec![
            ("A", T::Int), ("X", T::Float), ("1", T::Int), ("1.5", T::Float), ("\"s\"", T::Str),
            ("$X", T::Int), ("%A", T::Float), ("$A", T::Int), ("%X", T::Float), ("li", T::Int), ("lf", T::Float), ("%li", T::Float), ("$lf", T::Int),
        ];
        let default = alts.iter().position(|a| a.1 == want).unwrap();
        let i = self.ch.pick(alts.len());
        let idx = if i == 0 { default } else if i <= default { i - 1 } else { i };
        let (t, ty) = alts[idx];
        if ty != want { self.mutated = true; }
        (t.to_string(), Some(ty))
    }

    fn expr(&mut self, want: T, depth: u32) -> (String, MT) {
        if depth == 0 { return self.atom(want); }
        // shapes valid for the wanted type come first (defaults), then all the others as mutations
        let all = ["atom", "arith", "rem", "cmp", "eq", "bitand", "logor", "shl", "neg", "not", "bitnot", "sin", "castint", "castfloat", "sigint", "sigfloat", "ternary", "switch", "switch-hole", "switch-hole-tail"];
        let s = all[self.ch.pick(all.len())];
        let d = depth - 1;
        // operand "wanted" types: chosen to make the default well-typed for `want` where the shape allows
        let num = if want == T::Str { T::Int } else { want };
        match s {
            "atom" => self.atom(want),
            "arith" | "rem" => {
                let op = if s == "arith" { "+" } else { "%" };
                let (a, ta) = self.expr(num, d); let (b, tb) = self.expr(num, d);
                let t = match (ta, tb) { (Some(x), Some(y)) if numeric(x) && x == y => Some(x), (None, _) | (_, None) => None, _ => self.bad() };
                (format!("({a} {op} {b})"), t)
            },
            "cmp" | "eq" => {
                let op = if s == "cmp" { "<" } else { "==" };
                let (a, ta) = self.expr(num, d); let (b, tb) = self.expr(num, d);
                let t = match (ta, tb) { (Some(x), Some(y)) if numeric(x) && x == y => Some(T::Int), (None, _) | (_, None) => None, _ => self.bad() };
                (format!("({a} {op} {b})"), t)
            },
            "bitand" | "logor" | "shl" => {
                let op = match s { "bitand" => "&", "logor" => "||", _ => "<<" };
                let (a, ta) = self.expr(T::Int, d); let (b, tb) = self.expr(T::Int, d);
                let t = match (ta, tb) { (Some(T::Int), Some(T::Int)) => Some(T::Int), (None, _) | (_, None) => None, _ => self.bad() };
                (format!("({a} {op} {b})"), t)
            },
            "neg" => { let (a, ta) = self.expr(num, d); let t = match ta { Some(x) if numeric(x) => Some(x), None => None, _ => self.bad() }; (format!("(-({a}))"), t) },
            "not" | "bitnot" => { let op = if s == "not" { "!" } else { "~" }; let (a, ta) = self.expr(T::Int, d); let t = match ta { Some(T::Int) => Some(T::Int), None => None, _ => self.bad() }; (format!("({op}({a}))"), t) },
            "sin" => { let (a, ta) = self.expr(T::Float, d); let t = match ta { Some(T::Float) => Some(T::Float), None => None, _ => self.bad() }; (format!("sin({a})"), t) },
            "castint" | "sigint" => { let f = if s == "castint" { "int" } else { "$" }; let (a, ta) = self.expr(T::Float, d); let t = match ta { Some(x) if numeric(x) => Some(T::Int), None => None, _ => self.bad() }; (format!("{f}({a})"), t) },
            "castfloat" | "sigfloat" => { let f = if s == "castfloat" { "float" } else { "%" }; let (a, ta) = self.expr(T::Int, d); let t = match ta { Some(x) if numeric(x) => Some(T::Float), None => None, _ => self.bad() }; (format!("{f}({a})"), t) },
            "ternary" => {
                let (c, tc) = self.expr(T::Int, d); let (a, ta) = self.expr(want, d); let (b, tb) = self.expr(want, d);
                let mut t = match (ta, tb) { (Some(x), Some(y)) if x == y => Some(x), (None, _) | (_, None) => None, _ => self.bad() };
                match tc { Some(T::Int) => {}, None => { t = None; }, _ => { t = self.bad(); } }
                (format!("({c} ? {a} : {b})"), t)
            },
            "switch" => {
                let (a, ta) = self.expr(want, d); let (b, tb) = self.expr(want, d);
                let t = match (ta, tb) { (Some(x), Some(y)) if x == y => Some(x), (None, _) | (_, None) => None, _ => self.bad() };
                (format!("({a}:{b})"), t)
            },
            "switch-hole" | "switch-hole-tail" => {
                // omitted cases (`a::b`, `a::b:c`): every written case must still have the type of the first
                let (a, ta) = self.expr(want, d); let (b, tb) = self.expr(want, d);
                let mut t = match (ta, tb) { (Some(x), Some(y)) if x == y => Some(x), (None, _) | (_, None) => None, _ => self.bad() };
                if s == "switch-hole" { (format!("({a}::{b})"), t) } else {
                    let (c, tc) = self.expr(want, d);
                    t = match (t, tc) { (Some(x), Some(y)) if x == y => Some(x), (None, _) | (_, None) => None, _ => self.bad() };
                    (format!("({a}::{b}:{c})"), t)
                }
            },
            _ => unreachable!(),
        }
    }

    /// one statement context containing expression(s); returns text
    fn stmt(&mut self, depth: u32) -> String {
        let kinds = ["assign-int", "assign-float", "assignop-int", "assignop-float", "assignop-shift", "decl-int", "decl-float", "call1", "call2", "call-arity", "if-goto", "if-block", "while", "times", "times-clobber", "predec", "expr-stmt", "sigil-assign"];
        let k = kinds[self.ch.pick(kinds.len())];
        let req = |g: &mut Self, got: MT, want: T| { match got { Some(t) if t == want => {}, None => {}, _ => { g.ill = true; } } };
        match k {
            "assign-int" => { let (e, t) = self.expr(T::Int, depth); req(self, t, T::Int); format!("A = {e};") },
            "assign-float" => { let (e, t) = self.expr(T::Float, depth); req(self, t, T::Float); format!("X = {e};") },
            "sigil-assign" => { let (e, t) = self.expr(T::Float, depth); req(self, t, T::Float); format!("%A = {e};") },
            "assignop-int" => { let (e, t) = self.expr(T::Int, depth); req(self, t, T::Int); format!("A += {e};") },
            "assignop-float" => { let (e, t) = self.expr(T::Float, depth); req(self, t, T::Float); format!("X *= {e};") },
            "assignop-shift" => {
                // shift-assign requires int var and int value; choose var A (int, default) or X (float, mutation)
                let v = if self.ch.pick(2) == 1 { self.mutated = true; self.ill = true; "X" } else { "A" };
                let (e, t) = self.expr(T::Int, depth);
                if v == "A" { req(self, t, T::Int); }
                format!("{v} <<= {e};")
            },
            "decl-int" => { let (e, t) = self.expr(T::Int, depth); req(self, t, T::Int); format!("int d1 = {e};") },
            "decl-float" => { let (e, t) = self.expr(T::Float, depth); req(self, t, T::Float); format!("float d2 = {e};") },
            "call1" => { let (e, t) = self.expr(T::Int, depth); req(self, t, T::Int); format!("mS({e});") },
            "call2" => { let (e, t) = self.expr(T::Int, depth); req(self, t, T::Int); let (f, tf) = self.expr(T::Float, depth); req(self, tf, T::Float); format!("mSf({e}, {f});") },
            "call-arity" => {
                // arity mutation: mSf with 1 or 3 args
                let n = [2usize, 1, 3][self.ch.pick(3)];
                if n != 2 { self.mutated = true; self.ill = true; }
                let mut args = vec![];
                for i in 0..n { let want = if i == 1 { T::Float } else { T::Int }; let (e, t) = self.expr(want, 0); if n == 2 { req(self, t, want); } args.push(e); }
                format!("mSf({});", args.join(", "))
            },
            "if-goto" => { let (e, t) = self.expr(T::Int, depth); req(self, t, T::Int); format!("if ({e}) goto Lend;") },
            "if-block" => { let (e, t) = self.expr(T::Int, depth); req(self, t, T::Int); format!("if ({e}) {{ m0(); }}") },
            "while" => { let (e, t) = self.expr(T::Int, depth); req(self, t, T::Int); format!("while ({e}) {{ break; }}") },
            "times" => { let (e, t) = self.expr(T::Int, depth); req(self, t, T::Int); format!("times({e}) {{ m0(); }}") },
            "times-clobber" => {
                let v = if self.ch.pick(2) == 1 { self.mutated = true; self.ill = true; "X" } else { "B" };
                let (e, t) = self.expr(T::Int, depth); if v == "B" { req(self, t, T::Int); }
                format!("times({v} = {e}) {{ m0(); }}")
            },
            "predec" => {
                let v = if self.ch.pick(2) == 1 { self.mutated = true; self.ill = true; "X" } else { "B" };
                format!("if (--{v}) goto Lend;")
            },
            "expr-stmt" => {
                // an expression statement must be void: a value expression is ill-typed
                let (e, _) = self.expr(T::Int, depth);
                self.ill = true; self.mutated = true;
                format!("({e});")
            },
            _ => unreachable!(),
        }
    }

    /// wrap the statement at a nesting position
    pub fn program(&mut self, depth: u32) -> String {
        let positions = ["top", "free-block", "nested-free-block", "loop-body", "if-body", "else-body", "times-body", "while-in-free-block", "free-block-in-loop"];
        let p = positions[self.ch.pick_free(positions.len())];   // every nesting position, for free
        self.positions.insert(p);
        let s = self.stmt(depth);
        let inner = match p {
            "top" => s,
            "free-block" => format!("{{ {s} }}"),
            "nested-free-block" => format!("{{ {{ {s} }} }}"),
            "loop-body" => format!("loop {{ {s} break; }}"),
            "if-body" => format!("if (A == 0) {{ {s} }}"),
            "else-body" => format!("if (A == 0) {{ m0(); }} else {{ {s} }}"),
            "times-body" => format!("times(2) {{ {s} }}"),
            "while-in-free-block" => format!("{{ while (A < 1) {{ {s} A += 1; }} }}"),
            "free-block-in-loop" => format!("loop {{ {{ {s} }} break; }}"),
            _ => unreachable!(),
        };
        format!("{{ int li = 1; float lf = 1.0; {inner} Lend: m0(); }}")
    }
}

struct ExprCollector<'a> { out: Vec<&'a truth::Sp<ast::Expr>> }
impl<'a> ast::Visit for ExprCollector<'a> {
    fn visit_expr(&mut self, e: &truth::Sp<ast::Expr>) {
        // SAFETY of lifetimes: we only keep references while the block is alive (transmute-free: collect indices instead)
        let _ = e;
    }
}

pub struct Out { pub class: String, pub failures: Vec<Failure>, pub type_checks: u64 }

pub fn check(mapfile: &str, body: &str, model_ill: bool) -> Out {
    let mut out = Out { class: String::new(), failures: vec![], type_checks: 0 };
    let detail = |extra: serde_json::Value| json!({"body": body, "model_says_ill_typed": model_ill, "info": extra});
    let vals = valuations();
    let r = catch(|| with_truth(mapfile, |truth| {
        // front end without type check
        // same order as the real compile pipelines: parse, assign_languages, resolve_names, type_check
        let mut block = match truth.parse::<ast::Block>("<input>", body.as_ref()) { Ok(b) => b.value, Err(e) => { e.ignore(); return Err(format!("rejected:parse:{}", truth.get_captured_diagnostics().unwrap_or_default())) } };
        let ctx = truth.ctx();
        if let Err(e) = truth::passes::resolution::assign_languages(&mut block, truth::LanguageKey::Anm, ctx) { e.ignore(); return Err("rejected:assign_languages".into()); }
        if let Err(e) = truth::passes::resolution::resolve_names(&block, ctx) { e.ignore(); return Err(format!("rejected:resolve:{}", truth.get_captured_diagnostics().unwrap_or_default())); }
        let verdict = truth::passes::type_check::run(&block, ctx);
        let mut accepted = match verdict { Ok(()) => true, Err(e) => { e.ignore(); false } };
        // programs with `const` items: their values must be computed before anything can be evaluated (as the real pipelines do)
        if accepted && body.contains("const ") {
            if let Err(e) = truth::passes::evaluate_const_vars::run(truth.ctx()) { e.ignore(); accepted = false; }
        }
        let ctx = truth.ctx();
        let diag = truth.get_captured_diagnostics().unwrap_or_default();
        if accepted {
            let ctx = truth.ctx();
            if let Err(e) = truth::passes::resolution::aliases_to_raw(&mut block, ctx) { e.ignore(); return Err("rejected:aliases_to_raw".into()); }
        }
        // type prediction clause on accepted programs: top-level statement expressions
        let mut mismatches = vec![];
        let mut n_checked = 0u64;
        if accepted {
            // collect expressions by walking statements we know how to reach
            fn walk<'b>(stmts: &'b [truth::Sp<ast::Stmt>], out: &mut Vec<&'b truth::Sp<ast::Expr>>) {
                for s in stmts {
                    match &s.kind {
                        ast::StmtKind::Assignment { value, .. } => out.push(value),
                        ast::StmtKind::Declaration { vars, .. } => for v in vars { if let Some(e) = &v.value.1 { out.push(e); } },
                        ast::StmtKind::Expr(e) => { if let ast::Expr::Call(c) = &e.value { for a in &c.args { out.push(a); } } },
                        ast::StmtKind::Block(b) => walk(&b.0, out),
                        ast::StmtKind::Loop { block, .. } => walk(&block.0, out),
                        ast::StmtKind::While { block, cond, .. } => { out.push(cond); walk(&block.0, out) },
                        ast::StmtKind::Times { block, count, .. } => { out.push(count); walk(&block.0, out) },
                        ast::StmtKind::CondJump { cond, .. } => out.push(cond),
                        ast::StmtKind::CondChain(chain) => {
                            for cb in &chain.cond_blocks { out.push(&cb.cond); walk(&cb.block.0, out); }
                            if let Some(b) = &chain.else_block { walk(&b.0, out); }
                        },
                        _ => {},
                    }
                }
            }
            fn subexprs<'b>(e: &'b truth::Sp<ast::Expr>, out: &mut Vec<&'b truth::Sp<ast::Expr>>) {
                out.push(e);
                match &e.value {
                    ast::Expr::BinOp(a, _, b) => { subexprs(a, out); subexprs(b, out); },
                    ast::Expr::UnOp(_, a) => subexprs(a, out),
                    ast::Expr::Ternary { cond, left, right, .. } => { subexprs(cond, out); subexprs(left, out); subexprs(right, out); },
                    ast::Expr::DiffSwitch(cases) => for c in cases.iter().flatten() { subexprs(c, out); },
                    _ => {},
                }
            }
            // consts cannot be evaluated by AstVm::eval; fold them instead: where const_simplify turns a statement's
            // expression into a literal, that literal's type is the type of the value
            if body.contains("const ") {
                let mut folded = block.clone();
                match truth::passes::const_simplify::run(&mut folded, truth.ctx()) {
                    Err(e) => { e.ignore(); mismatches.push("const_simplify failed on an accepted program".to_string()); },
                    Ok(()) => {
                        let mut t1 = vec![]; walk(&block.0, &mut t1);
                        let mut t2 = vec![]; walk(&folded.0, &mut t2);
                        let ctx = truth.ctx();
                        for (a, b) in t1.iter().zip(t2.iter()) {
                            let got = match &b.value { ast::Expr::LitInt { .. } => truth::ScalarType::Int, ast::Expr::LitFloat { .. } => truth::ScalarType::Float, _ => continue };
                            let Ok(predicted) = catch(|| a.compute_ty(ctx)) else { continue };
                            n_checked += 1;
                            if predicted.as_value_ty() != Some(got) { mismatches.push(format!("{}: checker predicts {:?}, the folded value is {:?}", truth::fmt::stringify(&a.value), predicted, got)); }
                        }
                    },
                }
            }
            let mut tops = vec![]; walk(&block.0, &mut tops);
            let mut all = vec![]; for t in tops { subexprs(t, &mut all); }
            let ctx = truth.ctx();
            for e in all {
                if matches!(e.value, ast::Expr::XcrementOp { .. }) { continue; }
                let text = truth::fmt::stringify(&e.value);
                if text.contains("li") || text.contains("lf") { continue; } // locals are not initialised outside execution
                let predicted = catch(|| e.compute_ty(ctx));
                let Ok(predicted) = predicted else { mismatches.push(format!("compute_ty panicked on {text}")); continue; };
                for val in vals.iter().take(3) {
                    let mut vm = truth::vm::AstVm::new().with_max_iterations(100).with_difficulty(0);
                    for (&r, v) in val { vm.set_reg(truth::RegId(r), v.to_scalar()); }
                    let res = catch(|| vm.eval(&e.value, &ctx.resolutions));
                    if let Ok(v) = res {
                        n_checked += 1;
                        let got = v.ty();
                        if predicted.as_value_ty() != Some(got) { mismatches.push(format!("{text}: checker predicts {:?}, evaluation gives {:?}", predicted, got)); break; }
                    }
                }
            }
        }
        Ok((accepted, diag, mismatches, n_checked))
    }));
    match r {
        Err(p) => { out.class = "panic".into(); out.failures.push(Failure { signature: format!("C09:{}", p.signature()), detail: detail(json!({"panic": p.text})) }); },
        Ok(Err(e)) => { out.class = e.split(':').take(2).collect::<Vec<_>>().join(":"); },
        Ok(Ok((accepted, diag, mismatches, n))) => {
            out.type_checks = n;
            out.class = format!("{}{}", if accepted { "accepted" } else { "rejected-by-checker" }, if model_ill { "/ill" } else { "/well" });
            if accepted && model_ill { out.failures.push(Failure { signature: format!("C09:accepts-ill-typed:{body}"), detail: detail(json!({"diag": diag})) }); }
            if !accepted && !model_ill { out.failures.push(Failure { signature: format!("C09:rejects-well-typed:{body}"), detail: detail(json!({"diag": diag})) }); }
            if !accepted && !crate::drive::has_error(&diag) { out.failures.push(Failure { signature: format!("C09:rejected-without-error:{body}"), detail: detail(json!({"diag": diag})) }); }
            if let Some(m) = mismatches.first() { out.failures.push(Failure { signature: format!("C09:type-prediction:{body}"), detail: detail(json!({"mismatch": m})) }); }
        },
    }
    out
}

/// Family (b): declared parameter types of functions, through the real ECL pipelines (TH07, TH08).
/// Every parameter list of length 1..=3 over {int, float} x {named, unnamed}; every named parameter is used in one of
/// six typed contexts in the body, and the sub is called from another sub with every argument list over
/// {int literal, float literal, int register, float register} of arity n-1, n, n+1.  M4: a use is well-typed iff the
/// context's type equals the parameter's DECLARED type; a call iff arity and every argument type match.
fn param_cases() -> Vec<(String, bool, String)> {
    let mut out = vec![];
    let tys = ["int", "float"];
    for n in 1..=3usize {
        for code in 0..4usize.pow(n as u32) {
            // per parameter: bit0 = type, bit1 = named
            let ps: Vec<(usize, bool)> = (0..n).map(|i| { let c = code / 4usize.pow(i as u32) % 4; (c & 1, c & 2 != 0) }).collect();
            let decl: Vec<String> = ps.iter().enumerate().map(|(i, (t, named))| if *named { format!("{} p{i}", tys[*t]) } else { tys[*t].to_string() }).collect();
            let decl = decl.join(", ");
            for (i, (t, named)) in ps.iter().enumerate() {
                if !named { continue; }
                let uses: [(String, Option<usize>); 6] = [
                    (format!("$REG[10000] = p{i};"), Some(0)), (format!("%REG[10004] = p{i};"), Some(1)), (format!("if (p{i}) {{ }}"), Some(0)),
                    (format!("%REG[10004] = p{i} + 1.0;"), Some(1)), (format!("$REG[10000] = p{i} * 2;"), Some(0)),
                    (format!("times(p{i}) {{ }}"), Some(0)),
                ];
                for (u, want) in uses {
                    let ill = want.map(|w| w != *t).unwrap_or(false);
                    out.push((format!("void sub0() {{ }}\nvoid sub1({decl}) {{\n    {u}\n}}\nscript timeline0 {{ }}\n"), ill, format!("param-use:{decl}:{u}")));
                }
            }
            // call sites
            let atoms: [(&str, usize); 4] = [("1", 0), ("1.5", 1), ("$REG[10000]", 0), ("%REG[10004]", 1)];
            for m in [n.saturating_sub(1), n, n + 1] {
                if m == 0 { out.push((format!("void sub0() {{\n    sub1();\n}}\nvoid sub1({decl}) {{ }}\nscript timeline0 {{ }}\n"), true, format!("call:{decl}:()"))); continue; }
                for ac in 0..4usize.pow(m as u32) {
                    let args: Vec<(&str, usize)> = (0..m).map(|i| atoms[ac / 4usize.pow(i as u32) % 4]).collect();
                    let ill = m != n || args.iter().zip(&ps).any(|(a, p)| a.1 != p.0);
                    let al: Vec<&str> = args.iter().map(|a| a.0).collect();
                    out.push((format!("void sub0() {{\n    sub1({});\n}}\nvoid sub1({decl}) {{ }}\nscript timeline0 {{ }}\n", al.join(", ")), ill, format!("call:{decl}:({})", al.join(", "))));
                }
            }
        }
    }
    out
}

fn check_params(game: &str, src: &str, ill: bool, key: &str) -> Out {
    use crate::drive::{self, CompileOpts, Kind, Tool};
    let mut out = Out { class: String::new(), failures: vec![], type_checks: 0 };
    // TH08 registers differ from TH07's: 10004 is an int register there
    let src = if game == "th08" { src.replace("REG[10004]", "REG[10016]") } else { src.to_string() };
    let tool = Tool::new(Kind::Ecl, game.parse().unwrap());
    let c = drive::compile(tool, src.as_bytes(), &CompileOpts::default());
    let detail = |extra: serde_json::Value| json!({"family": "params", "game": game, "source": src, "model_says_ill_typed": ill, "key": key, "info": extra});
    if let Some(p) = &c.panic { out.class = "params:panic".into(); out.failures.push(Failure { signature: format!("C09:{}", p.signature()), detail: detail(json!({"panic": p.text})) }); return out; }
    let accepted = c.bytes.is_some();
    let type_error = c.diag.contains("type error") || c.diag.contains("wrong number of arguments") || c.diag.contains("expects");
    out.class = format!("params:{}{}", if accepted { "accepted" } else if type_error { "rejected-type-error" } else { "rejected-other" }, if ill { "/ill" } else { "/well" });
    let kind = key.split(':').next().unwrap_or("");
    if accepted && ill { out.failures.push(Failure { signature: format!("C09:params:accepts-ill-typed:{kind}:{game}"), detail: detail(json!({"diag": c.diag})) }); }
    if !accepted && !ill { out.failures.push(Failure { signature: format!("C09:params:rejects-well-typed:{kind}:{game}"), detail: detail(json!({"diag": c.diag.chars().take(800).collect::<String>()})) }); }
    if !accepted && !drive::has_error(&c.diag) { out.failures.push(Failure { signature: format!("C09:params:rejected-without-error:{game}"), detail: detail(json!({"diag": c.diag})) }); }
    out
}

pub fn run(tier: &str) -> Report {
    let mut rep = Report::new("C09", tier, "model_checking");
    let thorough = tier == "thorough";
    let table = Table::new(&TableCfg::FULL);
    let mapfile = table.mapfile_text(REGS);
    let (bound, depth) = if thorough { (4, 2) } else { (3, 2) };
    let mut cases: Vec<(String, bool, bool)> = vec![];
    let mut seen = BTreeSet::new();
    let stats = explore_dfs(bound, if thorough { 6_000_000 } else { 2_000_000 }, &|ch| {
        let mut g = G9 { ch, ill: false, mutated: false, positions: BTreeSet::new() };
        let body = g.program(depth);
        (body, g.ill, g.mutated)
    }, &mut |_, (body, ill, mutated)| { if seen.insert(body.clone()) { cases.push((body, ill, mutated)); } });
    rep.transitions = stats.runs; rep.states = cases.len() as u64;
    if stats.capped { rep.cap_hit = Some(format!("generator cap {}", stats.runs)); }
    let deadline = rep.deadline();
    let results = par_map(&cases, Some(deadline), |_, (b, ill, _)| check(&mapfile, b, *ill));
    for (i, r) in results.into_iter().enumerate() {
        let Some(o) = r else { rep.cap_hit = Some("wall cap".into()); continue; };
        rep.evaluations += 1; rep.traces_validated += 1 + o.type_checks;
        rep.outcome(&o.class);
        if cases[i].1 { rep.nontrivial += 1; }
        if i % 9001 == 0 { rep.sample(json!({"body": cases[i].0, "model_ill_typed": cases[i].1})); }
        rep.failures.extend(o.failures);
    }
    // family (c): consts (of either type, defined in either order, one reading the other through a casting sigil or a cast)
    // used as atoms of expressions: the type the checker assigns to each expression must be the type of its value
    {
        let mut ccases: Vec<(String, bool, bool)> = vec![];
        let defs: [(&str, &str); 6] = [
            ("const float KF = 2.5;", "const int KI = $KF;"), ("const int KI = 7;", "const float KF = %KI;"), ("const float KF = 2.5;", "const int KI = int(KF);"),
            ("const int KI = 7;", "const float KF = float(KI);"), ("const float KF = 2.5;", "const int KI = 3;"), ("const float KF = 1.5 + 1.0;", "const int KI = $KF + 1;"),
        ];
        let uses = ["X = KF;", "A = KI;", "X = (KF + KF);", "A = (KI + KI);", "X = float(KI);", "A = int(KF);", "X = (KF * 2.0);", "X = (-(KF));", "A = (KI ? KI : 3);", "X = (A ? KF : 1.0);", "mf(KF);", "mS(KI);",
            "A = $KF;", "X = %KI;", "X = (KF + %KI);", "A = (KI + $KF);", "A = (KF < 3.0);", "A = (KI < 3);"];
        for (d1, d2) in defs { for u in uses { for order in 0..3 {
            let body = match order { 0 => format!("{{ {d1} {d2} {u} }}"), 1 => format!("{{ {d2} {d1} {u} }}"), _ => format!("{{ {u} {d2} {d1} }}") };
            ccases.push((body, false, false));
        }}}
        // ill-typed controls
        for (d1, d2) in defs { for u in ["A = KF;", "X = KI;", "A = (KI + KF);", "mS(KF);", "mf(KI);"] { ccases.push((format!("{{ {d2} {d1} {u} }}"), true, true)); } }
        let cres = par_map(&ccases, Some(deadline), |_, (b, ill, _)| check(&mapfile, b, *ill));
        for (i, r) in cres.into_iter().enumerate() {
            let Some(o) = r else { continue; };
            rep.evaluations += 1; rep.traces_validated += 1 + o.type_checks; rep.states += 1; rep.transitions += 1;
            rep.outcome(&format!("consts:{}", o.class));
            if ccases[i].1 { rep.nontrivial += 1; }
            rep.failures.extend(o.failures);
        }
        rep.extra.insert("const_family_cases".into(), json!(ccases.len()));
    }
    // family (b): declared parameter types through the real ECL pipelines
    let pcs = param_cases();
    let pitems: Vec<(usize, &str)> = (0..pcs.len()).flat_map(|i| [(i, "th07"), (i, "th08")]).collect();
    let presults = par_map(&pitems, Some(deadline), |_, &(i, g)| check_params(g, &pcs[i].0, pcs[i].1, &pcs[i].2));
    for (k, r) in presults.into_iter().enumerate() {
        let Some(o) = r else { rep.cap_hit = Some("wall cap (params family)".into()); continue; };
        rep.evaluations += 1; rep.traces_validated += 1; rep.states += 1; rep.transitions += 1;
        rep.outcome(&o.class);
        if pcs[pitems[k].0].1 { rep.nontrivial += 1; }
        if k % 4001 == 0 { rep.sample(json!({"family": "params", "source": pcs[pitems[k].0].0, "model_ill_typed": pcs[pitems[k].0].1})); }
        rep.failures.extend(o.failures);
    }
    rep.extra.insert("params_family_cases".into(), json!(pitems.len()));
    rep.exhaustive = true;
    rep.bound_completed = format!("(b) every ECL parameter list of length 1..=3 over {{int, float}} x {{named, unnamed}} x 6 typed uses of each named parameter + every call of arity n-1..n+1 over 4 argument atoms, TH07 and TH08 ({} cases); (a) deviations<={bound} (the nesting position is a free choice: full product), expression depth<={depth}; 18 statement contexts x 9 nesting positions x 20 expression shapes (incl. difficulty switches with omitted cases) x 13 atoms of all types", pitems.len());
    rep.rule = "E-DFS over an untyped statement/expression grammar whose default alternatives are well-typed; every other alternative (an atom, operator, cast, sigil, arity or variable of another type) is one deviation, so the single-point mutations of every base program are covered; non-trivial = M4 judges the program ill-typed".into();
    rep.assumptions = vec!["M4 reference typer (harness), written from the documented rules".into(), "AstVm::eval for the value-type clause".into()];
    rep.explanation = "Ok/Err of passes::type_check::run compared with M4's verdict at every nesting position; for accepted programs Expr::compute_ty of every subexpression compared with the type of its evaluated value".into();
    rep
}

pub fn replay(detail: &serde_json::Value) -> i32 {
    let table = Table::new(&TableCfg::FULL);
    let ill = detail["model_says_ill_typed"].as_bool().unwrap_or(false);
    if detail["family"] == "params" {
        let o = check_params(detail["game"].as_str().unwrap(), detail["source"].as_str().unwrap(), ill, detail["key"].as_str().unwrap_or(""));
        println!("class: {}", o.class);
        for f in &o.failures { println!("FAIL {}\n{}", f.signature, serde_json::to_string_pretty(&f.detail).unwrap()); }
        return if o.failures.is_empty() { 0 } else { 1 };
    }
    let body = detail["body"].as_str().unwrap();
    let o = check(&table.mapfile_text(REGS), body, ill);
    println!("class: {}", o.class);
    for f in &o.failures { println!("FAIL {}\n{}", f.signature, serde_json::to_string_pretty(&f.detail).unwrap()); }
    if o.failures.is_empty() { 0 } else { 1 }
}
