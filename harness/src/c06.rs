//! C06: desugaring blocks into labels and jumps preserves behaviour (AstVm before vs after
//! `passes::desugar_blocks::run`), over exhaustively enumerated nestings (G-block).

use std::collections::BTreeSet;
use serde_json::json;

use crate::common::*;
use crate::tl::{self, *};

pub struct GB<'a, 'c> {
    pub ch: &'a mut Chooser<'c>,
    pub marker: u32,
    pub n_struct: u32,
    pub has_inner_label_or_nest: bool,
    pub max_depth: u32,
    pub count_jmp: bool,
    /// also generate user `goto`s: out of the current structure to `END:` (appended by the caller) and `&&` conditions
    pub gotos: bool,
}

impl<'a, 'c> GB<'a, 'c> {
    fn marker(&mut self) -> String { self.marker += 1; format!("mS({});", self.marker) }

    fn timelabel(&mut self) -> String {
        ["+1:", "+2:", "+0:"][self.ch.pick(3)].to_string()
    }

    /// returns (cond text, statements to prepend to the loop body)
    fn loop_cond(&mut self) -> (String, String) {
        let mut alts = vec![("A < 2", "A += 1;"), ("0", ""), ("B", "B -= 1;"), ("A < B", "A += 1;"), ("1", "if (A >= 2) { break; } A += 1;")];
        if self.count_jmp { alts.push(("--C", "")); alts.push(("--C > 0", "")); }
        let (c, p) = alts[self.ch.pick(alts.len())];
        (c.to_string(), p.to_string())
    }
    fn if_cond(&mut self) -> String {
        if self.gotos { return ["A == 0", "B", "A < B", "0", "1", "X > 1.0", "(A == 0) || (B == 2)", "!(A < B)", "(A == 0) && (B == 2)", "(A < 2) && B"][self.ch.pick(10)].to_string(); }
        ["A == 0", "B", "A < B", "0", "1", "X > 1.0", "(A == 0) || (B == 2)", "!(A < B)"][self.ch.pick(8)].to_string()
    }

    pub fn block(&mut self, depth: u32, in_loop: bool) -> String {
        // number of items: default 1
        let n = 1 + self.ch.pick(3);
        let mut out = vec![];
        // optional time label at block start
        if self.ch.pick(2) == 1 { out.push(self.timelabel()); self.has_inner_label_or_nest |= depth < self.max_depth; }
        for _ in 0..n { out.push(self.item(depth, in_loop)); }
        if self.ch.pick(2) == 1 { out.push(self.timelabel()); self.has_inner_label_or_nest |= depth < self.max_depth; }
        out.join(" ")
    }

    fn item(&mut self, depth: u32, in_loop: bool) -> String {
        let mut kinds = vec!["marker"];
        if depth > 0 { kinds.extend(["if", "ifelse", "while", "dowhile", "times", "timesclobber", "loop", "free", "ifelseif"]); }
        if in_loop { kinds.push("break"); kinds.push("condbreak"); }
        kinds.push("timelabel-marker");
        if self.gotos { kinds.push("goto-end"); kinds.push("condgoto-end"); }
        let k = kinds[self.ch.pick(kinds.len())];
        if k != "marker" && k != "timelabel-marker" && k != "break" && k != "condbreak" && k != "goto-end" && k != "condgoto-end" {
            self.n_struct += 1;
            if depth < self.max_depth { self.has_inner_label_or_nest = true; }
        }
        let d = depth.saturating_sub(1);
        match k {
            "marker" => self.marker(),
            "timelabel-marker" => { let t = self.timelabel(); format!("{t} {}", self.marker()) },
            "break" => "break;".to_string(),
            "goto-end" => "goto END;".to_string(),
            "condgoto-end" => { let c = self.if_cond(); format!("if ({c}) goto END;") },
            "condbreak" => { let c = self.if_cond(); format!("if ({c}) {{ break; }}") },
            "if" => { let c = self.if_cond(); let b = self.block(d, in_loop); format!("if ({c}) {{ {b} }}") },
            "ifelse" => { let c = self.if_cond(); let b = self.block(d, in_loop); let e = self.block(d, in_loop); format!("if ({c}) {{ {b} }} else {{ {e} }}") },
            "ifelseif" => {
                let c = self.if_cond(); let b = self.block(d, in_loop);
                let c2 = self.if_cond(); let b2 = self.block(d, in_loop);
                let has_else = self.ch.pick(2) == 1;
                let e = if has_else { let e = self.block(d, in_loop); format!(" else {{ {e} }}") } else { String::new() };
                let kw = if self.ch.pick(2) == 1 { "unless" } else { "if" };
                format!("if ({c}) {{ {b} }} else {kw} ({c2}) {{ {b2} }}{e}")
            },
            "while" => { let (c, pre) = self.loop_cond(); let b = self.block(d, true); format!("while ({c}) {{ {pre} {b} }}") },
            "dowhile" => { let (c, pre) = self.loop_cond(); let b = self.block(d, true); format!("do {{ {pre} {b} }} while ({c});") },
            "times" => { let n = ["2", "0", "1", "B", "3"][self.ch.pick(5)]; let b = self.block(d, true); format!("times({n}) {{ {b} }}") },
            "timesclobber" => { let n = ["2", "0", "1", "B"][self.ch.pick(4)]; let b = self.block(d, true); let clob = ["D", "Q", "P", "COUNT"][(depth as usize).min(3)]; format!("times({clob} = {n}) {{ {b} }}") },
            "loop" => { let b = self.block(d, true); format!("loop {{ if (A >= 2) {{ break; }} A += 1; {b} }}") },
            "free" => { let b = self.block(d, in_loop); format!("{{ {b} }}") },
            _ => unreachable!(),
        }
    }
}

pub struct Case { pub body: String, pub nontrivial: bool, pub choices: Vec<u32> }

pub fn valuations6() -> Vec<Valuation> {
    // non-negative counters (negative `times` counts are an AstVm artefact, DESIGN §3.6)
    let base = tl::valuations();
    let sets: [(i32, i32, i32, i32, f32); 5] = [(0, 0, 1, 0, 0.0), (0, 2, 2, 0, 1.5), (1, 1, 3, 5, 2.0), (5, 3, 1, 1, 0.5), (0, 1, 2, 2, 1.0)];
    sets.iter().map(|&(a, b, c, d, x)| {
        let mut v = base[5].clone();
        v.insert(R_A, Val::I(a)); v.insert(R_B, Val::I(b)); v.insert(R_C, Val::I(c)); v.insert(R_D, Val::I(d)); v.insert(R_X, Val::F(x));
        v
    }).collect()
}

pub fn check_body(mapfile: &str, body: &str, vals: &[Valuation]) -> (String, Vec<Failure>, u64, Vec<String>) {
    let mut failures = vec![];
    let mut discards = vec![];
    let mut execs = 0;
    let detail = |extra: serde_json::Value| json!({"family": "g-block", "body": body, "info": extra});
    let r = catch(|| with_truth(mapfile, |truth| {
        let block = match front_end(truth, body, true) { Ok(b) => b, Err((stage, d)) => return Err(format!("rejected:{stage}:{}", d.lines().next().unwrap_or(""))) };
        let des = match desugar(truth, &block) { Ok(b) => b, Err(d) => return Err(format!("rejected:desugar:{}", d.lines().next().unwrap_or(""))) };
        // A negative `times` count is undefined at source level (AstVm runs `times(n)` zero times but `times(r = n)` and the
        // lowered form 2^32+n times): find the valuations that reach one by running an instrumented copy of the source.
        let mut negative = vec![false; vals.len()];
        if body.contains("B -= 1;") && (body.contains("times(B)") || body.contains(" = B)")) {
            let mut inst = body.replace("times(B)", "if (B < 0) { mS(-777); } times(B)");
            for clob in ["D", "Q", "P", "COUNT"] { inst = inst.replace(&format!("times({clob} = B)"), &format!("if (B < 0) {{ mS(-777); }} times({clob} = B)")); }
            if let Ok(iblock) = front_end(truth, &inst, true) {
                for (vi, val) in vals.iter().enumerate() {
                    let t = run_astvm(truth, &iblock.0, val, 0);
                    negative[vi] = t.log.iter().any(|c| c.args.first().map(|a| a.as_int() == -777).unwrap_or(false));
                }
            }
        }
        let mut runs = vec![];
        for (vi, val) in vals.iter().enumerate() {
            if negative[vi] { runs.push((vi, None)); continue; }
            let (a, b) = run_astvm_pair(truth, &block.0, &des.0, val, 0);
            runs.push((vi, Some((a, b))));
        }
        Ok((runs, truth::fmt::stringify(&des)))
    }));
    let (runs, des_text) = match r {
        Err(p) => { failures.push(Failure { signature: format!("C06:{}", p.signature()), detail: detail(json!({"panic": p.text})) }); return ("panic".into(), failures, 0, discards); },
        Ok(Err(e)) => { let class = e.split(':').take(2).collect::<Vec<_>>().join(":"); return (class, failures, 0, discards); },
        Ok(Ok(x)) => x,
    };
    let cmp_regs: Vec<i32> = REGS.iter().map(|r| r.id).collect();
    for (vi, ab) in runs {
        let Some((a, b)) = ab else { discards.push("source-undefined:negative-times-count".into()); continue; };
        execs += 2;
        for t in [&a, &b] { if let Some(s) = &t.stopped { if s.starts_with("vm-panic") && !s.contains("iteration") {
            // a VM panic on the *source* is undefined source behaviour; on the desugared side only it is a finding
        } } }
        let a_undefined = a.stopped.as_deref().map(|s| s.starts_with("vm-panic")).unwrap_or(false);
        let b_undefined = b.stopped.as_deref().map(|s| s.starts_with("vm-panic")).unwrap_or(false);
        if a_undefined { discards.push(format!("source-undefined:{}", a.stopped.clone().unwrap())); continue; }
        if b_undefined {
            failures.push(Failure { signature: format!("C06:desugared-undefined:{body}"), detail: detail(json!({"valuation": vi, "stopped": b.stopped, "desugared": des_text})) });
            break;
        }
        if a.stopped.is_some() || b.stopped.is_some() { discards.push("iteration-cap(prefix compared)".into()); }
        if let Some(diff) = compare_traces_term(&a, &b, &cmp_regs, true) {
            failures.push(Failure { signature: format!("C06:behaviour:{body}"), detail: detail(json!({"valuation": vi, "diff": diff, "desugared": des_text})) });
            break;
        }
    }
    ("ok".into(), failures, execs, discards)
}

pub fn run(tier: &str) -> Report {
    let mut rep = Report::new("C06", tier, "model_checking");
    let thorough = tier == "thorough";
    let (bound, depth) = if thorough { (5, 3) } else { (4, 2) };
    let vals = valuations6();
    let deadline = rep.deadline();
    let mut flavours_done = 0;
    for count_gt in [false, true] {
        let cfg = TableCfg { count_gt, ..TableCfg::FULL };
        let table = Table::new(&cfg);
        let mapfile = table.mapfile_text(REGS);
        let mut cases: Vec<Case> = vec![];
        let mut seen = BTreeSet::new();
        let stats = explore_dfs(bound, if thorough { 4_000_000 } else { 300_000 }, &|ch| {
            let mut g = GB { ch, marker: 0, n_struct: 0, has_inner_label_or_nest: false, max_depth: depth, count_jmp: true, gotos: true };
            let b = g.block(depth, false);
            // `END:` is the target of the user gotos that leave every enclosing structure at once; a marker after it shows
            // at which time the script arrives there
            (if b.contains("goto END") { format!("{{ {b} END: mS(9000); }}") } else { format!("{{ {b} }}") }, g.n_struct >= 1 && g.has_inner_label_or_nest)
        }, &mut |choices, (body, nt)| {
            if seen.insert(body.clone()) { cases.push(Case { body, nontrivial: nt, choices: choices.to_vec() }); }
        });
        if stats.capped { rep.cap_hit = Some(format!("generator cap {} (flavour count_gt={count_gt})", stats.runs)); }
        rep.transitions += stats.runs;
        rep.states += cases.len() as u64;
        let results = par_map(&cases, Some(deadline), |_, c| check_body(&mapfile, &c.body, &vals));
        let mut incomplete = false;
        for (i, r) in results.into_iter().enumerate() {
            let Some((outcome, failures, execs, discards)) = r else { incomplete = true; continue; };
            rep.evaluations += execs.max(1);
            rep.traces_validated += execs / 2;
            rep.outcome(&outcome);
            for d in discards { rep.discard(&d); }
            if cases[i].nontrivial && outcome == "ok" { rep.nontrivial += 1; }
            rep.failures.extend(failures);
            if outcome == "ok" && cases[i].nontrivial && rep.samples.len() < 4 && i % 97 == 0 { rep.sample(json!({"body": cases[i].body, "count_gt": count_gt})); }
        }
        if let Some(c) = cases.last() { rep.sample(json!({"body": c.body, "count_gt": count_gt})); }
        if incomplete { rep.cap_hit = Some(format!("wall cap in flavour count_gt={count_gt}")); break; }
        flavours_done += 1;
    }
    rep.exhaustive = true;
    rep.bound_completed = format!("deviations<={bound}, nesting depth<={depth}, {flavours_done}/2 counting-jump flavours, {} valuations", vals.len());
    rep.rule = "E-DFS over G-block choice sequences (if/else-if/else, while, do-while, times, times with clobber, loop, break, free blocks, user gotos out of any nesting to an end label, && / || / ! conditions; relative time labels at block start/end/between); distinct = distinct body text; non-trivial = >= 1 structured statement with a time label or nested block inside".into();
    rep.assumptions = vec!["truth::vm::AstVm is the reference interpreter on both sides".into(), "time labels are non-decreasing (DESIGN §3.6)".into(), "loop counts are non-negative".into()];
    rep.explanation = "AstVm(source block) vs AstVm(desugar_blocks(source)): instr log with real_time, final time/real_time, all registers; runs hitting the iteration cap are compared on the common log prefix".into();
    rep
}

pub fn replay(detail: &serde_json::Value) -> i32 {
    let body = detail["body"].as_str().unwrap();
    let mut bad = 0;
    for count_gt in [false, true] {
        let table = Table::new(&TableCfg { count_gt, ..TableCfg::FULL });
        let (outcome, failures, _, _) = check_body(&table.mapfile_text(REGS), body, &valuations6());
        println!("count_gt={count_gt} outcome: {outcome}");
        for f in &failures { println!("FAIL {}\n{}", f.signature, serde_json::to_string_pretty(&f.detail).unwrap()); bad = 1; }
    }
    bad
}
