//! C15 — text in string arguments and metadata survives compile and decompile unchanged.
//!
//! Bounded exhaustive enumeration, no randomness:
//!   characters  = every single-byte and two-byte Shift-JIS code that decodes to one character and
//!                 re-encodes to the same bytes (encoding_rs is the trusted table), NUL excluded;
//!   strings     = 'a'^p . c for a few p around block/buffer boundaries, c . 'a', c^L for L in 0..=300,
//!                 sequences of <= 3 strings with/without the '|' furigana marker;
//!   targets     = user signatures (z/m/p, bs=/len=/nulless/mask/furibug) carried by MSG and ANM scripts,
//!                 the built-in text instructions of every MSG game (TH06..TH18.5) and of TH10+ ending scripts,
//!                 STD 128-byte names, ANM entry paths (path, path_2), mission.msg 64-byte lines;
//!   plus all ordered pairs of ~290 "special" characters (quote, backslash, pipe, extreme trail bytes,
//!   bytes equal to mask bytes) and, in the thorough tier, every unencodable BMP scalar value.
//! Oracle: decompiled literal == source literal (own scanner); bytes in the compiled file == bytes predicted
//! by the M7 string model written here (MSG carriers and mission files); strings that cannot be encoded or
//! do not fit must give an error diagnostic (never success, never a panic).

#![allow(dead_code)]

use std::collections::{BTreeMap, BTreeSet, HashSet};

use encoding_rs::SHIFT_JIS;
use serde_json::{json, Value};
use truth::Game;

use crate::common::{par_map, Report};
use crate::drive::{self, CompileOpts, DecompOpts, Kind, Tool};

// =============================================================================================
// Shift-JIS helpers (encoding_rs = trusted library)

fn sjis_encode(s: &str) -> Option<Vec<u8>> {
    let (b, _, err) = SHIFT_JIS.encode(s);
    if err { None } else { Some(b.into_owned()) }
}

fn sjis_decode(b: &[u8]) -> Option<String> {
    SHIFT_JIS.decode_without_bom_handling_and_without_replacement(b).map(|c| c.into_owned())
}

#[derive(Clone, Debug)]
struct Ch { c: char, bytes: Vec<u8>, class: &'static str }

/// Every non-NUL character that Shift-JIS represents unambiguously (code -> char -> same code).
fn charset() -> Vec<Ch> {
    let mut out = vec![];
    for b in 1u16..=0xFF {
        let b = b as u8;
        if let Some(s) = sjis_decode(&[b]) {
            let mut it = s.chars();
            if let (Some(c), None) = (it.next(), it.next()) {
                if sjis_encode(&s).as_deref() == Some(&[b][..]) {
                    let class = match b {
                        0x20..=0x7E => "ascii-printable",
                        0x01..=0x1F | 0x7F => "ascii-control",
                        0x80 => "single-0x80",
                        _ => "halfwidth-kana",
                    };
                    out.push(Ch { c, bytes: vec![b], class });
                }
            }
        }
    }
    for lead in (0x81u8..=0x9F).chain(0xE0..=0xFC) {
        for trail in (0x40u8..=0x7E).chain(0x80..=0xFC) {
            let code = [lead, trail];
            if let Some(s) = sjis_decode(&code) {
                let mut it = s.chars();
                if let (Some(c), None) = (it.next(), it.next()) {
                    if sjis_encode(&s).as_deref() == Some(&code[..]) {
                        let class = match lead {
                            0x81..=0x84 => "jis-symbols-kana-greek-cyrillic",
                            0x87 => "nec-row13",
                            0x88..=0x9F | 0xE0..=0xEA => "jis-kanji",
                            0xED..=0xEE => "nec-selected-ibm",
                            0xFA..=0xFC => "ibm-extension",
                            _ => "other-two-byte",
                        };
                        out.push(Ch { c, bytes: code.to_vec(), class });
                    }
                }
            }
        }
    }
    out
}

// =============================================================================================
// Source text helpers: literal writer and an independent scanner for the decompiled text

fn lit(s: &str) -> String {
    let mut o = String::with_capacity(s.len() + 2);
    o.push('"');
    for c in s.chars() {
        match c {
            '"' => o.push_str("\\\""),
            '\\' => o.push_str("\\\\"),
            '\n' => o.push_str("\\n"),
            '\r' => o.push_str("\\r"),
            c => o.push(c),
        }
    }
    o.push('"');
    o
}

#[derive(Debug, Clone)]
struct Lit { key: Option<String>, paren_depth: usize, value: String }

/// Scan script text; return every string literal with the most recent `ident:` key and the paren depth.
fn scan(text: &str) -> Result<Vec<Lit>, String> {
    let cs: Vec<char> = text.chars().collect();
    let mut i = 0;
    let mut out = vec![];
    let mut depth = 0usize;
    let mut key: Option<String> = None;
    let mut last_ident: Option<String> = None;
    while i < cs.len() {
        let c = cs[i];
        if c == '"' {
            i += 1;
            let mut v = String::new();
            loop {
                if i >= cs.len() { return Err("unterminated string literal".into()); }
                let c = cs[i];
                if c == '"' { i += 1; break; }
                if c == '\\' {
                    i += 1;
                    if i >= cs.len() { return Err("dangling backslash".into()); }
                    match cs[i] {
                        '0' => v.push('\0'), '"' => v.push('"'), '\\' => v.push('\\'), 'n' => v.push('\n'), 'r' => v.push('\r'),
                        o => return Err(format!("unknown escape \\{} (U+{:04X})", o, o as u32)),
                    }
                    i += 1;
                } else { v.push(c); i += 1; }
            }
            out.push(Lit { key: key.clone(), paren_depth: depth, value: v });
            last_ident = None;
        } else if c == '/' && i + 1 < cs.len() && cs[i + 1] == '/' {
            while i < cs.len() && cs[i] != '\n' { i += 1; }
        } else if c == '/' && i + 1 < cs.len() && cs[i + 1] == '*' {
            i += 2;
            while i + 1 < cs.len() && !(cs[i] == '*' && cs[i + 1] == '/') { i += 1; }
            i += 2;
        } else if c.is_ascii_alphanumeric() || c == '_' {
            let st = i;
            while i < cs.len() && (cs[i].is_ascii_alphanumeric() || cs[i] == '_') { i += 1; }
            last_ident = Some(cs[st..i].iter().collect());
        } else {
            match c {
                '(' => depth += 1,
                ')' => depth = depth.saturating_sub(1),
                ':' => { if let Some(id) = last_ident.take() { key = Some(id); } },
                '}' | ']' => key = None,
                _ => {},
            }
            if !c.is_whitespace() { last_ident = None; }
            i += 1;
        }
    }
    Ok(out)
}

// =============================================================================================
// M7-strings: independent byte model

#[derive(Clone, Copy, Debug, PartialEq)]
enum Size { Block(usize), Pascal(usize), Fixed { len: usize, nulless: bool } }

#[derive(Clone, Debug)]
struct OpSpec {
    opcode: u32,
    /// source text before / after the string argument, and the bytes they encode to
    pre_src: &'static str, pre_bytes: Vec<u8>,
    post_src: &'static str, post_bytes: Vec<u8>,
    size: Size,
    mask: (u8, u8, u8),
    furibug: bool,
}

#[derive(Clone, Copy, Debug, PartialEq, Eq)]
enum Reject { Unencodable, FixedBuffer, MsgBlob255, Std128, Mission64 }

impl Reject {
    fn name(self) -> &'static str {
        match self {
            Reject::Unencodable => "unencodable", Reject::FixedBuffer => "fixed-buffer", Reject::MsgBlob255 => "msg-blob-over-255",
            Reject::Std128 => "std-128-byte-field", Reject::Mission64 => "mission-64-byte-line",
        }
    }
    fn keywords(self) -> &'static [&'static str] {
        match self {
            Reject::Unencodable => &["cannot be encoded"],
            Reject::FixedBuffer => &["too large for buffer"],
            Reject::MsgBlob255 => &["too large", "too long", "too big", "cannot be stored"],
            Reject::Std128 | Reject::Mission64 => &["too long"],
        }
    }
}

/// The accelerating byte mask: value, then value += velocity, velocity += acceleration (all mod 256).
fn mask_bytes((mut m, mut v, a): (u8, u8, u8), n: usize) -> Vec<u8> {
    let mut out = Vec::with_capacity(n);
    for _ in 0..n {
        out.push(m);
        m = ((m as u32 + v as u32) % 256) as u8;
        v = ((v as u32 + a as u32) % 256) as u8;
    }
    out
}

/// VERIF_C15_SELFTEST_CORRUPT: 1 = corrupt one expected literal, 2 = corrupt one predicted byte (detection self-tests)
fn selftest_mode() -> u8 {
    static MODE: std::sync::OnceLock<u8> = std::sync::OnceLock::new();
    *MODE.get_or_init(|| std::env::var("VERIF_C15_SELFTEST_CORRUPT").ok().and_then(|v| v.parse().ok()).unwrap_or(0))
}

fn round_up(n: usize, bs: usize) -> usize { if bs == 0 { n } else { (n + bs - 1) / bs * bs } }

struct ModelOut { blob: Vec<u8>, masked_to_nul: bool }

/// Bytes of one instruction's argument blob for string `s`.  `furi` = bytes carried over by the furigana quirk.
fn model_blob(op: &OpSpec, s: &str, furi: &mut Option<Vec<u8>>, msg_limit: bool) -> Result<ModelOut, Reject> {
    let mut e = sjis_encode(s).ok_or(Reject::Unencodable)?;
    let text_len = e.len();
    match op.size {
        Size::Block(_) | Size::Pascal(_) | Size::Fixed { nulless: false, .. } => e.push(0),
        Size::Fixed { nulless: true, .. } => {},
    }
    if op.furibug { if let Some(f) = furi.take() { e.extend(f); } }
    match op.size {
        Size::Block(bs) | Size::Pascal(bs) => { let n = round_up(e.len(), bs); e.resize(n, 0); },
        Size::Fixed { len, .. } => { if e.len() > len { return Err(Reject::FixedBuffer); } e.resize(len, 0); },
    }
    let m = mask_bytes(op.mask, e.len());
    for (b, k) in e.iter_mut().zip(&m) { *b ^= *k; }
    let masked_to_nul = e[..text_len].iter().any(|&b| b == 0);
    if selftest_mode() == 2 && op.opcode == 101 && s == "aaa" { e[0] ^= 0x01; }
    if op.furibug && s.starts_with('|') { *furi = Some(e.clone()); }
    let mut blob = op.pre_bytes.clone();
    if let Size::Pascal(_) = op.size { blob.extend((e.len() as u32).to_le_bytes()); }
    blob.extend(e);
    blob.extend(&op.post_bytes);
    if msg_limit && blob.len() > 255 { return Err(Reject::MsgBlob255); }
    Ok(ModelOut { blob, masked_to_nul })
}

/// mission.msg line: 64-byte buffer (NUL inside), each byte minus an accelerating key (mod 256)
fn model_mission_line(s: &str, stage: u32, scene: u32, player: u32, line: usize) -> Result<Vec<u8>, Reject> {
    let mut e = sjis_encode(s).ok_or(Reject::Unencodable)?;
    if e.len() >= 64 { return Err(Reject::Mission64); }
    e.resize(64, 0);
    let m0 = ((7 * stage + 11 * scene + 13 * player + 58) % 256) as u8;
    let v0 = ((23 * (line as u32 + 1)) % 256) as u8;
    let key = mask_bytes((m0, v0, 1), 64);
    for (b, k) in e.iter_mut().zip(&key) { *b = ((*b as i32 - *k as i32).rem_euclid(256)) as u8; }
    Ok(e)
}

// =============================================================================================
// Targets

#[derive(Clone, Copy, Debug, PartialEq, Eq)]
enum Carrier { Msg, AnmIns, Std06, Std10, AnmPath { path_2: bool }, Mission }

#[derive(Clone, Debug)]
struct Target {
    name: String,
    carrier: Carrier,
    game: Game,
    ops: Vec<OpSpec>,
    mapfile: Option<String>,
    per_case_script: bool,
    /// prefix lengths for the `a^p . c` sweep
    ps: Vec<usize>,
    batch: usize,
    /// ordered-pair family in the quick tier? (thorough: every target)
    pairs_quick: bool,
    family: &'static str,
    /// ending script (.end) instead of stage MSG: same container, different built-in signatures
    end: bool,
}

impl Target {
    fn tool(&self) -> Tool {
        let kind = match self.carrier {
            Carrier::Msg => if self.end { Kind::End } else { Kind::Msg }, Carrier::AnmIns | Carrier::AnmPath { .. } => Kind::Anm,
            Carrier::Std06 | Carrier::Std10 => Kind::Std, Carrier::Mission => Kind::Mission,
        };
        Tool::new(kind, self.game)
    }
    fn is_ins(&self) -> bool { matches!(self.carrier, Carrier::Msg | Carrier::AnmIns) }
    fn furibug(&self) -> bool { self.ops.iter().any(|o| o.furibug) }
    /// strings per file "record" for metadata carriers
    fn slots(&self) -> usize {
        match self.carrier {
            Carrier::Std06 => 9, Carrier::Std10 => 1,
            Carrier::AnmPath { path_2 } => if path_2 { 2 } else { 1 },
            Carrier::Mission => if self.game == Game::Th095 { 3 } else { 6 },
            _ => 1,
        }
    }
    /// block / buffer geometry used by the non-triviality rule: (block size, capacity in bytes)
    fn geometry(&self) -> (Option<usize>, Option<usize>) {
        match self.carrier {
            Carrier::Msg | Carrier::AnmIns => match self.ops[0].size {
                Size::Block(bs) | Size::Pascal(bs) => (Some(bs), None),
                Size::Fixed { len, nulless } => (None, Some(if nulless { len } else { len - 1 })),
            },
            Carrier::Std06 | Carrier::Std10 => (None, Some(127)),
            Carrier::AnmPath { .. } => (Some(16), None),
            Carrier::Mission => (None, Some(63)),
        }
    }
}

fn sig_text(op: &OpSpec, letter_prefix: &str, letter_suffix: &str) -> String {
    let (m, v, a) = op.mask;
    let masked = op.mask != (0, 0, 0);
    let mut attrs = vec![];
    let letter = match op.size {
        Size::Block(bs) => { attrs.push(format!("bs={bs}")); if masked { 'm' } else { 'z' } },
        Size::Pascal(bs) => { attrs.push(format!("bs={bs}")); 'p' },
        Size::Fixed { len, nulless } => { attrs.push(format!("len={len}")); if nulless { attrs.push("nulless".into()); } if masked { 'm' } else { 'z' } },
    };
    if masked { attrs.push(format!("mask={:#x},{},{}", m, v, a)); }
    if op.furibug { attrs.push("furibug".into()); }
    format!("{}{}({}){}", letter_prefix, letter, attrs.join(";"), letter_suffix)
}

fn plain(opcode: u32, size: Size, mask: (u8, u8, u8), furibug: bool) -> OpSpec {
    OpSpec { opcode, pre_src: "", pre_bytes: vec![], post_src: "", post_bytes: vec![], size, mask, furibug }
}
fn with_ss(mut op: OpSpec) -> OpSpec { op.pre_src = "0, 0, "; op.pre_bytes = vec![0; 4]; op }

fn ps_for(size: Size) -> Vec<usize> {
    match size {
        Size::Block(bs) | Size::Pascal(bs) => match bs { 1 => vec![0, 1], 4 => vec![0, 1, 2, 3], _ => vec![0, 1, bs - 3, bs - 2, bs - 1] },
        Size::Fixed { len, nulless } => { let cap = if nulless { len } else { len - 1 }; let mut v = vec![0, 1, 2, 3, cap - 2, cap - 1]; v.sort(); v.dedup(); v },
    }
}

const MSG_GAMES: &[Game] = &[Game::Th06, Game::Th07, Game::Th08, Game::Th09, Game::Th10, Game::Alcostg, Game::Th11, Game::Th12,
    Game::Th128, Game::Th13, Game::Th14, Game::Th143, Game::Th15, Game::Th16, Game::Th165, Game::Th17, Game::Th18, Game::Th185];

/// The built-in text instructions of each MSG game, as documented in the core mapfile
/// (restated here by hand: opcode, has two leading shorts, mask, furigana quirk).
fn core_text_ops(game: Game) -> Vec<OpSpec> {
    let acc = (0x77, 7, 16);
    match game {
        Game::Th06 | Game::Th07 => vec![with_ss(plain(3, Size::Block(4), (0, 0, 0), false)), with_ss(plain(8, Size::Block(4), (0, 0, 0), false))],
        Game::Th08 => {
            let k = (0x77, 0, 0);
            vec![with_ss(plain(3, Size::Block(4), k, false)), with_ss(plain(8, Size::Block(4), k, false)),
                 plain(16, Size::Block(4), k, false), plain(19, Size::Block(4), k, false), plain(20, Size::Block(4), k, false)]
        },
        Game::Th09 => vec![with_ss(plain(3, Size::Block(4), acc, false)), plain(16, Size::Block(4), acc, false)],
        Game::Th10 | Game::Alcostg => (14..=16).map(|o| plain(o, Size::Block(4), acc, false)).collect(),
        Game::Th11 => (15..=17).map(|o| plain(o, Size::Block(4), acc, false)).collect(),
        _ => (15..=17).map(|o| plain(o, Size::Block(4), acc, true)).collect(),
    }
}

fn targets() -> Vec<Target> {
    let mut ts = vec![];
    let acc = (0x77u8, 7u8, 16u8);
    // ---- user signatures carried by MSG scripts
    let user: Vec<(OpSpec, &str, &str)> = vec![
        (plain(100, Size::Block(4), (0, 0, 0), false), "", ""),
        (plain(101, Size::Block(4), acc, false), "", ""),
        (plain(102, Size::Fixed { len: 16, nulless: false }, acc, false), "", ""),
        (plain(103, Size::Fixed { len: 16, nulless: true }, acc, false), "", ""),
        (plain(104, Size::Pascal(4), (0, 0, 0), false), "", ""),
        (plain(105, Size::Pascal(4), acc, false), "", ""),
        (plain(106, Size::Block(4), acc, true), "", ""),
        (plain(107, Size::Fixed { len: 34, nulless: false }, (0, 0, 0), false), "", ""),
        (plain(108, Size::Fixed { len: 48, nulless: false }, (0xaa, 0, 0), false), "", ""),
        (plain(109, Size::Fixed { len: 64, nulless: true }, (0xdd, 0, 0), false), "", ""),
        (plain(110, Size::Block(1), acc, false), "", ""),
        (plain(111, Size::Block(16), (0, 0, 0), false), "", ""),
        (plain(112, Size::Block(4), (0x77, 0, 0), false), "", ""),
        (OpSpec { pre_src: "1, ", pre_bytes: vec![1, 0, 0, 0], post_src: ", 2", post_bytes: vec![2, 0, 0, 0], ..plain(113, Size::Fixed { len: 8, nulless: false }, acc, false) }, "S", "S"),
        (OpSpec { pre_src: "1, ", pre_bytes: vec![1, 0, 0, 0], post_src: ", 2", post_bytes: vec![2, 0, 0, 0], ..plain(114, Size::Pascal(4), acc, false) }, "S", "S"),
        (plain(115, Size::Fixed { len: 5, nulless: true }, (0x83, 0xd9, 0), false), "", ""),
        (plain(116, Size::Pascal(4), acc, true), "", ""),
        // the rest of the {zero, non-zero}^3 grid of (initial mask, velocity, acceleration)
        (plain(117, Size::Block(4), (0, 7, 16), false), "", ""),
        (plain(118, Size::Block(4), (0, 7, 0), false), "", ""),
        (plain(119, Size::Block(4), (0, 0, 16), false), "", ""),
        (plain(120, Size::Block(4), (0x77, 7, 0), false), "", ""),
        (plain(121, Size::Block(4), (0x77, 0, 16), false), "", ""),
        (plain(122, Size::Fixed { len: 16, nulless: true }, (0, 1, 0), false), "", ""),
        (plain(123, Size::Pascal(4), (0, 0, 1), false), "", ""),
    ];
    let mut msgmap = String::from("!msgmap\n!ins_signatures\n");
    let mut anmmap = String::from("!anmmap\n!ins_signatures\n");
    for (op, pre, post) in &user {
        msgmap += &format!("{} {}\n", op.opcode, sig_text(op, pre, post));
        anmmap += &format!("{} {}\n", op.opcode + 900, sig_text(op, pre, post));
    }
    for (op, pre, post) in &user {
        let sig = sig_text(op, pre, post);
        ts.push(Target {
            name: format!("msg-user/th10:{}", sig), carrier: Carrier::Msg, game: Game::Th10, ops: vec![op.clone()],
            mapfile: Some(msgmap.clone()), per_case_script: op.furibug, ps: ps_for(op.size), batch: 256, pairs_quick: true, family: "user-signature/MSG", end: false,
        });
    }
    // the same user signatures in the oldest MSG layout (no flags in the table): a representative pair
    for idx in [0usize, 1] {
        let (op, pre, post) = &user[idx];
        ts.push(Target {
            name: format!("msg-user/th06:{}", sig_text(op, pre, post)), carrier: Carrier::Msg, game: Game::Th06, ops: vec![op.clone()],
            mapfile: Some(msgmap.clone()), per_case_script: false, ps: ps_for(op.size), batch: 256, pairs_quick: false, family: "user-signature/MSG", end: false,
        });
    }
    // ---- user signatures carried by ANM scripts (16-bit instruction size: long strings fit)
    for idx in [0usize, 1, 4, 5, 9] {
        let (op, pre, post) = &user[idx];
        let mut op = op.clone(); op.opcode += 900;
        ts.push(Target {
            name: format!("anm-user/th12:{}", sig_text(&op, pre, post)), carrier: Carrier::AnmIns, game: Game::Th12, ops: vec![op.clone()],
            mapfile: Some(anmmap.clone()), per_case_script: false, ps: ps_for(op.size), batch: 256, pairs_quick: false, family: "user-signature/ANM", end: false,
        });
    }
    // ---- built-in MSG text instructions
    for &game in MSG_GAMES {
        let ops = core_text_ops(game);
        let quick_game = matches!(game, Game::Th06 | Game::Th08 | Game::Th09 | Game::Th12 | Game::Th17 | Game::Th18);
        for (k, op) in ops.iter().enumerate() {
            ts.push(Target {
                name: format!("msg-core/{}:ins_{}", game.as_str(), op.opcode), carrier: Carrier::Msg, game, ops: vec![op.clone()],
                mapfile: None, per_case_script: op.furibug, ps: vec![0, 1, 2, 3], batch: 256,
                pairs_quick: quick_game && k == 0, family: "builtin-signature/MSG", end: false,
            });
        }
        if ops.len() > 1 && ops.iter().all(|o| o.pre_bytes.is_empty()) {
            // consecutive text lines using the game's different text opcodes in rotation
            ts.push(Target {
                name: format!("msg-core/{}:ins_{}-rotation", game.as_str(), ops.iter().map(|o| o.opcode.to_string()).collect::<Vec<_>>().join("/")),
                carrier: Carrier::Msg, game, ops: ops.clone(), mapfile: None, per_case_script: true, ps: vec![], batch: 128,
                pairs_quick: false, family: "builtin-signature/MSG-sequences", end: false,
            });
        }
    }
    // ---- built-in text instructions of ending scripts (TH10+): opcode 3 masked, 7 = dword + string, 10 / 12 plain
    for game in [Game::Th10, Game::Th12, Game::Th18] {
        let ops = vec![
            plain(3, Size::Block(4), acc, false),
            OpSpec { pre_src: "1, ", pre_bytes: vec![1, 0, 0, 0], ..plain(7, Size::Block(4), (0, 0, 0), false) },
            plain(10, Size::Block(4), (0, 0, 0), false),
            plain(12, Size::Block(4), (0, 0, 0), false),
        ];
        for (k, op) in ops.iter().enumerate() {
            ts.push(Target {
                name: format!("end-core/{}:ins_{}", game.as_str(), op.opcode), carrier: Carrier::Msg, game, ops: vec![op.clone()],
                mapfile: None, per_case_script: false, ps: vec![0, 1, 2, 3], batch: 256, pairs_quick: game == Game::Th12 && k == 0,
                family: "builtin-signature/END", end: true,
            });
        }
    }
    // ---- metadata
    let meta = |name: &str, carrier: Carrier, game: Game, ps: Vec<usize>, batch: usize| Target {
        name: name.to_string(), carrier, game, ops: vec![], mapfile: None, per_case_script: false, ps, batch, pairs_quick: true, family: "metadata", end: false,
    };
    ts.push(meta("std/th06:stage_name+bgm", Carrier::Std06, Game::Th06, vec![0, 1, 125, 126], 9));
    ts.push(meta("std/th08:stage_name+bgm", Carrier::Std06, Game::Th08, vec![0, 126], 9));
    ts.push(meta("std/th12:anm_path", Carrier::Std10, Game::Th12, vec![0, 125, 126], 1));
    ts.push(meta("anm/th06:path+path_2", Carrier::AnmPath { path_2: true }, Game::Th06, vec![0, 1, 14, 15, 16], 128));
    ts.push(meta("anm/th12:path", Carrier::AnmPath { path_2: false }, Game::Th12, vec![0, 1, 14, 15, 16], 64));
    ts.push(meta("anm/th18:path", Carrier::AnmPath { path_2: false }, Game::Th18, vec![0, 15], 64));
    ts.push(meta("mission/th095:text", Carrier::Mission, Game::Th095, vec![0, 1, 61, 62], 192));
    ts.push(meta("mission/th125:text", Carrier::Mission, Game::Th125, vec![0, 1, 61, 62], 192));
    ts
}

// =============================================================================================
// Cases

#[derive(Clone, Debug)]
struct Case {
    strs: Vec<String>,
    label: String,
    corrupt: bool,
}

fn case1(s: String, label: String) -> Case { Case { strs: vec![s], label, corrupt: false } }

/// What the model says about a case on a target.
fn expectation(t: &Target, c: &Case) -> Result<(), Reject> {
    match t.carrier {
        Carrier::Msg | Carrier::AnmIns => {
            let mut furi = None;
            for (i, s) in c.strs.iter().enumerate() {
                model_blob(&t.ops[i % t.ops.len()], s, &mut furi, t.carrier == Carrier::Msg)?;
            }
            Ok(())
        },
        Carrier::Std06 | Carrier::Std10 => {
            for s in &c.strs { let e = sjis_encode(s).ok_or(Reject::Unencodable)?; if e.len() >= 128 { return Err(Reject::Std128); } }
            Ok(())
        },
        Carrier::AnmPath { .. } => { for s in &c.strs { sjis_encode(s).ok_or(Reject::Unencodable)?; } Ok(()) },
        Carrier::Mission => {
            for s in &c.strs { let e = sjis_encode(s).ok_or(Reject::Unencodable)?; if e.len() >= 64 { return Err(Reject::Mission64); } }
            Ok(())
        },
    }
}

fn nontrivial(t: &Target, c: &Case) -> bool {
    let (bs, cap) = t.geometry();
    c.strs.iter().any(|s| {
        let n = match sjis_encode(s) { Some(e) => e.len(), None => return false };
        if n != s.chars().count() { return true; }  // contains a two-byte character
        if let Some(bs) = bs { if n % bs == 0 || (n + 1) % bs == 0 { return true; } }
        if let Some(cap) = cap { if n + 1 >= cap { return true; } }
        false
    })
}

// =============================================================================================
// Source construction

const ANM_ENTRY_TAIL: &str = "has_data: false, img_width: 512, img_height: 512, img_format: 3, offset_x: 0, offset_y: 0, colorkey: 0, memory_priority: 0, low_res_scale: false, sprites: {} }\n";
const FILLER: &str = "f";

struct Built {
    src: String,
    /// expected literals in the order the decompiled text must show them
    expected: Vec<String>,
    /// per expected literal: index of the case it belongs to (None = filler)
    owner: Vec<Option<usize>>,
}

fn build(t: &Target, cases: &[Case]) -> Built {
    let mut src = String::new();
    let mut expected = vec![];
    let mut owner = vec![];
    match t.carrier {
        Carrier::Msg => {
            let n_scripts = if t.per_case_script { cases.len() } else { 1 };
            src.push_str("meta { table: {");
            for i in 0..n_scripts { src.push_str(&format!("{}: {{script: \"s{}\"}}, ", i, i)); }
            src.push_str("} }\n");
            let mut open = false;
            for (ci, c) in cases.iter().enumerate() {
                if t.per_case_script || ci == 0 {
                    if open { src.push_str("}\n"); }
                    src.push_str(&format!("script s{} {{\n", if t.per_case_script { ci } else { 0 }));
                    open = true;
                }
                for (i, s) in c.strs.iter().enumerate() {
                    let op = &t.ops[i % t.ops.len()];
                    src.push_str(&format!("  ins_{}({}{}{});\n", op.opcode, op.pre_src, lit(s), op.post_src));
                    expected.push(s.clone()); owner.push(Some(ci));
                }
            }
            if open { src.push_str("}\n"); }
        },
        Carrier::AnmIns => {
            src.push_str("entry { path: \"subdir/file.png\", ");
            src.push_str(ANM_ENTRY_TAIL);
            src.push_str("script script0 {\n");
            for (ci, c) in cases.iter().enumerate() {
                for (i, s) in c.strs.iter().enumerate() {
                    let op = &t.ops[i % t.ops.len()];
                    src.push_str(&format!("  ins_{}({}{}{});\n", op.opcode, op.pre_src, lit(s), op.post_src));
                    expected.push(s.clone()); owner.push(Some(ci));
                }
            }
            src.push_str("}\n");
        },
        Carrier::Std06 => {
            let mut slots: Vec<(String, Option<usize>)> = cases.iter().enumerate().map(|(ci, c)| (c.strs[0].clone(), Some(ci))).collect();
            while slots.len() < 9 { slots.push((FILLER.to_string(), None)); }
            src.push_str(&format!("meta {{\n unknown: 0,\n stage_name: {},\n bgm: [\n", lit(&slots[0].0)));
            for k in 0..4 { src.push_str(&format!("  {{path: {}, name: {}}},\n", lit(&slots[1 + 2 * k].0), lit(&slots[2 + 2 * k].0))); }
            src.push_str(" ],\n objects: {},\n instances: [],\n}\nscript main {}\n");
            for (s, o) in slots { expected.push(s); owner.push(o); }
        },
        Carrier::Std10 => {
            src.push_str(&format!("meta {{ unknown: 0, anm_path: {}, objects: {{}}, instances: [] }}\nscript main {{}}\n", lit(&cases[0].strs[0])));
            expected.push(cases[0].strs[0].clone()); owner.push(Some(0));
        },
        Carrier::AnmPath { path_2 } => {
            let per = if path_2 { 2 } else { 1 };
            let mut k = 0;
            while k < cases.len() {
                let a = &cases[k].strs[0];
                src.push_str(&format!("entry {{ path: {}, ", lit(a)));
                expected.push(a.clone()); owner.push(Some(k));
                if path_2 {
                    let (b, o) = if k + 1 < cases.len() { (cases[k + 1].strs[0].clone(), Some(k + 1)) } else { (FILLER.to_string(), None) };
                    src.push_str(&format!("path_2: {}, ", lit(&b)));
                    expected.push(b); owner.push(o);
                }
                src.push_str(ANM_ENTRY_TAIL);
                k += per;
            }
        },
        Carrier::Mission => {
            let per = t.slots();
            let mut k = 0;
            let mut e = 0u32;
            while k < cases.len() {
                let (stage, scene, player) = mission_ids(e);
                let mut texts = vec![];
                for j in 0..per {
                    let (s, o) = if k + j < cases.len() { (cases[k + j].strs[0].clone(), Some(k + j)) } else { (FILLER.to_string(), None) };
                    texts.push(lit(&s)); expected.push(s); owner.push(o);
                }
                if t.game == Game::Th095 {
                    src.push_str(&format!("entry {{ stage: {stage}, scene: {scene}, face: 3, point: 4, text: [{}] }}\n", texts.join(", ")));
                } else {
                    src.push_str(&format!("entry {{ stage: {stage}, scene: {scene}, player: {player}, unknown_1: 0, unknown_2: 0, point_1: 5, point_2: 6, furigana: [[0,0],[0,0],[0,0]], text: [{}] }}\n", texts.join(", ")));
                }
                k += per; e += 1;
            }
        },
    }
    Built { src, expected, owner }
}

fn mission_ids(entry: u32) -> (u32, u32, u32) { (1 + entry % 14, 1 + (entry / 3) % 9, entry % 2) }

// =============================================================================================
// Binary walkers (independent of truth's readers)

fn u32_at(b: &[u8], p: usize) -> Option<u32> { b.get(p..p + 4).map(|s| u32::from_le_bytes([s[0], s[1], s[2], s[3]])) }

/// MSG: u32 count; count x (u32 offset [, u32 flags]); scripts = instructions (i16 time, u8 opcode, u8 argsize, blob)
/// ended by four zero bytes.  Returns the table offsets and, per script, (file offset, [(opcode, blob)]).
fn walk_msg(b: &[u8], has_flags: bool) -> Result<(Vec<u32>, Vec<(usize, Vec<(u8, Vec<u8>)>)>), String> {
    let n = u32_at(b, 0).ok_or("short header")? as usize;
    let esz = if has_flags { 8 } else { 4 };
    let mut table = vec![];
    for i in 0..n { table.push(u32_at(b, 4 + i * esz).ok_or("short table")?); }
    let mut pos = 4 + n * esz;
    let mut scripts = vec![];
    while pos < b.len() {
        let start = pos;
        let mut instrs = vec![];
        loop {
            let h = b.get(pos..pos + 4).ok_or_else(|| format!("truncated instruction header at {pos:#x}"))?;
            if h == [0, 0, 0, 0] { pos += 4; break; }
            let size = h[3] as usize;
            let blob = b.get(pos + 4..pos + 4 + size).ok_or_else(|| format!("truncated blob at {pos:#x}"))?;
            instrs.push((h[2], blob.to_vec()));
            pos += 4 + size;
        }
        scripts.push((start, instrs));
    }
    Ok((table, scripts))
}

// =============================================================================================
// Running a batch through the real code

#[derive(Default)]
struct Out {
    cases: u64, nontrivial: u64,
    compiles: u64, decompiles: u64, strings: u64, lit_cmp: u64, byte_cmp: u64, masked_nul: u64,
    fails: Vec<(String, Value)>,
    outcomes: BTreeMap<String, u64>,
    sample: Option<Value>,
    machinery: Vec<String>,
}
impl Out {
    fn outcome(&mut self, k: &str, n: u64) { *self.outcomes.entry(k.to_string()).or_insert(0) += n; }
    fn merge(&mut self, o: Out) {
        self.cases += o.cases; self.nontrivial += o.nontrivial;
        self.compiles += o.compiles; self.decompiles += o.decompiles; self.strings += o.strings; self.lit_cmp += o.lit_cmp;
        self.byte_cmp += o.byte_cmp; self.masked_nul += o.masked_nul; self.fails.extend(o.fails); self.machinery.extend(o.machinery);
        for (k, v) in o.outcomes { *self.outcomes.entry(k).or_insert(0) += v; }
        if self.sample.is_none() { self.sample = o.sample; }
    }
}

fn detail(t: &Target, c: &Case, expect: &str, what: &str, extra: Value) -> Value {
    json!({ "target": t.name, "strs": c.strs, "label": c.label, "expect": expect, "what": what, "selftest_corrupt": c.corrupt,
            "codepoints": c.strs.iter().map(|s| codepoints(s)).collect::<Vec<_>>(),
            "observed": extra })
}

fn codepoints(s: &str) -> String {
    let n = s.chars().count();
    let head: Vec<String> = s.chars().take(12).map(|ch| format!("U+{:04X}", ch as u32)).collect();
    if n > 12 { format!("{} ... ({} characters in total, last U+{:04X})", head.join(" "), n, s.chars().last().unwrap() as u32) } else { head.join(" ") }
}

fn trunc(s: &str, n: usize) -> String { if s.chars().count() > n { s.chars().take(n).collect::<String>() + "..." } else { s.to_string() } }

/// A problem found at batch level: (kind, involved case index if known, info)
struct Problem { kind: String, case: Option<usize>, info: Value }

fn run_ok_once(t: &Target, cases: &[Case], out: &mut Out) -> Vec<Problem> {
    let mut probs = vec![];
    let built = build(t, cases);
    let maps: Vec<&str> = t.mapfile.iter().map(|s| s.as_str()).collect();
    let tool = t.tool();
    let co = drive::compile(tool, built.src.as_bytes(), &CompileOpts { mapfiles: maps.clone(), ..Default::default() });
    out.compiles += 1;
    out.strings += built.expected.len() as u64;
    if let Some(p) = &co.panic {
        probs.push(Problem { kind: p.signature(), case: None, info: json!({"stage": "compile", "panic": p.text}) });
        return probs;
    }
    let bytes = match &co.bytes {
        Some(b) => b,
        None => {
            probs.push(Problem { kind: "compile-rejected".into(), case: None, info: json!({"diag": trunc(&co.diag, 1500)}) });
            return probs;
        },
    };
    if co.has_warning() { out.outcome("compile:warning-emitted", 1); }

    // ---- byte model
    match t.carrier {
        Carrier::Msg => {
            match walk_msg(bytes, t.game >= Game::Th09) {
                Err(e) => probs.push(Problem { kind: "bytes:unwalkable-file".into(), case: None, info: json!({"walker": e}) }),
                Ok((table, scripts)) => {
                    let n_scripts = if t.per_case_script { cases.len() } else { 1 };
                    if scripts.len() != n_scripts || table.len() != n_scripts {
                        probs.push(Problem { kind: "bytes:script-count".into(), case: None, info: json!({"scripts": scripts.len(), "table": table.len(), "expected": n_scripts}) });
                    } else {
                        for (i, (start, _)) in scripts.iter().enumerate() {
                            if table[i] as usize != *start {
                                probs.push(Problem { kind: "bytes:script-offset".into(), case: Some(if t.per_case_script { i } else { 0 }), info: json!({"table": table[i], "walked": start}) });
                            }
                        }
                        let mut si = 0; let mut ii = 0;
                        for (ci, c) in cases.iter().enumerate() {
                            if t.per_case_script { si = ci; ii = 0; }
                            let mut furi = None;
                            for (k, s) in c.strs.iter().enumerate() {
                                let op = &t.ops[k % t.ops.len()];
                                // (state never crosses cases: non-furibug targets have no state, furibug targets use one script per case)
                                let m = match model_blob(op, s, &mut furi, true) { Ok(m) => m, Err(_) => { out.machinery.push(format!("model rejected a case scheduled as ok: {} {}", t.name, c.label)); continue; } };
                                if m.masked_to_nul { out.masked_nul += 1; }
                                out.byte_cmp += 1;
                                match scripts[si].1.get(ii) {
                                    Some((opc, blob)) if *opc as u32 == op.opcode && *blob == m.blob => {},
                                    got => probs.push(Problem { kind: "bytes".into(), case: Some(ci), info: json!({"string_index": k, "model": hex(&m.blob), "file": got.map(|(o, b)| format!("opcode {} blob {}", o, hex(b)))}) }),
                                }
                                ii += 1;
                            }
                            if t.per_case_script && scripts[si].1.len() != ii {
                                probs.push(Problem { kind: "bytes:instr-count".into(), case: Some(ci), info: json!({"file": scripts[si].1.len(), "expected": ii}) });
                            }
                        }
                        if !t.per_case_script && scripts[0].1.len() != ii {
                            probs.push(Problem { kind: "bytes:instr-count".into(), case: None, info: json!({"file": scripts[0].1.len(), "expected": ii}) });
                        }
                    }
                },
            }
        },
        Carrier::Mission => {
            let per = t.slots();
            let n_entries = (built.expected.len() + per - 1) / per;
            let (hdr, esz) = if t.game == Game::Th095 { (12, 12 + 64 * 3) } else { (40, 40 + 64 * 6) };
            if u32_at(bytes, 0) != Some(n_entries as u32) || bytes.len() != 4 + 4 * n_entries + esz * n_entries {
                probs.push(Problem { kind: "bytes:mission-layout".into(), case: None, info: json!({"len": bytes.len(), "entries": n_entries}) });
            } else {
                for (k, s) in built.expected.iter().enumerate() {
                    let (e, line) = (k / per, k % per);
                    let (stage, scene, player) = mission_ids(e as u32);
                    let player = if t.game == Game::Th095 { 0 } else { player };
                    let at = 4 + 4 * n_entries + esz * e + hdr + 64 * line;
                    let want = model_mission_line(s, stage, scene, player, line).unwrap_or_default();
                    out.byte_cmp += 1;
                    if bytes[at..at + 64] != want[..] {
                        probs.push(Problem { kind: "bytes".into(), case: built.owner[k], info: json!({"model": hex(&want), "file": hex(&bytes[at..at + 64]), "entry": e, "line": line}) });
                    }
                }
            }
        },
        _ => {},
    }

    // ---- decompile + literal comparison
    let de = drive::decompile(tool, bytes, &DecompOpts { mapfiles: maps, ..Default::default() });
    out.decompiles += 1;
    if let Some(p) = &de.panic {
        probs.push(Problem { kind: p.signature(), case: None, info: json!({"stage": "decompile", "panic": p.text}) });
        return probs;
    }
    let text = match &de.text {
        Some(x) => x,
        None => { probs.push(Problem { kind: "decompile-rejected".into(), case: None, info: json!({"diag": trunc(&de.diag, 1500)}) }); return probs; },
    };
    if de.diag.lines().any(|l| l.starts_with("warning") || l.starts_with("error") || l.starts_with("bug")) {
        probs.push(Problem { kind: "decompile-warning".into(), case: None, info: json!({"diag": trunc(&de.diag, 1500)}) });
    }
    let lits = match scan(text) {
        Ok(l) => l,
        Err(e) => { probs.push(Problem { kind: "decompiled-text-unscannable".into(), case: None, info: json!({"scanner": e, "text": trunc(text, 1500)}) }); return probs; },
    };
    let got: Vec<&Lit> = match t.carrier {
        Carrier::Msg | Carrier::AnmIns => lits.iter().filter(|l| l.paren_depth > 0).collect(),
        Carrier::Std06 => lits.iter().filter(|l| matches!(l.key.as_deref(), Some("stage_name" | "path" | "name"))).collect(),
        Carrier::Std10 => lits.iter().filter(|l| l.key.as_deref() == Some("anm_path")).collect(),
        Carrier::AnmPath { .. } => lits.iter().filter(|l| matches!(l.key.as_deref(), Some("path" | "path_2"))).collect(),
        Carrier::Mission => lits.iter().filter(|l| l.key.as_deref() == Some("text")).collect(),
    };
    if got.len() != built.expected.len() {
        probs.push(Problem { kind: "literal-count".into(), case: None, info: json!({"decompiled": got.len(), "source": built.expected.len(), "text": trunc(text, 1500)}) });
        return probs;
    }
    for (k, (g, want)) in got.iter().zip(&built.expected).enumerate() {
        out.lit_cmp += 1;
        let mut want = want.clone();
        if let Some(ci) = built.owner[k] { if cases[ci].corrupt { want.push('\u{30BD}'); } }
        if g.value != want {
            probs.push(Problem { kind: "roundtrip".into(), case: built.owner[k], info: json!({"source": want, "decompiled": g.value,
                "decompiled_codepoints": codepoints(&g.value)}) });
        }
    }
    if out.sample.is_none() && !cases.is_empty() {
        out.sample = Some(json!({"target": t.name, "case": cases[cases.len() / 2].label, "strings": cases[cases.len() / 2].strs.iter().map(|s| trunc(s, 40)).collect::<Vec<_>>(),
            "batch_size": cases.len(), "compiled_bytes": bytes.len(), "verdict": if probs.is_empty() { "identical" } else { "problem" }}));
    }
    probs
}

fn hex(b: &[u8]) -> String { b.iter().map(|x| format!("{:02x}", x)).collect::<Vec<_>>().join("") }

fn sig_for(t: &Target, c: Option<&Case>, kind: &str) -> String {
    if kind.starts_with("panic:") { return kind.to_string(); }
    match c {
        Some(c) => format!("C15:{}:{}:{}", kind, t.name, c.label),
        None => format!("C15:{}:{}:batch-context", kind, t.name),
    }
}

/// Run cases that the model expects to be accepted.  On any problem in a multi-case batch the cases
/// are re-run one by one so that each failure names its own minimal witness.
fn run_ok(t: &Target, cases: &[Case], out: &mut Out) {
    let probs = run_ok_once(t, cases, out);
    if probs.is_empty() { out.outcome("accepted:round-trip-identical", cases.len() as u64); return; }
    if cases.len() == 1 {
        out.outcome("accepted-expected:VIOLATION", 1);
        for p in probs { out.fails.push((sig_for(t, Some(&cases[0]), &p.kind), detail(t, &cases[0], "ok", &p.kind, p.info))); }
        return;
    }
    let mut reproduced = false;
    for c in cases {
        let mut sub = Out::default();
        run_ok(t, std::slice::from_ref(c), &mut sub);
        if !sub.fails.is_empty() { reproduced = true; }
        sub.sample = None;
        // count only the failures and the work, not a second "string pushed" for the evidence
        out.compiles += sub.compiles; out.decompiles += sub.decompiles;
        out.fails.extend(sub.fails); out.machinery.extend(sub.machinery);
        for (k, v) in sub.outcomes { *out.outcomes.entry(k).or_insert(0) += v; }
    }
    if !reproduced {
        let p = &probs[0];
        out.fails.push((sig_for(t, None, &p.kind), json!({"target": t.name, "what": p.kind, "observed": p.info, "batch": cases.iter().map(|c| json!({"strs": c.strs, "label": c.label})).collect::<Vec<_>>(), "expect": "ok-batch"})));
    }
}

/// Run one case that must be rejected with an error diagnostic.
fn run_err(t: &Target, c: &Case, why: Reject, out: &mut Out) {
    let built = build(t, std::slice::from_ref(c));
    let maps: Vec<&str> = t.mapfile.iter().map(|s| s.as_str()).collect();
    let co = drive::compile(t.tool(), built.src.as_bytes(), &CompileOpts { mapfiles: maps, ..Default::default() });
    out.compiles += 1;
    out.strings += c.strs.len() as u64;
    let exp = format!("err:{}", why.name());
    if let Some(p) = &co.panic {
        out.outcome("rejected-expected:PANIC", 1);
        out.fails.push((p.signature(), detail(t, c, &exp, "panic", json!({"panic": p.text}))));
        return;
    }
    if co.bytes.is_some() || !drive::has_error(&co.diag) {
        out.outcome(&format!("{}:ACCEPTED-SILENTLY", why.name()), 1);
        let sig = match why {
            Reject::Unencodable => format!("C15:unencodable-accepted:{}:{}", t.name, c.label),
            Reject::MsgBlob255 => "C15:oversize-accepted:msg-blob-over-255".to_string(),
            w => format!("C15:oversize-accepted:{}:{}", w.name(), t.name),
        };
        let sz = co.bytes.as_ref().map(|b| b.len());
        out.fails.push((sig, detail(t, c, &exp, "accepted", json!({"compiled_len": sz, "diag": trunc(&co.diag, 600),
            "string_bytes": c.strs.iter().map(|s| sjis_encode(s).map(|e| e.len())).collect::<Vec<_>>()}))));
        return;
    }
    if why.keywords().iter().any(|k| co.diag.contains(k)) {
        out.outcome(&format!("{}:rejected-with-error", why.name()), 1);
    } else {
        out.outcome(&format!("{}:rejected-with-unrelated-error", why.name()), 1);
        // (any error diagnostic satisfies the property; the wording is only classified)
    }
    if out.sample.is_none() {
        out.sample = Some(json!({"target": t.name, "case": c.label, "strings": c.strs.iter().map(|s| trunc(s, 40)).collect::<Vec<_>>(), "expected": exp,
            "verdict": "rejected", "diag_first_line": co.diag.lines().next().unwrap_or("")}));
    }
}

// =============================================================================================
// Enumeration

const QUICK_LENS: &[usize] = &[0, 1, 2, 3, 4, 5, 7, 8, 15, 16, 17, 31, 32, 33, 63, 64, 65, 127, 128, 129, 246, 247, 248, 250, 251, 252, 255, 256, 257, 300];

fn unencodable_candidates() -> Vec<char> {
    ['\u{00E9}', '\u{00FC}', '\u{0081}', '\u{00A0}', '\u{0101}', '\u{20AC}', '\u{23C4}', '\u{2603}', '\u{AC00}', '\u{4E02}', '\u{E000}', '\u{F8F0}',
     '\u{FFFD}', '\u{FEFF}', '\u{FF5F}', '\u{1F600}', '\u{20000}', '\u{10FFFF}']
        .into_iter().filter(|c| sjis_encode(&c.to_string()).is_none()).collect()
}

fn ulabel(c: char) -> String { format!("U+{:04X}", c as u32) }

enum Work {
    /// materialised cases: a batch expected to be accepted, or one case expected to be rejected
    Cases { t: usize, cases: Vec<Case>, expect: Result<(), Reject> },
    /// character sweep over chars[lo..hi] on target t, generated inside the worker
    Sweep { t: usize, lo: usize, hi: usize },
    /// all ordered pairs (specials[lo..hi] x specials) on target t, generated inside the worker
    Pairs { t: usize, lo: usize, hi: usize },
    /// thorough: specials[lo..hi] x every non-special character, in both orders, on target t
    WidePairs { t: usize, lo: usize, hi: usize },
}

/// The small families of a target (lengths, buffer fill/overflow, unencodable probes, sequences).
fn small_cases(t: &Target, thorough: bool) -> (Vec<Case>, Vec<(Case, Reject)>) {
    let rep_chars: Vec<(&str, char)> = vec![("a", 'a'), ("U+30BD", '\u{30BD}'), ("U+FF71", '\u{FF71}')];
    let unenc = unencodable_candidates();
    let mut seen: HashSet<Vec<String>> = HashSet::new();
    let mut ok: Vec<Case> = vec![];
    let mut errs: Vec<(Case, Reject)> = vec![];
    let is_seq_target = t.ops.len() > 1;
    let lens: Vec<usize> = if thorough { (0..=300).collect() } else { QUICK_LENS.to_vec() };
    let mut add = |c: Case| {
        if !seen.insert(c.strs.clone()) { return; }
        match expectation(t, &c) { Ok(()) => ok.push(c), Err(r) => errs.push((c, r)) }
    };
    if !is_seq_target {
        // lengths
        for (cl, c) in &rep_chars {
            for &l in &lens { add(case1(std::iter::repeat(*c).take(l).collect(), format!("len:{}^{}", cl, l))); }
        }
        // exact fill / overflow of buffers, in bytes (cap-2 .. cap+2 with one- and two-byte tails)
        if let (_, Some(cap)) = t.geometry() {
            for n in [cap.saturating_sub(2), cap - 1, cap, cap + 1, cap + 2] {
                add(case1("a".repeat(n), format!("fill:a^{}", n)));
                if n >= 2 { add(case1("a".repeat(n - 2) + "\u{30BD}", format!("fill:a^{}+U+30BD", n - 2))); }
                if n >= 1 { add(case1("a".repeat(n - 1) + "\u{FF71}", format!("fill:a^{}+U+FF71", n - 1))); }
            }
        }
        // unencodable characters
        for &u in &unenc {
            add(case1(u.to_string(), format!("unencodable:{}", ulabel(u))));
            add(case1(format!("ab{}c", u), format!("unencodable:ab+{}+c", ulabel(u))));
        }
    }
    if t.furibug() || is_seq_target || t.name.starts_with("msg-user/th10:z(bs=4)") {
        // sequences of <= 3 consecutive strings with / without the furigana marker
        let alpha = ["|ab", "|\u{30BD}", "abc", "\u{30BD}", "", "|", "|abcdefg", "\u{FF71}"];
        let n = alpha.len();
        for len in 1..=3usize {
            for mut code in 0..n.pow(len as u32) {
                let mut strs = vec![];
                let mut idx = vec![];
                for _ in 0..len { idx.push(code % n); strs.push(alpha[code % n].to_string()); code /= n; }
                let label = format!("seq:{}", idx.iter().map(|i| i.to_string()).collect::<Vec<_>>().join("."));
                add(Case { strs, label, corrupt: false });
            }
        }
        // a long furigana line followed by a short line (carried bytes make the next blob large)
        for &l in &lens {
            add(Case { strs: vec![format!("|{}", "a".repeat(l)), "b".into()], label: format!("seq:|a^{}+b", l), corrupt: false });
            add(Case { strs: vec![format!("|{}", "\u{30BD}".repeat(l / 2)), "|\u{30BD}".into(), "b".into()], label: format!("seq:|U+30BD^{}+|U+30BD+b", l / 2), corrupt: false });
        }
    }
    (ok, errs)
}

/// The character sweep of a target for a slice of the character table: 'a'^p . c and c . 'a'.
/// Strings that do not fit the target are not part of the sweep (buffer overflow is covered by `fill:`),
/// nor are strings already enumerated by the small families.
fn sweep_cases(t: &Target, chars: &[Ch], thorough: bool, already: &HashSet<String>) -> Vec<Case> {
    let mut out: Vec<Case> = vec![];
    let mut seen: HashSet<String> = HashSet::new();
    let (bs, _) = t.geometry();
    let mut add = |c: Case| {
        if already.contains(&c.strs[0]) || !seen.insert(c.strs[0].clone()) { return; }
        if expectation(t, &c).is_ok() { out.push(c); }
    };
    for ch in chars {
        let cl = ulabel(ch.c);
        for &p in &t.ps { add(case1("a".repeat(p) + &ch.c.to_string(), format!("{}:p{}", cl, p))); }
        if bs.is_some() { add(case1(format!("{}a", ch.c), format!("{}:then-a", cl))); }
        if thorough {
            // the character after / before a two-byte character whose trail byte is 0x5C, and after a half-width kana
            add(case1(format!("\u{30BD}{}", ch.c), format!("{}:after-U+30BD", cl)));
            add(case1(format!("a\u{30BD}{}", ch.c), format!("{}:after-a+U+30BD", cl)));
            add(case1(format!("{}\u{30BD}", ch.c), format!("{}:then-U+30BD", cl)));
            add(case1(format!("\u{FF71}{}\u{FF71}", ch.c), format!("{}:between-U+FF71", cl)));
        }
    }
    out
}

/// Characters whose bytes are "dangerous" somewhere (quote, backslash, pipe, lowest/highest trail bytes,
/// bytes equal to a mask byte, bytes next to 0x00/0x80), used for the exhaustive ordered-pair family.
fn specials(chars: &[Ch]) -> Vec<Ch> {
    // (0x30 '0', 0x6E 'n', 0x72 'r': the letters of the escape sequences, dangerous right after a backslash character)
    let single = [0x01u8, 0x09, 0x0A, 0x0D, 0x1F, 0x20, 0x22, 0x30, 0x5C, 0x6E, 0x72, 0x7C, 0x77, 0x7E, 0x7F, 0x80, 0xA1, 0xAA, 0xB1, 0xDD, 0xDF];
    let trail = [0x40u8, 0x5C, 0x77, 0x7C, 0x7E, 0x80, 0xFC];
    chars.iter().filter(|ch| match ch.bytes.len() {
        1 => single.contains(&ch.bytes[0]),
        _ => trail.contains(&ch.bytes[1]),
    }).cloned().collect()
}

fn wide_pair_cases(t: &Target, first: &[Ch], chars: &[Ch], special_set: &HashSet<char>) -> Vec<Case> {
    let mut out = vec![];
    for a in first {
        for b in chars {
            if special_set.contains(&b.c) || b.c == 'a' { continue; }  // covered by the pair family / the prefix sweep
            for (x, y) in [(a, b), (b, a)] {
                let c = case1(format!("{}{}", x.c, y.c), format!("pair:{}+{}", ulabel(x.c), ulabel(y.c)));
                if expectation(t, &c).is_ok() { out.push(c); }
            }
        }
    }
    out
}

fn pair_cases(t: &Target, first: &[Ch], all: &[Ch], already: &HashSet<String>) -> Vec<Case> {
    let mut out = vec![];
    for a in first {
        for b in all {
            let c = case1(format!("{}{}", a.c, b.c), format!("pair:{}+{}", ulabel(a.c), ulabel(b.c)));
            if already.contains(&c.strs[0]) { continue; }
            if expectation(t, &c).is_ok() { out.push(c); }
        }
    }
    out
}

const SWEEP_CHUNK: usize = 64;

// =============================================================================================

pub fn run(tier: &str) -> Report {
    let mut rep = Report::new("C15", tier, "model_checking");
    let thorough = rep.is_thorough();
    rep.rule = "the string touches a block or buffer boundary (its byte length, or length+1, is a multiple of the block size / reaches the buffer capacity) or contains a two-byte character".into();
    let chars = charset();
    let ts = targets();

    // ---- character classes present (evidence that the dangerous bytes are in the sweep)
    let mut classes: BTreeMap<String, u64> = BTreeMap::new();
    let mut trail: BTreeMap<String, u64> = BTreeMap::new();
    let mask_head = mask_bytes((0x77, 7, 16), 8);
    for ch in &chars {
        *classes.entry(ch.class.to_string()).or_insert(0) += 1;
        if ch.bytes.len() == 2 {
            let tb = ch.bytes[1];
            let k = match tb { 0x5C => "trail=0x5C(backslash)", 0x7C => "trail=0x7C(pipe)", 0x40 => "trail=0x40(lowest)", 0x7E => "trail=0x7E", 0x80 => "trail=0x80", 0xFC => "trail=0xFC(highest)", _ => "" };
            if !k.is_empty() { *trail.entry(k.to_string()).or_insert(0) += 1; }
            if mask_head.contains(&tb) || [0x77u8, 0xaa, 0xbb, 0xdd, 0xee].contains(&tb) { *trail.entry("trail-equals-a-mask-byte".into()).or_insert(0) += 1; }
            if mask_head.contains(&ch.bytes[0]) || [0xaau8, 0xbb, 0xdd, 0xee].contains(&ch.bytes[0]) { *trail.entry("lead-equals-a-mask-byte".into()).or_insert(0) += 1; }
        }
    }
    rep.extra.insert("character_classes".into(), json!(classes));
    rep.extra.insert("two_byte_trail_classes".into(), json!(trail));
    rep.extra.insert("characters_total".into(), json!(chars.len()));
    rep.extra.insert("unencodable_probe_set".into(), json!(unencodable_candidates().iter().map(|c| ulabel(*c)).collect::<Vec<_>>()));
    rep.extra.insert("targets".into(), json!(ts.iter().map(|t| json!({"name": t.name, "prefix_positions": t.ps, "family": t.family})).collect::<Vec<_>>()));
    // informational: the three characters that encode but decode to something else (outside the property)
    let mut amb = vec![];
    for c in ['\u{00A5}', '\u{203E}', '\u{2212}'] {
        let t = &ts[0];
        let built = build(t, &[case1(c.to_string(), "ambiguous".into())]);
        let maps: Vec<&str> = t.mapfile.iter().map(|s| s.as_str()).collect();
        let co = drive::compile(t.tool(), built.src.as_bytes(), &CompileOpts { mapfiles: maps.clone(), ..Default::default() });
        let seen = match &co.bytes {
            Some(b) => match drive::decompile(t.tool(), b, &DecompOpts { mapfiles: maps, ..Default::default() }).text {
                Some(text) => scan(&text).ok().and_then(|l| l.into_iter().find(|l| l.paren_depth > 0)).map(|l| codepoints(&l.value)).unwrap_or_else(|| "<no literal>".into()),
                None => "<decompile failed>".into(),
            },
            None => "<rejected>".into(),
        };
        amb.push(json!({"source": ulabel(c), "encoded_as": sjis_encode(&c.to_string()).map(|b| hex(&b)), "decompiled_as": seen}));
    }
    rep.extra.insert("ambiguous_characters_out_of_scope".into(), json!(amb));

    // ---- work list: small families of every target first (simplest first), then the character sweeps
    let t_plan = std::time::Instant::now();
    let mut work: Vec<Work> = vec![];
    let mut already: Vec<HashSet<String>> = vec![];
    let smalls = par_map(&ts, None, |_, t| small_cases(t, thorough));
    for ((ti, t), sm) in ts.iter().enumerate().zip(smalls) {
        let (ok, errs) = sm.expect("no deadline");
        already.push(ok.iter().chain(errs.iter().map(|(c, _)| c)).filter(|c| c.strs.len() == 1).map(|c| c.strs[0].clone()).collect());
        for chunk in ok.chunks(t.batch.max(1)) { work.push(Work::Cases { t: ti, cases: chunk.to_vec(), expect: Ok(()) }); }
        for (c, r) in errs { work.push(Work::Cases { t: ti, cases: vec![c], expect: Err(r) }); }
    }
    for (ti, t) in ts.iter().enumerate() {
        if t.ops.len() > 1 { continue; }
        let mut lo = 0;
        while lo < chars.len() { let hi = (lo + SWEEP_CHUNK).min(chars.len()); work.push(Work::Sweep { t: ti, lo, hi }); lo = hi; }
    }
    let spec = specials(&chars);
    rep.extra.insert("pair_family_alphabet_size".into(), json!(spec.len()));
    for (ti, t) in ts.iter().enumerate() {
        if t.ops.len() > 1 || !(thorough || t.pairs_quick) { continue; }
        let mut lo = 0;
        while lo < spec.len() { let hi = (lo + 2).min(spec.len()); work.push(Work::Pairs { t: ti, lo, hi }); lo = hi; }
    }
    let special_set: HashSet<char> = spec.iter().map(|c| c.c).collect();
    if thorough {
        const WIDE: &[&str] = &["msg-user/th10:z(bs=4)", "msg-user/th10:m(bs=4;mask=0x77,7,16)", "msg-user/th10:m(len=16;mask=0x77,7,16)",
            "msg-user/th10:p(bs=4;mask=0x77,7,16)", "msg-core/th08:ins_16", "msg-core/th12:ins_15", "std/th06:stage_name+bgm", "anm/th12:path", "mission/th095:text"];
        for (ti, t) in ts.iter().enumerate() {
            if !WIDE.contains(&t.name.as_str()) { continue; }
            for lo in 0..spec.len() { work.push(Work::WidePairs { t: ti, lo, hi: lo + 1 }); }
        }
    }
    // thorough: every BMP scalar value that Shift-JIS cannot encode must be rejected (one encoding)
    if thorough {
        for cp in 1u32..=0xFFFF {
            if let Some(c) = char::from_u32(cp) {
                if sjis_encode(&c.to_string()).is_none() {
                    work.push(Work::Cases { t: 0, cases: vec![case1(c.to_string(), format!("unencodable-bmp:{}", ulabel(c)))], expect: Err(Reject::Unencodable) });
                }
            }
        }
    }
    if selftest_mode() == 2 { rep.assumptions.push("SELFTEST: VERIF_C15_SELFTEST_CORRUPT=2 corrupted one predicted byte on purpose".into()); }
    if selftest_mode() == 1 {
        for w in work.iter_mut() {
            if let Work::Cases { cases, expect: Ok(()), .. } = w { if cases.len() > 3 { cases[3].corrupt = true; break; } }
        }
        rep.assumptions.push("SELFTEST: VERIF_C15_SELFTEST_CORRUPT=1 corrupted one expected string on purpose".into());
    }
    rep.extra.insert("plan_seconds".into(), json!(t_plan.elapsed().as_secs_f64()));

    let deadline = rep.deadline();
    let t_run = std::time::Instant::now();
    let results = par_map(&work, Some(deadline), |_, w| {
        let mut out = Out::default();
        match w {
            Work::Cases { t, cases, expect } => {
                let t = &ts[*t];
                out.cases += cases.len() as u64;
                out.nontrivial += cases.iter().filter(|c| nontrivial(t, c)).count() as u64;
                match expect {
                    Ok(()) => run_ok(t, cases, &mut out),
                    Err(r) => run_err(t, &cases[0], *r, &mut out),
                }
            },
            Work::Sweep { .. } | Work::Pairs { .. } | Work::WidePairs { .. } => {
                let (t, cases) = match w {
                    Work::Sweep { t, lo, hi } => (t, sweep_cases(&ts[*t], &chars[*lo..*hi], thorough, &already[*t])),
                    Work::Pairs { t, lo, hi } => (t, pair_cases(&ts[*t], &spec[*lo..*hi], &spec, &already[*t])),
                    Work::WidePairs { t, lo, hi } => (t, wide_pair_cases(&ts[*t], &spec[*lo..*hi], &chars, &special_set)),
                    _ => unreachable!(),
                };
                let t = &ts[*t];
                out.cases += cases.len() as u64;
                out.nontrivial += cases.iter().filter(|c| nontrivial(t, c)).count() as u64;
                for chunk in cases.chunks(t.batch.max(1)) { run_ok(t, chunk, &mut out); }
            },
        }
        out
    });
    rep.extra.insert("run_seconds".into(), json!(t_run.elapsed().as_secs_f64()));

    let mut total = Out::default();
    let mut not_run = 0u64;
    let mut samples_by_family: BTreeMap<&'static str, Vec<Value>> = BTreeMap::new();
    let mut oversize_by_target: BTreeMap<String, u64> = BTreeMap::new();
    let mut per_family: BTreeMap<String, u64> = BTreeMap::new();
    let mut per_target: BTreeMap<String, u64> = BTreeMap::new();
    for (w, r) in work.iter().zip(results) {
        let (ti, is_err) = match w { Work::Cases { t, expect, .. } => (*t, expect.is_err()), Work::Sweep { t, .. } | Work::Pairs { t, .. } | Work::WidePairs { t, .. } => (*t, false) };
        match r {
            None => not_run += 1,
            Some(mut o) => {
                let fam = if matches!(w, Work::Cases { cases, .. } if cases[0].label.starts_with("unencodable-bmp:")) { "unencodable-bmp-sweep" } else if matches!(w, Work::Pairs { .. }) { "ordered-pairs-of-special-characters" } else if matches!(w, Work::WidePairs { .. }) { "pairs-special-x-any-character-both-orders" } else { ts[ti].family };
                *per_family.entry(fam.to_string()).or_insert(0) += o.cases;
                *per_target.entry(ts[ti].name.clone()).or_insert(0) += o.cases;
                if let Some(s) = o.sample.take() {
                    let v = samples_by_family.entry(fam).or_default();
                    if v.len() < 2 || (is_err && v.len() < 3) { v.push(s); }
                }
                for (sig, _) in &o.fails { if sig.starts_with("C15:oversize-accepted") { *oversize_by_target.entry(ts[ti].name.clone()).or_insert(0) += 1; } }
                total.merge(o);
            },
        }
    }
    for (_, v) in samples_by_family { for s in v { rep.sample(s); } }
    rep.evaluations = total.strings;
    rep.states = total.cases;
    rep.transitions = total.compiles + total.decompiles;
    rep.traces_validated = total.lit_cmp + total.byte_cmp;
    rep.nontrivial = total.nontrivial;
    for (k, v) in &total.outcomes { rep.outcome_n(k, *v); }
    // smallest witness of each signature first (the first one becomes the replay file)
    let mut fails = total.fails;
    fails.sort_by_key(|(sig, d)| (sig.clone(), d["strs"].as_array().map(|a| a.iter().map(|s| s.as_str().map(|s| s.len()).unwrap_or(0)).sum::<usize>()).unwrap_or(0)));
    for (sig, d) in fails { rep.fail(sig, d); }
    let mut mach: Vec<String> = total.machinery; mach.sort(); mach.dedup();
    for m in mach.into_iter().take(20) { rep.machinery_errors.push(m); }
    rep.extra.insert("compile_invocations".into(), json!(total.compiles));
    rep.extra.insert("decompile_invocations".into(), json!(total.decompiles));
    rep.extra.insert("literal_comparisons".into(), json!(total.lit_cmp));
    rep.extra.insert("byte_model_comparisons".into(), json!(total.byte_cmp));
    rep.extra.insert("strings_with_a_text_byte_masked_to_0x00".into(), json!(total.masked_nul));
    rep.extra.insert("cases_per_family".into(), json!(per_family));
    rep.extra.insert("cases_per_target".into(), json!(per_target));
    rep.extra.insert("oversize_accepted_per_target".into(), json!(oversize_by_target));
    if not_run > 0 { rep.cap_hit = Some(format!("wall cap: {} of {} work items (batches / sweep chunks) not run", not_run, work.len())); }
    rep.exhaustive = not_run == 0;
    rep.bound_completed = format!(
        "{} unambiguous Shift-JIS characters (every one- and two-byte code) x prefix positions {{per target}} x {} targets ({}); c^L for L in {} for c in {{a, U+30BD, U+FF71}}; buffer fill/overflow at cap-2..cap+2 bytes; all sequences of <= 3 strings over an 8-string furigana alphabet; {} unencodable probes{}",
        chars.len(), ts.len(), if thorough { "plus each character after/before U+30BD and between U+FF71; ordered pairs of special characters on every target; special x any character in both orders on 9 representative targets" } else { "ordered pairs of special characters on a subset of targets" },
        if thorough { "0..=300".to_string() } else { format!("{:?}", QUICK_LENS) }, unencodable_candidates().len(),
        if thorough { " + every unencodable BMP scalar value on z(bs=4)" } else { "" });
    rep.assumptions.push("encoding_rs::SHIFT_JIS is the trusted character table (same library truth uses); 'represents unambiguously' = code -> char -> same code".into());
    rep.assumptions.push("U+00A5, U+203E, U+2212 encode to bytes that decode to a different character: ambiguous, outside the property".into());
    rep.assumptions.push("a MSG instruction stores its argument size in one byte, so a string whose argument blob exceeds 255 bytes 'does not fit' and must be rejected".into());
    rep.assumptions.push("byte-level model (M7) is compared for MSG carriers and mission.msg; STD names, ANM paths and ANM-carried signatures are checked by the text round trip only".into());
    rep.assumptions.push("a decompile warning on a legally generated string counts as a violation; compile warnings are only recorded".into());
    rep.explanation = "Each case is written as a string literal into a real script/metadata source, compiled and decompiled in-process by truth; \
the literal is recovered from the decompiled text by an independent scanner and compared character for character; for MSG/mission the emitted bytes are compared with an independently \
computed encoding (SJIS + NUL + furigana carry-over + padding + accelerating XOR mask / fixed buffer / length prefix). Cases the model says cannot be encoded or do not fit must yield an error diagnostic.".into();
    rep
}

fn find_target(name: &str) -> Option<Target> { targets().into_iter().find(|t| t.name == name) }

pub fn replay(d: &Value) -> i32 {
    let name = d["target"].as_str().unwrap_or("");
    let t = match find_target(name) { Some(t) => t, None => { eprintln!("unknown target {name}"); return 2; } };
    let mut out = Out::default();
    if d["expect"] == "ok-batch" {
        let cases: Vec<Case> = d["batch"].as_array().cloned().unwrap_or_default().iter().map(|c| Case {
            strs: c["strs"].as_array().cloned().unwrap_or_default().iter().map(|s| s.as_str().unwrap_or("").to_string()).collect(),
            label: c["label"].as_str().unwrap_or("").to_string(), corrupt: false }).collect();
        let probs = run_ok_once(&t, &cases, &mut out);
        for p in &probs { println!("batch problem: {} {}", p.kind, p.info); }
        return if probs.is_empty() { 0 } else { 1 };
    }
    let c = Case {
        strs: d["strs"].as_array().cloned().unwrap_or_default().iter().map(|s| s.as_str().unwrap_or("").to_string()).collect(),
        label: d["label"].as_str().unwrap_or("").to_string(),
        corrupt: d["selftest_corrupt"].as_bool().unwrap_or(false),
    };
    let built = build(&t, std::slice::from_ref(&c));
    println!("target: {}\nmapfile:\n{}\nsource:\n{}", t.name, t.mapfile.clone().unwrap_or_default(), trunc(&built.src, 4000));
    let exp = expectation(&t, &c);
    println!("model expectation: {:?}", exp.map_err(|r| r.name()));
    match exp {
        Ok(()) => run_ok(&t, std::slice::from_ref(&c), &mut out),
        Err(r) => run_err(&t, &c, r, &mut out),
    }
    for (sig, det) in &out.fails { println!("FAIL {}\n{}", sig, serde_json::to_string_pretty(det).unwrap_or_default()); }
    for m in &out.machinery { println!("MACHINERY {}", m); }
    println!("outcomes: {:?}", out.outcomes);
    if out.fails.is_empty() { 0 } else { 1 }
}
