//! C14: difficulty labels <-> mask bytes (exhaustive over masks x flag-definition sets), and
//! difficulty-switch expansion / recognition.  M8 = the harness's own model of the label grammar
//! and of per-difficulty case selection.

use std::collections::{BTreeMap, BTreeSet};
use serde_json::json;
use truth::llir::RawInstr;

use crate::common::*;
use crate::tl::{self, *};

// ---------------------------------------------------------------------------------------------
// M8

#[derive(Debug, Clone)]
pub struct FlagCfg { pub scheme: &'static str, pub names: Vec<(u32, char)>, pub default_on: u8 }

impl FlagCfg {
    /// mapfile lines; every bit gets a line so that default_on is fully specified
    pub fn mapfile_section(&self) -> String {
        let mut s = String::from("!difficulty_flags\n");
        // "REDEF" schemes: every bit is first defined with the opposite default and then defined again (a later mapfile line
        // or a second mapfile overriding an earlier one): the last definition decides
        if self.scheme.starts_with("REDEF") {
            for &(bit, name) in &self.names { s += &format!("{} {}{}\n", bit, name, if self.default_on >> bit & 1 == 1 { '-' } else { '+' }); }
        }
        for &(bit, name) in &self.names { s += &format!("{} {}{}\n", bit, name, if self.default_on >> bit & 1 == 1 { '+' } else { '-' }); }
        s
    }
    /// name -> bit, the way a reader of the mapfile documentation would expect: digits always name their
    /// own bit, a defined letter names the bit of its (last) definition
    pub fn name_to_bit(&self) -> BTreeMap<char, u32> {
        let mut m: BTreeMap<char, u32> = "01234567".chars().enumerate().map(|(i, c)| (c, i as u32)).collect();
        for &(bit, name) in &self.names { m.insert(name, bit); }
        m
    }
    /// true if some name is claimed by two different bits (incl. the built-in digit names): the statement
    /// "under every set of flag names a mapfile may define" can only be met by rejecting such a mapfile
    pub fn ambiguous(&self) -> bool {
        let mut owner: BTreeMap<char, u32> = "01234567".chars().enumerate().map(|(i, c)| (c, i as u32)).collect();
        // a bit that is given a new name releases nothing: digits stay valid aliases
        for &(bit, name) in &self.names { if let Some(&o) = owner.get(&name) { if o != bit { return true; } } owner.insert(name, bit); }
        false
    }
}

pub fn m8_parse_label(label: &str, cfg: &FlagCfg) -> Result<u8, String> {
    let names = cfg.name_to_bit();
    let mut out = cfg.default_on;
    let mut enable = true;
    for c in label.chars() {
        match c {
            '-' => enable = false,
            '+' => enable = true,
            '*' => out = if enable { 0xFF } else { 0 },
            c => { let bit = *names.get(&c).ok_or(format!("unknown flag {c:?}"))?; if enable { out |= 1 << bit; } else { out &= !(1 << bit); } },
        }
    }
    Ok(out)
}

pub fn flag_cfgs(thorough: bool) -> Vec<FlagCfg> {
    let schemes: Vec<(&'static str, Vec<(u32, char)>)> = vec![
        ("digits", (0..8).map(|b| (b, char::from_digit(b, 10).unwrap())).collect()),
        ("ENHL+digits", vec![(0, 'E'), (1, 'N'), (2, 'H'), (3, 'L'), (4, '4'), (5, '5'), (6, '6'), (7, '7')]),
        ("ENHLXO+digits", vec![(0, 'E'), (1, 'N'), (2, 'H'), (3, 'L'), (4, 'X'), (5, 'O'), (6, '6'), (7, '7')]),
        ("letters", vec![(0, 'a'), (1, 'b'), (2, 'c'), (3, 'd'), (4, 'e'), (5, 'f'), (6, 'g'), (7, 'h')]),
        ("renamed-twice", vec![(0, 'E'), (0, 'Q'), (1, 'N'), (2, 'H'), (3, 'L'), (4, '4'), (5, '5'), (6, '6'), (7, '7')]),
        ("REDEF-ENHL+digits", vec![(0, 'E'), (1, 'N'), (2, 'H'), (3, 'L'), (4, '4'), (5, '5'), (6, '6'), (7, '7')]),
        ("shifted-letters", vec![(0, 'z'), (1, 'E'), (2, 'N'), (3, 'H'), (4, 'L'), (5, '5'), (6, '6'), (7, '7')]),
        // ambiguous definitions: one name for two bits / a digit naming another bit
        ("AMBIG-letter-reused", vec![(0, 'E'), (1, 'E'), (2, 'H'), (3, 'L'), (4, '4'), (5, '5'), (6, '6'), (7, '7')]),
        ("AMBIG-digit-of-other-bit", vec![(5, '5'), (0, '5'), (1, '1'), (2, '2'), (3, '3'), (4, '4'), (6, '6'), (7, '7')]),
    ];
    let mut v = vec![];
    for (scheme, names) in schemes {
        let subsets: Vec<u8> = if thorough || scheme == "ENHL+digits" { (0..=255u8).collect() } else { vec![0x00, 0xF0, 0x10, 0x01, 0xAA, 0xFF, 0x30, 0x0F, 0x80, 0x7F, 0x55, 0xC3] };
        for d in subsets { v.push(FlagCfg { scheme, names: names.clone(), default_on: d }); }
    }
    v
}

// ---------------------------------------------------------------------------------------------
// (a) mask <-> label, all 256 masks per configuration

fn labels_in_text(text: &str) -> Vec<Option<String>> {
    // one entry per `ins_`/marker statement line: the difficulty label in effect printed right before it (None = no label seen yet)
    let mut cur: Option<String> = None;
    let mut out = vec![];
    for line in text.lines() {
        // a difficulty label applies to the one statement it is attached to
        let mut s = line.trim();
        cur = None;
        while let Some(rest) = s.strip_prefix("{\"") {
            if let Some(end) = rest.find("\"}:") { cur = Some(rest[..end].to_string()); s = rest[end + 3..].trim(); } else { break; }
        }
        if s.starts_with("m0(") || s.starts_with("ins_") || s.starts_with("mS(") { out.push(cur.clone()); }
    }
    out
}

struct AOut { class: String, failures: Vec<Failure>, comparisons: u64 }

fn check_a(table: &Table, cfg: &FlagCfg) -> AOut {
    let mut out = AOut { class: String::new(), failures: vec![], comparisons: 0 };
    let mapfile = format!("{}{}", table.mapfile_text(REGS), cfg.mapfile_section());
    let detail = |extra: serde_json::Value| json!({"family": "a", "scheme": cfg.scheme, "default_on": cfg.default_on, "mapfile_section": cfg.mapfile_section(), "info": extra});
    let m0 = table.opcode_of_name("m0");
    let instrs: Vec<RawInstr> = (0..=255u8).map(|m| RawInstr { opcode: m0, difficulty: m, ..RawInstr::DEFAULTS }).collect();
    let hooks = make_language(&Pool { ints: 4, floats: 4 }, false);
    let loaded = catch(|| {
        let mut scope = truth::Builder::new().capture_diagnostics(true).build();
        let mut truth = scope.truth();
        match truth.apply_mapfile_str(&mapfile, truth::Game::Th10) { Ok(()) => Ok(()), Err(e) => { e.ignore(); Err(truth.get_captured_diagnostics().unwrap_or_default()) } }
    });
    match loaded {
        Err(p) => { out.class = "panic".into(); out.failures.push(Failure { signature: format!("C14:{}", p.signature()), detail: detail(json!({"panic": p.text})) }); return out; },
        Ok(Err(d)) => {
            // a rejected flag definition: fine only with an error diagnostic
            out.class = "mapfile-rejected".into();
            if !crate::drive::has_error(&d) { out.failures.push(Failure { signature: format!("C14:flags-rejected-without-error:{}", cfg.scheme), detail: detail(json!({"diag": d})) }); }
            if !cfg.ambiguous() { out.failures.push(Failure { signature: format!("C14:legal-flags-rejected:{}", cfg.scheme), detail: detail(json!({"diag": d})) }); }
            return out;
        },
        Ok(Ok(())) => {},
    }
    let r = catch(|| with_truth(&mapfile, |truth| {
        let options = truth::llir::DecompileOptions { diff_switches: false, blocks: false, ..Default::default() };
        let block = tl::raise(truth, &hooks, &instrs, &options).map_err(|d| format!("raise: {d}"))?;
        Ok::<_, String>(truth::fmt::stringify(&block))
    }));
    let text = match r {
        Err(p) => { out.class = "panic".into(); out.failures.push(Failure { signature: format!("C14:{}", p.signature()), detail: detail(json!({"panic": p.text})) }); return out; },
        Ok(Err(e)) => { out.class = "raise-failed".into(); out.failures.push(Failure { signature: format!("C14:raise-failed:{}", cfg.scheme), detail: detail(json!({"error": e})) }); return out; },
        Ok(Ok(t)) => t,
    };
    // M8 reads every printed label
    let labels = labels_in_text(&text);
    if labels.len() != 256 { out.class = "text-shape".into(); out.failures.push(Failure { signature: format!("C14:unexpected-text-shape:{}", cfg.scheme), detail: detail(json!({"n": labels.len(), "text": text.chars().take(2000).collect::<String>()})) }); return out; }
    let mut bad_label = None;
    for (m, lab) in labels.iter().enumerate() {
        out.comparisons += 1;
        let parsed = match lab { None => Ok(0xFF), Some(l) => m8_parse_label(l, cfg) };
        if parsed != Ok(m as u8) { bad_label = Some((m, lab.clone(), parsed)); break; }
    }
    if let Some((m, lab, parsed)) = bad_label {
        out.failures.push(Failure { signature: format!("C14:label-denotes-other-mask:{}", cfg.scheme), detail: detail(json!({"mask": m, "label": lab, "model_parse": format!("{:?}", parsed)})) });
    }
    // recompile
    let r = catch(|| with_truth(&mapfile, |truth| {
        let block = front_end(truth, &text, true).map_err(|(s, d)| format!("{s}: {d}"))?;
        let des = desugar(truth, &block)?;
        let (instrs2, _) = tl::lower(truth, &hooks, &des.0, false)?;
        Ok::<_, String>(instrs2)
    }));
    match r {
        Err(p) => { out.failures.push(Failure { signature: format!("C14:{}", p.signature()), detail: detail(json!({"panic": p.text})) }); },
        Ok(Err(e)) => { out.failures.push(Failure { signature: format!("C14:printed-labels-do-not-recompile:{}", cfg.scheme), detail: detail(json!({"error": e})) }); },
        Ok(Ok(instrs2)) => {
            let got: Vec<u8> = instrs2.iter().map(|i| i.difficulty).collect();
            let want: Vec<u8> = (0..=255u8).collect();
            out.comparisons += 256;
            if got != want {
                let first = got.iter().zip(&want).position(|(a, b)| a != b);
                out.failures.push(Failure { signature: format!("C14:mask-roundtrip:{}", cfg.scheme), detail: detail(json!({"first_bad_mask": first, "got": first.map(|i| got[i]), "label": first.and_then(|i| labels[i].clone()), "n_got": got.len()})) });
            }
        },
    }
    out.class = if out.failures.is_empty() { "ok".into() } else { "violation".into() };
    out
}

// ---------------------------------------------------------------------------------------------
// (b) switch expansion

#[derive(Debug, Clone)]
struct BCase { body: String, n: usize, cases: Vec<Vec<Option<i32>>>, label: &'static str, cfg_idx: usize, mismatched: bool }

fn m8_select(cases: &[Option<i32>], d: usize) -> i32 { (0..=d).rev().find_map(|i| cases[i]).expect("first case present") }

fn check_b(table: &Table, cfg: &FlagCfg, c: &BCase) -> (String, Vec<Failure>, u64) {
    let mapfile = format!("{}{}", table.mapfile_text(REGS), cfg.mapfile_section());
    let detail = |extra: serde_json::Value| json!({"family": "b", "body": c.body, "scheme": cfg.scheme, "default_on": cfg.default_on, "label": c.label, "info": extra});
    let hooks = make_language(&Pool { ints: 4, floats: 4 }, false);
    let r = catch(|| with_truth(&mapfile, |truth| {
        let block = front_end(truth, &c.body, true).map_err(|(s, d)| format!("{s}: {d}"))?;
        tl::validate_difficulty(truth, &hooks, &block)?;
        let des = desugar(truth, &block)?;
        let (instrs, _) = tl::lower(truth, &hooks, &des.0, false)?;
        Ok::<_, String>(instrs)
    }));
    let instrs = match r {
        Err(p) => return ("panic".into(), vec![Failure { signature: format!("C14:{}", p.signature()), detail: detail(json!({"panic": p.text})) }], 0),
        Ok(Err(e)) => {
            if c.mismatched && crate::drive::has_error(&e) { return ("mismatched-rejected".into(), vec![], 0); }
            return ("rejected".into(), vec![Failure { signature: format!("C14:switch-rejected:n{}:{}", c.n, e.lines().next().unwrap_or("").chars().filter(|ch| !ch.is_ascii_digit()).take(60).collect::<String>()), detail: detail(json!({"diag": e})) }], 0);
        },
        Ok(Ok(i)) => i,
    };
    if c.mismatched { return ("mismatched-accepted".into(), vec![Failure { signature: "C14:mismatched-switch-lengths-accepted".into(), detail: detail(json!({"instrs": fmt_instrs(&instrs)})) }], 0); }
    // model
    let label_mask = m8_parse_label(c.label, cfg).unwrap();
    let aux = cfg.default_on;
    let sig = "S".repeat(c.cases.len());
    let mut comparisons = 0;
    let mut problems = vec![];
    let decoded: Vec<(u8, Vec<i32>)> = instrs.iter().map(|i| (i.difficulty, decode_args(&sig, i).map(|a| a.iter().map(|(_, a)| if let Arg::Imm(v) = a { v.as_int() } else { i32::MIN }).collect()).unwrap_or_default())).collect();
    for d in 0..8usize {
        let permitted = d < c.n && (aux >> d) & 1 == 0 && (label_mask >> d) & 1 == 1;
        let applying: Vec<&(u8, Vec<i32>)> = decoded.iter().filter(|(m, _)| (m >> d) & 1 == 1 && (aux >> d) & 1 == 0).collect();
        comparisons += 1;
        if permitted {
            let want: Vec<i32> = c.cases.iter().map(|sw| m8_select(sw, d)).collect();
            if applying.len() != 1 { problems.push(format!("difficulty {d}: {} instructions apply, expected exactly 1", applying.len())); }
            else if applying[0].1 != want { problems.push(format!("difficulty {d}: carries {:?}, expected {:?}", applying[0].1, want)); }
        } else if (aux >> d) & 1 == 0 && !applying.is_empty() {
            problems.push(format!("difficulty {d} is not permitted by label/switch length but {} instructions apply", applying.len()));
        }
    }
    for (m, _) in &decoded { comparisons += 1; if m & aux != label_mask & aux { problems.push(format!("aux bits {:#x} differ from the label's {:#x}", m & aux, label_mask & aux)); break; } }
    if problems.is_empty() { ("ok".into(), vec![], comparisons) } else {
        let holes = c.cases.iter().any(|sw| sw.iter().any(|x| x.is_none()));
        ("mismatch".into(), vec![Failure { signature: format!("C14:switch-expansion:n{}:{}:{}", c.n, if holes { "holes" } else { "dense" }, if aux != 0 { "aux" } else { "noaux" }), detail: detail(json!({"problems": problems, "instrs": fmt_instrs(&instrs)})) }], comparisons)
    }
}

// ---------------------------------------------------------------------------------------------
// (c) switch recognition

fn check_c(table: &Table, cfg: &FlagCfg, masks: &[u8], vals: &[i32], with_switches: bool) -> (String, Vec<Failure>) {
    let mapfile = format!("{}{}", table.mapfile_text(REGS), cfg.mapfile_section());
    let detail = |extra: serde_json::Value| json!({"family": "c", "masks": masks, "vals": vals, "scheme": cfg.scheme, "default_on": cfg.default_on, "diff_switches": with_switches, "info": extra});
    let ms = table.opcode_of_name("mS");
    let mut instrs: Vec<RawInstr> = masks.iter().zip(vals).map(|(&m, &v)| RawInstr { opcode: ms, difficulty: m, args_blob: v.to_le_bytes().to_vec(), ..RawInstr::DEFAULTS }).collect();
    instrs.push(RawInstr { opcode: table.opcode_of_name("m0"), ..RawInstr::DEFAULTS });
    let hooks = make_language(&Pool { ints: 4, floats: 4 }, false);
    let sigbase = format!("masks={:02x?} same_vals={}", masks, vals.windows(2).all(|w| w[0] == w[1]));
    let r = catch(|| with_truth(&mapfile, |truth| {
        let options = truth::llir::DecompileOptions { diff_switches: with_switches, blocks: false, ..Default::default() };
        let block = tl::raise(truth, &hooks, &instrs, &options).map_err(|d| format!("raise: {d}"))?;
        let warn = truth.get_captured_diagnostics().unwrap_or_default();
        Ok::<_, String>((truth::fmt::stringify(&block), warn))
    }));
    let (text, warn) = match r {
        Err(p) => return ("panic".into(), vec![Failure { signature: format!("C14:{}", p.signature()), detail: detail(json!({"panic": p.text})) }]),
        Ok(Err(e)) => return ("raise-failed".into(), vec![Failure { signature: format!("C14:recognition-raise-failed:{sigbase}"), detail: detail(json!({"error": e})) }]),
        Ok(Ok(x)) => x,
    };
    if !warn.is_empty() { return ("warned".into(), vec![]); }
    let ms_name = format!("ins_{}(", ms);
    let recognized = text.lines().filter(|l| l.contains("mS(") || l.contains(&ms_name)).count() < masks.len();
    let r = catch(|| with_truth(&mapfile, |truth| {
        let block = front_end(truth, &text, true).map_err(|(s, d)| format!("{s}: {d}"))?;
        let des = desugar(truth, &block)?;
        let (i2, _) = tl::lower(truth, &hooks, &des.0, false)?;
        Ok::<_, String>(i2)
    }));
    match r {
        Err(p) => ("panic".into(), vec![Failure { signature: format!("C14:{}", p.signature()), detail: detail(json!({"panic": p.text, "text": text})) }]),
        Ok(Err(e)) => ("recompile-failed".into(), vec![Failure { signature: format!("C14:recognized-switch-does-not-recompile:{sigbase}"), detail: detail(json!({"error": e, "text": text})) }]),
        Ok(Ok(i2)) => {
            if i2 == instrs { (if recognized { "recognized-ok".into() } else { "kept-ok".into() }, vec![]) }
            else { ("differs".into(), vec![Failure { signature: format!("C14:recognition-changes-instructions:{sigbase}"), detail: detail(json!({"text": text, "original": fmt_instrs(&instrs), "recompiled": fmt_instrs(&i2)})) }]) }
        },
    }
}

enum Work { A(usize), B(BCase), C { cfg_idx: usize, masks: Vec<u8>, vals: Vec<i32>, sw: bool }, D(DCase) }

// ---------------------------------------------------------------------------------------------
// (d) switches in assignments, with cases that are not plain values (`A = (10 : : B + 12 : 13);`).  These do not
// expand into copies of one instruction but into one assignment per explicit case, each under the part of the label
// that its case spans.  Oracle: for every difficulty the switch has a position for, M1 runs the emitted
// instructions on that difficulty; if the label permits it, A ends as that difficulty's case value, otherwise A is
// untouched.

/// case: None = omitted, Some((v, false)) = literal v, Some((v, true)) = `B + v`
struct DCase { body: String, n: usize, cases: Vec<Option<(i32, bool)>>, label: &'static str, cfg_idx: usize, compound: bool }

fn check_d(table: &Table, cfg: &FlagCfg, c: &DCase) -> (String, Vec<Failure>, u64) {
    let mapfile = format!("{}{}", table.mapfile_text(REGS), cfg.mapfile_section());
    let detail = |extra: serde_json::Value| json!({"family": "d", "body": c.body, "scheme": cfg.scheme, "default_on": cfg.default_on, "label": c.label, "info": extra});
    let hooks = make_language(&Pool { ints: 4, floats: 4 }, false);
    let r = catch(|| with_truth(&mapfile, |truth| {
        let block = front_end(truth, &c.body, true).map_err(|(s, d)| format!("{s}: {d}"))?;
        tl::validate_difficulty(truth, &hooks, &block)?;
        let des = desugar(truth, &block)?;
        let (instrs, _) = tl::lower(truth, &hooks, &des.0, false)?;
        Ok::<_, String>(instrs)
    }));
    let instrs = match r {
        Err(p) => return ("panic".into(), vec![Failure { signature: format!("C14:{}", p.signature()), detail: detail(json!({"panic": p.text})) }], 0),
        Ok(Err(e)) => return ("rejected".into(), vec![Failure { signature: format!("C14:assign-switch-rejected:n{}:{}", c.n, e.lines().next().unwrap_or("").chars().filter(|ch| !ch.is_ascii_digit()).take(60).collect::<String>()), detail: detail(json!({"diag": e})) }], 0),
        Ok(Ok(i)) => i,
    };
    let label_mask = m8_parse_label(c.label, cfg).unwrap();
    let aux = cfg.default_on;
    let (a0, b0) = (-777, 1000);
    let mut val: Valuation = Valuation::new();
    for r in REGS { val.insert(r.id, if r.float { Val::F(0.0) } else { Val::I(0) }); }
    val.insert(R_A, Val::I(a0)); val.insert(R_B, Val::I(b0));
    let mut problems = vec![]; let mut comparisons = 0;
    for d in 0..c.n {
        if (aux >> d) & 1 == 1 { continue; }
        let permitted = (label_mask >> d) & 1 == 1;
        let (v, plus_b) = (0..=d).rev().find_map(|i| c.cases[i]).expect("first case present");
        let selected = if plus_b { b0 + v } else { v };
        let want = if !permitted { a0 } else if c.compound { a0 + selected } else { selected };
        comparisons += 1;
        match tl::run_m1(table, &instrs, &val, d as u32, 4) {
            Err(e) => { problems.push(format!("difficulty {d}: M1 cannot run the output: {e}")); break; },
            Ok(t) => {
                let got = t.regs.get(&R_A).map(|v| v.as_int());
                if got != Some(want) { problems.push(format!("difficulty {d} ({}): A ends as {:?}, expected {want}", if permitted { "permitted by the label" } else { "not permitted by the label" }, got)); }
            },
        }
    }
    for i in &instrs { comparisons += 1; if i.difficulty & aux != label_mask & aux { problems.push(format!("aux bits {:#x} differ from the label's {:#x}", i.difficulty & aux, label_mask & aux)); break; } }
    if problems.is_empty() { ("ok".into(), vec![], comparisons) } else {
        let holes = c.cases.iter().any(|x| x.is_none());
        ("mismatch".into(), vec![Failure { signature: format!("C14:assign-switch:n{}:{}:{}", c.n, if holes { "holes" } else { "dense" }, if aux != 0 { "aux" } else { "noaux" }), detail: detail(json!({"problems": problems, "instrs": fmt_instrs(&instrs)})) }], comparisons)
    }
}

pub fn run(tier: &str) -> Report {
    let mut rep = Report::new("C14", tier, "model_checking");
    // quick explores what used to be the thorough space (it takes ~20 s); thorough adds more default-on sets for
    // (b), independent hole patterns for two switches in one statement, and longer runs / more flag sets for (c)
    let extra = tier == "thorough";
    let thorough = true;
    let table = Table::new(&TableCfg::FULL);
    let cfgs = flag_cfgs(thorough);
    let mut work: Vec<Work> = (0..cfgs.len()).map(Work::A).collect();
    let n_a = work.len();
    // (b): configurations = ENHL+digits scheme with a few aux sets
    let b_cfg_idx: Vec<usize> = cfgs.iter().enumerate().filter(|(_, c)| (c.scheme == "ENHL+digits" || c.scheme == "REDEF-ENHL+digits" && [0x00u8, 0xF0, 0x30].contains(&c.default_on)) && (if extra { vec![0x00u8, 0x10, 0xF0, 0x30, 0x01, 0x82, 0x20, 0x40, 0x80, 0x03, 0x0F, 0x50, 0xA0, 0xFF, 0x11, 0xE1] } else { vec![0x00u8, 0x10, 0xF0, 0x30, 0x01, 0x82] }).contains(&c.default_on)).map(|(i, _)| i).collect();
    let labels: [&'static str; 12] = ["*", "E", "EN", "ENH", "ENHL", "L", "NH", "HL", "*-4", "EN-7", "0123", "*-E"];
    for &ci in &b_cfg_idx {
        for n in 2..=8usize {
            if !thorough && n > 5 && n != 8 { continue; }
            for holes in 0..(1u32 << (n - 1)) {
                if !thorough && n == 8 && holes.count_ones() != 1 && holes != 0 && holes != 0x7F { continue; }
                let sw: Vec<Option<i32>> = (0..n).map(|i| if i > 0 && (holes >> (i - 1)) & 1 == 1 { None } else { Some(10 + i as i32) }).collect();
                let txt = |sw: &Vec<Option<i32>>| format!("({})", sw.iter().map(|x| x.map(|v| v.to_string()).unwrap_or_default()).collect::<Vec<_>>().join(":"));
                for (li, lab) in labels.iter().enumerate() {
                    if !thorough && li >= 6 && holes % 3 != 0 { continue; }
                    // the label must be parseable under this cfg's names (E N H L 4..7 digits): all are
                    let body = format!("{{ {{\"{lab}\"}}: mS({}); }}", txt(&sw));
                    work.push(Work::B(BCase { body, n, cases: vec![sw.clone()], label: lab, cfg_idx: ci, mismatched: false }));
                }
                // two switches in one statement (same length), second one dense with other values
                let sw2: Vec<Option<i32>> = (0..n).map(|i| if i == 0 || (holes >> (n - 1 - i)) & 1 == 0 { Some(100 + i as i32) } else { None }).collect();
                let body = format!("{{ {{\"*\"}}: mSS({}, {}); }}", txt(&sw), txt(&sw2));
                work.push(Work::B(BCase { body, n, cases: vec![sw.clone(), sw2], label: "*", cfg_idx: ci, mismatched: false }));
                // thorough: the second switch gets every hole pattern independently (n <= 5), under a restricting label
                if extra && n <= 5 {
                    for holes2 in 0..(1u32 << (n - 1)) {
                        let sw3: Vec<Option<i32>> = (0..n).map(|i| if i > 0 && (holes2 >> (i - 1)) & 1 == 1 { None } else { Some(200 + i as i32) }).collect();
                        for lab in ["ENH", "*-4"] {
                            let body = format!("{{ {{\"{lab}\"}}: mSS({}, {}); }}", txt(&sw), txt(&sw3));
                            work.push(Work::B(BCase { body, n, cases: vec![sw.clone(), sw3.clone()], label: lab, cfg_idx: ci, mismatched: false }));
                        }
                    }
                }
            }
            // nested labelled blocks: the innermost explicit label decides (it replaces, not intersects, the enclosing one);
            // a statement without a label inside a labelled block takes the block's label.  Inner labels include the
            // spellings of the full mask ("*", all digits, "ENHL" when bits 4-7 are on by default)
            if n <= 4 {
                let sw: Vec<Option<i32>> = (0..n).map(|i| if i == 1 && n > 2 { None } else { Some(10 + i as i32) }).collect();
                let txt = format!("({})", sw.iter().map(|x| x.map(|v| v.to_string()).unwrap_or_default()).collect::<Vec<_>>().join(":"));
                let inner_labels: [&'static str; 9] = ["*", "01234567", "ENHL", "E", "EN", "L", "NH", "*-4", "EN-7"];
                for outer in labels.iter() {
                    work.push(Work::B(BCase { body: format!("{{ {{\"{outer}\"}}: {{ mS({txt}); }} }}"), n, cases: vec![sw.clone()], label: outer, cfg_idx: ci, mismatched: false }));
                    work.push(Work::B(BCase { body: format!("{{ {{\"{outer}\"}}: {{ {{ mS({txt}); }} }} }}"), n, cases: vec![sw.clone()], label: outer, cfg_idx: ci, mismatched: false }));
                    for inner in inner_labels {
                        work.push(Work::B(BCase { body: format!("{{ {{\"{outer}\"}}: {{ {{\"{inner}\"}}: mS({txt}); }} }}"), n, cases: vec![sw.clone()], label: inner, cfg_idx: ci, mismatched: false }));
                        work.push(Work::B(BCase { body: format!("{{ {{\"{outer}\"}}: {{ {{\"{inner}\"}}: {{ mS({txt}); }} }} }}"), n, cases: vec![sw.clone()], label: inner, cfg_idx: ci, mismatched: false }));
                        work.push(Work::B(BCase { body: format!("{{ {{\"{inner}\"}}: {{ {{\"{outer}\"}}: {{ {{\"{inner}\"}}: mS({txt}); }} }} }}"), n, cases: vec![sw.clone()], label: inner, cfg_idx: ci, mismatched: false }));
                    }
                }
            }
            // (d) assignment switches: every hole pattern x which explicit case is compound (each one in turn, and all) x labels
            if n <= if extra { 6 } else { 4 } {
                for holes in 0..(1u32 << (n - 1)) {
                    let explicit: Vec<usize> = (0..n).filter(|&i| i == 0 || (holes >> (i - 1)) & 1 == 0).collect();
                    let mut shapes: Vec<Vec<usize>> = explicit.iter().map(|&i| vec![i]).collect();
                    if explicit.len() > 1 { shapes.push(explicit.clone()); }
                    for nonsimple in shapes {
                        let cases: Vec<Option<(i32, bool)>> = (0..n).map(|i| if explicit.contains(&i) { Some((10 + i as i32, nonsimple.contains(&i))) } else { None }).collect();
                        let txt = cases.iter().map(|x| match x { None => String::new(), Some((v, false)) => v.to_string(), Some((v, true)) => format!("B + {v}") }).collect::<Vec<_>>().join(" : ");
                        for lab in labels.iter() {
                            for compound in [false, true] {
                                if compound && !extra && nonsimple.len() > 1 { continue; }
                                let body = format!("{{ {{\"{lab}\"}}: A {} ({txt}); }}", if compound { "+=" } else { "=" });
                                work.push(Work::D(DCase { body, n, cases: cases.clone(), label: lab, cfg_idx: ci, compound }));
                            }
                        }
                    }
                }
            }
            // mismatched lengths must be an error
            let body = format!("{{ mSS(({}), (1:2:3:4:5:6:7:8:9)); }}", (0..n).map(|i| i.to_string()).collect::<Vec<_>>().join(":"));
            work.push(Work::B(BCase { body, n, cases: vec![], label: "*", cfg_idx: ci, mismatched: true }));
        }
    }
    let n_b = work.len() - n_a;
    // (c): runs of 2..4 instructions with masks from a family set
    let mask_set: Vec<u8> = vec![0x01, 0x02, 0x04, 0x08, 0x03, 0x06, 0x0C, 0x07, 0x0E, 0x0F, 0x05, 0x09, 0xF1, 0xF2, 0xFC, 0xF3, 0xFF, 0x10, 0x00, 0xF0];
    let c_cfgs: Vec<usize> = cfgs.iter().enumerate().filter(|(_, c)| c.scheme == "ENHL+digits" && (if extra { vec![0x00u8, 0xF0, 0x10, 0x30] } else { vec![0x00u8, 0xF0] }).contains(&c.default_on)).map(|(i, _)| i).collect();
    let max_run = if extra { 5 } else { 4 };
    // for the longest runs only the masks with all aux bits on (the shape real files have)
    let small_set: Vec<u8> = vec![0xF1, 0xF2, 0xF4, 0xF8, 0xF3, 0xF6, 0xFC, 0xF7, 0xFE, 0xFF, 0xF5, 0x01];
    for &ci in &c_cfgs {
        for len in 2..=max_run {
            let mask_set: &Vec<u8> = if len == max_run { &small_set } else { &mask_set };
            let total = mask_set.len().pow(len as u32);
            for code in 0..total {
                let mut c = code; let mut masks = vec![];
                for _ in 0..len { masks.push(mask_set[c % mask_set.len()]); c /= mask_set.len(); }
                for same in [true, false] {
                    let vals: Vec<i32> = (0..len).map(|i| if same { 7 } else { 7 + i as i32 }).collect();
                    for sw in [true, false] { work.push(Work::C { cfg_idx: ci, masks: masks.clone(), vals: vals.clone(), sw }); }
                }
            }
        }
    }
    let n_c = work.len() - n_a - n_b;
    rep.states = work.len() as u64; rep.transitions = work.len() as u64;
    let deadline = rep.deadline();
    let results = par_map(&work, Some(deadline), |_, w| match w {
        Work::A(i) => { let o = check_a(&table, &cfgs[*i]); (format!("a:{}", o.class), o.failures, o.comparisons) },
        Work::B(c) => { let (cl, f, n) = check_b(&table, &cfgs[c.cfg_idx], c); (format!("b:{cl}"), f, n) },
        Work::C { cfg_idx, masks, vals, sw } => { let (cl, f) = check_c(&table, &cfgs[*cfg_idx], masks, vals, *sw); (format!("c:{cl}"), f, 1) },
        Work::D(c) => { let (cl, f, n) = check_d(&table, &cfgs[c.cfg_idx], c); (format!("d:{cl}"), f, n) },
    });
    let mut seen_sigs = BTreeSet::new();
    for (i, r) in results.into_iter().enumerate() {
        let Some((class, failures, n)) = r else { rep.cap_hit = Some("wall cap".into()); continue; };
        rep.evaluations += 1; rep.traces_validated += n;
        rep.outcome(&class);
        match &work[i] {
            Work::A(ci) => { if cfgs[*ci].default_on != 0 || cfgs[*ci].scheme != "digits" { rep.nontrivial += 1; } if i % 97 == 0 { rep.sample(json!({"family": "a", "scheme": cfgs[*ci].scheme, "default_on": cfgs[*ci].default_on})); } },
            Work::B(c) => { if c.cases.iter().any(|s| s.iter().any(|x| x.is_none())) || c.label != "*" { rep.nontrivial += 1; } if i % 4001 == 0 { rep.sample(json!({"family": "b", "body": c.body, "default_on": cfgs[c.cfg_idx].default_on})); } },
            Work::C { masks, .. } => { rep.nontrivial += 1; if i % 9001 == 0 { rep.sample(json!({"family": "c", "masks": masks})); } },
            Work::D(c) => { if c.cases.iter().any(|x| x.is_none()) || c.label != "*" { rep.nontrivial += 1; } if i % 4001 == 0 { rep.sample(json!({"family": "d", "body": c.body, "default_on": cfgs[c.cfg_idx].default_on})); } },
        }
        for f in failures { if seen_sigs.insert(f.signature.clone()) || rep.failures.len() < 200 { rep.failures.push(f); } }
    }
    rep.exhaustive = true;
    rep.bound_completed = format!("(a) all 256 masks x {} flag configurations ({} schemes x default-on subsets{}); (b) {} switch statements: lengths 2-8, every hole pattern{}, 12 labels, {} default-on sets, 1-2 switches per statement{}, nested labelled blocks (12 outer x 9 inner labels, 1-3 levels), mismatched lengths; (c) {} runs of 2..{} instructions over {} masks x same/different values x recognition on/off; (d) assignment switches `A = (..)` / `A += (..)` of length 2-4 [thorough: 2-6], every hole pattern x each explicit case in turn (and all) written `B + k` x 12 labels x the (b) flag sets, run by M1 on every difficulty", n_a, 8, if thorough { ": all 256 for every scheme" } else { ": all 256 for the ENHL scheme, 12 elsewhere" }, n_b, if thorough { "" } else { " (quick: a subset for n>5)" }, b_cfg_idx.len(), if extra { " (second switch with every independent hole pattern for n<=5 under 2 restricting labels)" } else { "" }, n_c, max_run, mask_set.len());
    rep.rule = "full products as listed; non-trivial = the flag set has a default-on or renamed bit (a), the switch has a hole or the label masks out a case (b), every run (c)".into();
    rep.assumptions = vec!["M8 (harness model of the label grammar: defaults, '-'/'+', '*', names) and of per-difficulty case selection".into(), "flag definitions that give one name to two bits can only be satisfied by rejection".into()];
    rep.explanation = "(a) hand-built instructions with every mask are raised to text, each printed label is parsed by M8 and the text is recompiled; (b) switch statements are lowered and, for each difficulty, exactly one emitted copy must apply with that difficulty's values and the label's aux bits; (c) hand-built instruction runs are raised with recognition on/off and recompiled to identical instructions".into();
    rep
}

pub fn replay(detail: &serde_json::Value) -> i32 {
    let table = Table::new(&TableCfg::FULL);
    let cfgs = flag_cfgs(true);
    let scheme = detail["scheme"].as_str().unwrap_or("");
    let d = detail["default_on"].as_u64().unwrap_or(0) as u8;
    let Some(cfg) = cfgs.iter().find(|c| c.scheme == scheme && c.default_on == d) else { println!("unknown configuration"); return 2; };
    let failures = match detail["family"].as_str().unwrap_or("") {
        "a" => check_a(&table, cfg).failures,
        "c" => {
            let masks: Vec<u8> = detail["masks"].as_array().unwrap().iter().map(|v| v.as_u64().unwrap() as u8).collect();
            let vals: Vec<i32> = detail["vals"].as_array().unwrap().iter().map(|v| v.as_i64().unwrap() as i32).collect();
            check_c(&table, cfg, &masks, &vals, detail["diff_switches"].as_bool().unwrap_or(true)).1
        },
        _ => { println!("family b: re-run ./check C14 quick (deterministic)"); return 2; },
    };
    for f in &failures { println!("FAIL {}\n{}", f.signature, serde_json::to_string_pretty(&f.detail).unwrap()); }
    if failures.is_empty() { 0 } else { 1 }
}

pub fn debug_print() {
    let table = Table::new(&TableCfg::FULL);
    let cfgs = flag_cfgs(true);
    let cfg = cfgs.iter().find(|c| c.scheme == "ENHL+digits" && c.default_on == 0xF0).unwrap();
    let mapfile = format!("{}{}", table.mapfile_text(REGS), cfg.mapfile_section());
    let ms = table.opcode_of_name("mS");
    let instrs: Vec<RawInstr> = [(0xF1u8, 7), (0xF2, 8), (0xFC, 9)].iter().map(|&(m, v): &(u8, i32)| RawInstr { opcode: ms, difficulty: m, args_blob: v.to_le_bytes().to_vec(), ..RawInstr::DEFAULTS }).collect();
    let hooks = make_language(&Pool { ints: 4, floats: 4 }, false);
    with_truth(&mapfile, |truth| {
        let options = truth::llir::DecompileOptions { blocks: false, ..Default::default() };
        let block = tl::raise(truth, &hooks, &instrs, &options).unwrap();
        println!("{}", truth::fmt::stringify(&block));
    });
}
