//! G-expr / G-stmt: typed source generators driven by a Chooser (alternative 0 = simplest).
//! They render source text and, in parallel, the model value the oracles need
//! (registers mentioned, locals declared, features used).

use std::collections::BTreeSet;

use crate::common::Chooser;
use crate::tl::{self, Table, K};

#[derive(Debug, Clone, Default)]
pub struct Model {
    pub regs: BTreeSet<i32>,
    pub features: BTreeSet<&'static str>,
    pub n_locals: usize,
    pub uses_switch: bool,
    pub labels: usize,
    /// length of the shortest difficulty switch in the body (0 = none)
    pub min_switch_len: usize,
}

pub struct G<'a, 'c> {
    pub ch: &'a mut Chooser<'c>,
    pub table: &'a Table,
    pub model: Model,
    /// locals in scope: (name, is_float)
    pub locals: Vec<(String, bool)>,
    pub allow_switch: bool,
    pub allow_locals: bool,
    pub max_depth: u32,
    pub auto_casts: bool,
}

const INT_REGS: [(&str, i32); 4] = [("A", tl::R_A), ("B", tl::R_B), ("P", tl::R_P), ("C", tl::R_C)];
const FLOAT_REGS: [(&str, i32); 3] = [("X", tl::R_X), ("R", tl::R_R), ("Y", tl::R_Y)];
const INT_LITS: [&str; 6] = ["1", "0", "3", "-1", "7", "-2147483648"];
const FLOAT_LITS: [&str; 5] = ["1.0", "0.0", "2.5", "-1.5", "0.25"];

impl<'a, 'c> G<'a, 'c> {
    pub fn new(ch: &'a mut Chooser<'c>, table: &'a Table) -> Self {
        G { ch, table, model: Model::default(), locals: vec![], allow_switch: true, allow_locals: true, max_depth: 3, auto_casts: true }
    }

    fn feat(&mut self, f: &'static str) { self.model.features.insert(f); }

    pub fn int_reg(&mut self) -> String {
        let i = self.ch.pick(INT_REGS.len());
        self.model.regs.insert(INT_REGS[i].1);
        INT_REGS[i].0.to_string()
    }
    pub fn float_reg(&mut self) -> String {
        let i = self.ch.pick(FLOAT_REGS.len());
        self.model.regs.insert(FLOAT_REGS[i].1);
        FLOAT_REGS[i].0.to_string()
    }

    /// an int-typed variable usable as assignment target / counter
    pub fn int_var(&mut self) -> String {
        let locals: Vec<String> = self.locals.iter().filter(|l| !l.1).map(|l| l.0.clone()).collect();
        let n = INT_REGS.len() + locals.len();
        let i = self.ch.pick(n);
        if i < INT_REGS.len() { self.model.regs.insert(INT_REGS[i].1); INT_REGS[i].0.to_string() }
        else { self.feat("local-use"); locals[i - INT_REGS.len()].clone() }
    }
    pub fn float_var(&mut self) -> String {
        let locals: Vec<String> = self.locals.iter().filter(|l| l.1).map(|l| l.0.clone()).collect();
        let n = FLOAT_REGS.len() + locals.len();
        let i = self.ch.pick(n);
        if i < FLOAT_REGS.len() { self.model.regs.insert(FLOAT_REGS[i].1); FLOAT_REGS[i].0.to_string() }
        else { self.feat("local-use"); locals[i - FLOAT_REGS.len()].clone() }
    }

    fn int_atom(&mut self) -> String {
        // 0: reg A ; then literals; other regs; sigil reads; locals; raw REG syntax
        let locals: Vec<String> = self.locals.iter().filter(|l| !l.1).map(|l| l.0.clone()).collect();
        let flocals: Vec<String> = self.locals.iter().filter(|l| l.1).map(|l| l.0.clone()).collect();
        let mut alts: Vec<(String, Option<i32>, &'static str)> = vec![];
        alts.push(("A".into(), Some(tl::R_A), "reg"));
        for l in INT_LITS { alts.push((l.to_string(), None, "lit")); }
        alts.push(("B".into(), Some(tl::R_B), "reg"));
        alts.push(("P".into(), Some(tl::R_P), "reg"));
        if self.auto_casts {
            alts.push(("$X".into(), Some(tl::R_X), "sigil-cast"));
            alts.push(("$R".into(), Some(tl::R_R), "sigil-cast"));
        }
        alts.push(("$A".into(), Some(tl::R_A), "sigil-same"));
        alts.push((format!("$REG[{}]", tl::R_C), Some(tl::R_C), "raw-reg"));
        alts.push(("COUNT".into(), Some(tl::R_COUNT), "reg"));
        for l in &locals { alts.push((l.clone(), None, "local-use")); }
        if self.auto_casts { for l in &flocals { alts.push((format!("${l}"), None, "local-sigil")); } }
        let i = self.ch.pick(alts.len());
        let (t, r, f) = alts[i].clone();
        if let Some(r) = r { self.model.regs.insert(r); }
        self.feat(f);
        t
    }

    fn float_atom(&mut self) -> String {
        let locals: Vec<String> = self.locals.iter().filter(|l| l.1).map(|l| l.0.clone()).collect();
        let ilocals: Vec<String> = self.locals.iter().filter(|l| !l.1).map(|l| l.0.clone()).collect();
        let mut alts: Vec<(String, Option<i32>, &'static str)> = vec![];
        alts.push(("X".into(), Some(tl::R_X), "reg"));
        for l in FLOAT_LITS { alts.push((l.to_string(), None, "lit")); }
        alts.push(("R".into(), Some(tl::R_R), "reg"));
        if self.auto_casts {
            alts.push(("%A".into(), Some(tl::R_A), "sigil-cast"));
            alts.push(("%P".into(), Some(tl::R_P), "sigil-cast"));
        }
        alts.push(("%X".into(), Some(tl::R_X), "sigil-same"));
        alts.push((format!("%REG[{}]", tl::R_Y), Some(tl::R_Y), "raw-reg"));
        for l in &locals { alts.push((l.clone(), None, "local-use")); }
        if self.auto_casts { for l in &ilocals { alts.push((format!("%{l}"), None, "local-sigil")); } }
        let i = self.ch.pick(alts.len());
        let (t, r, f) = alts[i].clone();
        if let Some(r) = r { self.model.regs.insert(r); }
        self.feat(f);
        t
    }

    pub fn expr(&mut self, float: bool, depth: u32) -> String {
        if depth == 0 { return if float { self.float_atom() } else { self.int_atom() }; }
        if float { self.float_expr(depth) } else { self.int_expr(depth) }
    }

    fn int_expr(&mut self, depth: u32) -> String {
        // shapes, simplest first
        let mut shapes: Vec<&'static str> = vec!["atom", "arith"];
        if self.table.cfg.cmp_binops { shapes.push("cmp-int"); shapes.push("cmp-float"); }
        shapes.push("neg");
        if self.table.cfg.bitwise { shapes.push("bit"); shapes.push("not"); shapes.push("bitnot"); }
        shapes.push("cast");
        shapes.push("ternary");
        if self.allow_switch { shapes.push("switch"); }
        shapes.push("paren-sigil");
        shapes.push("realcast");
        let s = shapes[self.ch.pick(shapes.len())];
        let d = depth - 1;
        match s {
            "realcast" => { self.feat("realcast"); let a = self.expr(true, d); format!("int({a})") },
            "atom" => self.int_atom(),
            "arith" => { self.feat("arith"); let op = tl::ARITH[self.ch.pick(5)]; let a = self.expr(false, d); let b = self.expr(false, d); format!("({a} {op} {b})") },
            "cmp-int" => { self.feat("cmp"); let op = tl::CMPS[self.ch.pick(6)]; let a = self.expr(false, d); let b = self.expr(false, d); format!("({a} {op} {b})") },
            "cmp-float" => { self.feat("cmp"); let op = tl::CMPS[self.ch.pick(6)]; let a = self.expr(true, d); let b = self.expr(true, d); format!("({a} {op} {b})") },
            "neg" => { self.feat("neg"); let a = self.expr(false, d); format!("(-({a}))") },
            "bit" => { self.feat("bit"); let op = tl::BITS[self.ch.pick(8)]; let a = self.expr(false, d); let b = self.expr(false, d); format!("({a} {op} {b})") },
            "not" => { self.feat("not"); let a = self.expr(false, d); format!("(!({a}))") },
            "bitnot" => { self.feat("bitnot"); let a = self.expr(false, d); format!("(~({a}))") },
            "cast" => { self.feat("cast"); let a = self.expr(true, d); format!("_S({a})") },
            "ternary" => { self.feat("ternary"); let c = self.expr(false, d); let a = self.expr(false, d); let b = self.expr(false, d); format!("({c} ? {a} : {b})") },
            "switch" => self.switch(false, d),
            "paren-sigil" => { self.feat("paren-sigil"); let a = self.expr(true, d); format!("$({a})") },
            _ => unreachable!(),
        }
    }

    fn float_expr(&mut self, depth: u32) -> String {
        let mut shapes: Vec<&'static str> = vec!["atom", "arith", "neg", "cast"];
        if self.table.has(K::Un("sin", true)) { shapes.push("sin"); shapes.push("cos"); shapes.push("sqrt"); }
        shapes.push("ternary");
        if self.allow_switch { shapes.push("switch"); }
        shapes.push("paren-sigil");
        shapes.push("realcast");
        let s = shapes[self.ch.pick(shapes.len())];
        let d = depth - 1;
        match s {
            "realcast" => { self.feat("realcast"); let a = self.expr(false, d); format!("float({a})") },
            "atom" => self.float_atom(),
            "arith" => { self.feat("arith"); let op = tl::ARITH[self.ch.pick(5)]; let a = self.expr(true, d); let b = self.expr(true, d); format!("({a} {op} {b})") },
            "neg" => { self.feat("neg"); let a = self.expr(true, d); format!("(-({a}))") },
            "cast" => { self.feat("cast"); let a = self.expr(false, d); format!("_f({a})") },
            "sin" => { self.feat("sin"); let a = self.expr(true, d); format!("sin({a})") },
            "cos" => { self.feat("sin"); let a = self.expr(true, d); format!("cos({a})") },
            "sqrt" => { self.feat("sin"); let a = self.expr(true, d); format!("sqrt({a})") },
            "ternary" => { self.feat("ternary"); let c = self.expr(false, d); let a = self.expr(true, d); let b = self.expr(true, d); format!("({c} ? {a} : {b})") },
            "switch" => self.switch(true, d),
            "paren-sigil" => { self.feat("paren-sigil"); let a = self.expr(false, d); format!("%({a})") },
            _ => unreachable!(),
        }
    }

    fn switch(&mut self, float: bool, d: u32) -> String {
        self.feat("switch");
        self.model.uses_switch = true;
        // number of cases 2..4, holes allowed except first
        let n = 2 + self.ch.pick(3);
        self.model.min_switch_len = if self.model.min_switch_len == 0 { n } else { self.model.min_switch_len.min(n) };
        let mut parts = vec![];
        for i in 0..n {
            if i > 0 && self.ch.pick(2) == 1 { parts.push(String::new()); continue; }
            // switch cases: keep them simple by default (atoms), complex costs extra
            let e = if self.ch.pick(2) == 1 { self.expr(float, d) } else if float { self.float_atom() } else { self.int_atom() };
            parts.push(e);
        }
        format!("({})", parts.join(":"))
    }

    /// A condition for `if (...) goto`
    pub fn cond(&mut self, depth: u32) -> String {
        let mut shapes = vec!["cmp-int", "cmp-float", "expr", "and", "or", "not"];
        if self.table.cfg.count_jmp { shapes.push("predec"); }
        let s = shapes[self.ch.pick(shapes.len())];
        let d = depth.saturating_sub(1);
        match s {
            "cmp-int" => { let op = tl::CMPS[self.ch.pick(6)]; let a = self.expr(false, d); let b = self.expr(false, d); format!("{a} {op} {b}") },
            "cmp-float" => { self.feat("cond-float"); let op = tl::CMPS[self.ch.pick(6)]; let a = self.expr(true, d); let b = self.expr(true, d); format!("{a} {op} {b}") },
            "expr" => { self.feat("cond-expr"); self.expr(false, d) },
            "and" => { self.feat("cond-logic"); let a = self.cond_simple(d); let b = self.cond_simple(d); format!("({a}) && ({b})") },
            "or" => { self.feat("cond-logic"); let a = self.cond_simple(d); let b = self.cond_simple(d); format!("({a}) || ({b})") },
            "not" => { self.feat("cond-not"); let a = self.cond_simple(d); format!("!({a})") },
            "predec" => { self.feat("predec"); let v = self.int_var(); format!("--{v}") },
            _ => unreachable!(),
        }
    }
    fn cond_simple(&mut self, d: u32) -> String {
        match self.ch.pick(3) {
            0 => { let op = tl::CMPS[self.ch.pick(6)]; let a = self.expr(false, d); let b = self.expr(false, d); format!("{a} {op} {b}") },
            1 => { let op = tl::CMPS[self.ch.pick(6)]; let a = self.expr(true, d); let b = self.expr(true, d); format!("{a} {op} {b}") },
            _ => self.cond(d),
        }
    }

    /// One statement (possibly a small group with a label).  `idx` makes labels/locals unique.
    pub fn stmt(&mut self, idx: usize) -> String {
        let mut kinds = vec!["assign-int", "assign-float", "call", "assignop-int", "assignop-float", "condjump", "unless-jump"];
        if self.allow_locals { kinds.push("local-int"); kinds.push("local-float"); }
        kinds.push("timelabel");
        kinds.push("difflabel-call");
        kinds.push("countloop");
        let k = kinds[self.ch.pick(kinds.len())];
        let d = self.max_depth;
        match k {
            "assign-int" => { let v = self.int_var(); let e = self.expr(false, d); format!("{v} = {e};") },
            "assign-float" => { self.feat("float-assign"); let v = self.float_var(); let e = self.expr(true, d); format!("{v} = {e};") },
            "assignop-int" => {
                self.feat("assignop");
                let mut ops = vec!["+=", "-=", "*=", "/=", "%="];
                if self.table.cfg.bitwise { ops.extend(["|=", "^=", "&=", "<<=", ">>=", ">>>="]); }
                let v = self.int_var(); let op = ops[self.ch.pick(ops.len())]; let e = self.expr(false, d); format!("{v} {op} {e};")
            },
            "assignop-float" => {
                self.feat("assignop");
                let ops = ["+=", "-=", "*=", "/=", "%="];
                let v = self.float_var(); let op = ops[self.ch.pick(ops.len())]; let e = self.expr(true, d); format!("{v} {op} {e};")
            },
            "call" => {
                self.feat("call");
                let sigs = [("mS", "S"), ("mf", "f"), ("mSf", "Sf"), ("mSS", "SS"), ("mff", "ff"), ("mSfSf", "SfSf")];
                let (name, sig) = sigs[self.ch.pick(sigs.len())];
                let args: Vec<String> = sig.chars().map(|c| self.expr(c == 'f', d)).collect();
                format!("{name}({});", args.join(", "))
            },
            "condjump" | "unless-jump" => {
                self.feat("condjump");
                self.model.labels += 1;
                let kw = if k == "condjump" { "if" } else { "unless" };
                let c = self.cond(d);
                let t = if self.ch.pick(2) == 1 { self.feat("goto-time"); " @ 5" } else { "" };
                format!("{kw} ({c}) goto L{idx}{t}; mS(100 + {idx}); L{idx}: mS(200 + {idx});")
            },
            "local-int" => {
                self.feat("local");
                let name = format!("li{idx}");
                let e = self.expr(false, d);
                self.locals.push((name.clone(), false));
                self.model.n_locals += 1;
                format!("int {name} = {e}; mS({name});")
            },
            "local-float" => {
                self.feat("local");
                let name = format!("lf{idx}");
                let e = self.expr(true, d);
                self.locals.push((name.clone(), true));
                self.model.n_locals += 1;
                format!("float {name} = {e}; mf({name});")
            },
            "timelabel" => { self.feat("timelabel"); let n = [1, 10, 0][self.ch.pick(3)]; format!("+{n}: m0();") },
            "difflabel-call" => {
                self.feat("difflabel");
                self.model.uses_switch = true;
                let lab = ["01", "2", "0123", "3"][self.ch.pick(4)];
                let e = self.expr(false, d);
                format!("{{\"{lab}\"}}: mS({e}); {{\"*\"}}: m0();")
            },
            "countloop" => {
                if !self.table.cfg.count_jmp { return "m0();".into(); }
                self.feat("countloop");
                self.model.labels += 1;
                let v = self.int_var();
                let n = ["2", "1", "3"][self.ch.pick(3)];
                let body = self.expr(false, d.min(1));
                format!("{v} = {n}; K{idx}: mS({body}); +1: if (--{v}) goto K{idx};")
            },
            _ => unreachable!(),
        }
    }

    pub fn body(&mut self, max_stmts: usize) -> String {
        let n = 1 + self.ch.pick(max_stmts);
        let mut parts = vec![];
        for i in 0..n { parts.push(self.stmt(i)); }
        format!("{{ {} }}", parts.join(" "))
    }
}
